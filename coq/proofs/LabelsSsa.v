(* C04: meta provenance through the SSA construction (mirror Model.Ssa, the
   construction checked against the real `into_ssa` by property C14's engine).

   The IR mirror Model.Ir keeps the meta of every STATEMENT (expressions carry
   only their knowledge slot; in the Rust code `visit_expression` of ssa_impl.rs
   never writes an expression's meta either, but that is not expressible here).
   What is proved, for every graph, every frontier / children table and every
   outcome of the fuelled loops:

     block i of the SSA form = some number of inserted phi statements, each with
     `Meta::default()` (location 0..0, NO file id) and kind "substitution",
     followed by statements with exactly the metas and kinds of block i of the
     input, in the same order.

   So SSA renames variables and inserts phis, but never moves, invents or
   re-targets a location: every statement meta of the output is a statement
   meta of the input (same block, same position among the non-inserted
   statements, same statement kind) or the file-less default meta, for which
   no label is ever produced (Proofs.LabelsProofs.phi_statement_gets_no_label). *)
From Coq Require Import ZArith NArith List Bool Lia Arith.
Require Import Model.Base Model.Ir Model.SsaCheck Model.Ssa Model.Labels.
Require Import Spec.MetaSpec Proofs.SsaNoPanic Proofs.LabelsProofs.
Import ListNotations.

(* block b' is block b with k inserted phis in front *)
Definition from_block (b b' : block) : Prop :=
  exists k, block_tags b' = repeat phi_tag k ++ block_tags b.

Definition from_blocks (bs bs' : list block) : Prop := Forall2 from_block bs bs'.

(* ------------------------------------------------------------------------ *)
(* the relation is a preorder, and local updates are steps of it             *)
(* ------------------------------------------------------------------------ *)

Lemma from_block_refl b : from_block b b.
Proof. exists 0. reflexivity. Qed.

Lemma from_block_trans a b c : from_block a b -> from_block b c -> from_block a c.
Proof.
  intros [k Hk] [j Hj]. exists (j + k). rewrite Hj, Hk, app_assoc, <- repeat_app. reflexivity.
Qed.

Lemma from_blocks_refl bs : from_blocks bs bs.
Proof. induction bs; constructor; auto using from_block_refl. Qed.

Lemma from_blocks_trans : forall a b c, from_blocks a b -> from_blocks b c -> from_blocks a c.
Proof.
  intros a b c H. revert c. induction H; intros c Hc; inversion Hc; subst; constructor.
  - eapply from_block_trans; eassumption.
  - apply IHForall2. assumption.
Qed.

Lemma from_block_same_tags b b' : block_tags b' = block_tags b -> from_block b b'.
Proof. intros H. exists 0. exact H. Qed.

Lemma update_nth_step (f : block -> block) : forall l i,
  (forall x, nth_error l i = Some x -> from_block x (f x)) ->
  from_blocks l (update_nth l i f).
Proof.
  induction l as [|x tl IH]; intros [|i] H; simpl.
  - constructor.
  - constructor.
  - constructor; [apply H; reflexivity|apply from_blocks_refl].
  - constructor; [apply from_block_refl|apply IH; exact H].
Qed.

(* ------------------------------------------------------------------------ *)
(* phi insertion                                                             *)
(* ------------------------------------------------------------------------ *)

Lemma phi_stmt_tag v : tag (phi_stmt_for v) = phi_tag.
Proof. reflexivity. Qed.

Lemma add_phis_from : forall vars b n, from_block b (fst (add_phis vars b n)).
Proof.
  induction vars as [|v tl IH]; intros b n; simpl.
  - apply from_block_refl.
  - destruct (existsb (is_phi_for v) (b_stmts b)).
    + apply IH.
    + eapply from_block_trans; [|apply IH].
      exists 1. reflexivity.
Qed.

Lemma process_frontier_from vars : forall fr bs work,
  from_blocks bs (fst (process_frontier vars fr bs work)).
Proof.
  induction fr as [|f tl IH]; intros bs work; simpl.
  - apply from_blocks_refl.
  - destruct (nth_error bs (N.to_nat f)) as [b|] eqn:E.
    + destruct (add_phis vars b 0) as [b' pushes] eqn:Ea.
      eapply from_blocks_trans; [|apply IH].
      apply update_nth_step. intros x Hx. rewrite E in Hx. inversion Hx; subst x.
      change b' with (fst (b', pushes)). rewrite <- Ea. apply add_phis_from.
    + apply IH.
Qed.

Lemma insert_phis_from frontier : forall fuel bs work bs',
  insert_phis fuel frontier bs work = SOk bs' -> from_blocks bs bs'.
Proof.
  induction fuel as [|fuel IH]; intros bs work bs' H.
  - destruct work; simpl in H; [|discriminate]. inversion H. apply from_blocks_refl.
  - destruct work as [|cur rest]; simpl in H.
    + inversion H. apply from_blocks_refl.
    + destruct (nth_error bs cur) as [b|]; [|discriminate].
      destruct (vars_written b) as [|v vs] eqn:Ev.
      * eapply IH. exact H.
      * destruct (process_frontier (v :: vs) (nth cur frontier []) bs rest) as [bs1 work1] eqn:Ep.
        eapply from_blocks_trans; [|eapply IH; exact H].
        change bs1 with (fst (bs1, work1)). rewrite <- Ep. apply process_frontier_from.
Qed.

(* ------------------------------------------------------------------------ *)
(* renaming                                                                  *)
(* ------------------------------------------------------------------------ *)

Ltac sb H :=
  match type of H with
  | sbind ?m _ = SOk _ =>
      let r := fresh "r" in let e := fresh "e" in
      destruct m as [[r e]| | |]; cbn [sbind] in H; try discriminate H
  end.

Lemma ssa_stmt_tag decls env s s' env' :
  ssa_stmt decls env s = SOk (s', env') -> tag s' = tag s.
Proof.
  intros H. destruct s; cbn [ssa_stmt] in H.
  - sb H. inversion H. reflexivity.
  - sb H. inversion H. reflexivity.
  - sb H. inversion H. reflexivity.
  - destruct (vn_version v); [discriminate|]. sb H.
    destruct (is_local_in decls v).
    + match type of H with context [next_version ?e ?v] => destruct (next_version e v) end.
      inversion H. reflexivity.
    + inversion H. reflexivity.
  - sb H. sb H. inversion H. reflexivity.
  - sb H. inversion H. reflexivity.
  - sb H. inversion H. reflexivity.
Qed.

Lemma ssa_stmts_tags decls : forall ss env ss' env',
  ssa_stmts decls env ss = SOk (ss', env') -> map tag ss' = map tag ss.
Proof.
  induction ss as [|s tl IH]; intros env ss' env' H; simpl in H.
  - inversion H. reflexivity.
  - destruct (ssa_stmt decls env s) as [[s1 env1]| | |] eqn:E1; cbn [sbind] in H; try discriminate.
    destruct (ssa_stmts decls env1 tl) as [[tl1 env2]| | |] eqn:E2; cbn [sbind] in H; try discriminate.
    inversion H; subst. simpl. f_equal.
    + eapply ssa_stmt_tag. exact E1.
    + eapply IH. exact E2.
Qed.

Lemma ensure_phi_arg_tag env s : tag (ensure_phi_arg env s) = tag s.
Proof.
  destruct s; try reflexivity. simpl. destruct rhe; try reflexivity.
  destruct (cur_version env v).
  - destruct (existsb _ args); reflexivity.
  - destruct (existsb _ args); reflexivity.
Qed.

Lemma update_phis_tags env : forall ss, map tag (update_phis env ss) = map tag ss.
Proof.
  induction ss as [|s tl IH]; simpl; [reflexivity|].
  destruct (is_phi_stmt s); [|reflexivity].
  simpl. rewrite ensure_phi_arg_tag, IH. reflexivity.
Qed.

Lemma update_succ_phis_from env : forall succs bs, from_blocks bs (update_succ_phis env succs bs).
Proof.
  induction succs as [|s tl IH]; intros bs; simpl.
  - apply from_blocks_refl.
  - eapply from_blocks_trans; [|apply IH].
    apply update_nth_step. intros x _. apply from_block_same_tags.
    unfold block_tags. simpl. apply update_phis_tags.
Qed.

Lemma rename_from decls children : forall fuel,
  (forall cur bs env bs' env',
     rename_tree fuel decls children cur bs env = SOk (bs', env') -> from_blocks bs bs').
Proof.
  induction fuel as [|fuel IH]; intros cur bs env bs' env' H.
  - discriminate H.
  - rewrite rename_tree_unfold in H.
    destruct (nth_error bs cur) as [b|] eqn:Eb; [|discriminate].
    destruct (ssa_stmts decls env (b_stmts b)) as [[ss1 env1]| | |] eqn:Es; cbn [sbind] in H; try discriminate.
    assert (K : forall kids l e l' e',
               rename_kids fuel decls children kids l e = SOk (l', e') -> from_blocks l l').
    { induction kids as [|k tl IHk]; intros l e l' e' Hk; simpl in Hk.
      - inversion Hk. apply from_blocks_refl.
      - destruct (rename_tree fuel decls children (N.to_nat k) l (push_scope e)) as [[l1 e1]| | |] eqn:Er;
          cbn [sbind] in Hk; try discriminate.
        eapply from_blocks_trans; [eapply IH; exact Er|eapply IHk; exact Hk]. }
    eapply from_blocks_trans; [|eapply K; exact H].
    eapply from_blocks_trans; [|apply update_succ_phis_from].
    apply update_nth_step. intros x Hx. rewrite Eb in Hx. inversion Hx; subst x.
    apply from_block_same_tags. unfold block_tags. simpl. eapply ssa_stmts_tags. exact Es.
Qed.

Lemma update_decl_stmt_tag env s : tag (update_decl_stmt env s) = tag s.
Proof.
  destruct s; try reflexivity. simpl. destruct names; [reflexivity|]. destruct t; reflexivity.
Qed.

Lemma update_decls_from env : forall bs,
  from_blocks bs (map (fun b => set_stmts b (map (update_decl_stmt env) (b_stmts b))) bs).
Proof.
  induction bs as [|b tl IH]; simpl; constructor; [|exact IH].
  apply from_block_same_tags. unfold block_tags. simpl. rewrite map_map.
  apply map_ext. intros s. apply update_decl_stmt_tag.
Qed.

(* ------------------------------------------------------------------------ *)
(* into_ssa                                                                  *)
(* ------------------------------------------------------------------------ *)

Theorem ssa_blocks_from_input : forall frontier children c c',
  into_ssa frontier children c = SOk c' ->
  Forall2 (fun b b' => exists k,
             map tag (b_stmts b') = repeat (default_meta, KSubst) k ++ map tag (b_stmts b))
          (c_blocks c) (c_blocks c').
Proof.
  intros frontier children c c' H. unfold into_ssa in H.
  destruct (insert_phis _ frontier (c_blocks c) _) as [bs1| | |] eqn:E1; cbn [sbind] in H; try discriminate.
  destruct (rename_tree _ (c_decls c) children 0 bs1 _) as [[bs2 env]| | |] eqn:E2; cbn [sbind] in H; try discriminate.
  inversion H; subst c'. cbn [c_blocks].
  change (from_blocks (c_blocks c) (map (fun b => set_stmts b (map (update_decl_stmt env) (b_stmts b))) bs2)).
  eapply from_blocks_trans; [eapply insert_phis_from; exact E1|].
  eapply from_blocks_trans; [eapply rename_from; exact E2|].
  apply update_decls_from.
Qed.

Lemma from_blocks_metas : forall bs bs', from_blocks bs bs' ->
  forall m, In m (flat_map (fun b => map stmt_meta (b_stmts b)) bs') ->
            In m (flat_map (fun b => map stmt_meta (b_stmts b)) bs) \/ m = default_meta.
Proof.
  intros bs bs' H. induction H as [|b b' tl tl' Hb _ IH]; intros m Hm; simpl in *.
  - contradiction.
  - apply in_app_or in Hm. destruct Hm as [Hm|Hm].
    + destruct Hb as [k Hk]. apply in_map_iff in Hm. destruct Hm as (s' & <- & Hs').
      assert (Ht : In (tag s') (block_tags b')) by (apply in_map; exact Hs').
      rewrite Hk in Ht. apply in_app_or in Ht. destruct Ht as [Ht|Ht].
      * apply repeat_spec in Ht. right. unfold tag, phi_tag in Ht. congruence.
      * left. apply in_or_app. left. apply in_map_iff in Ht. destruct Ht as (s & Hts & Hs).
        apply in_map_iff. exists s. split; [|exact Hs]. unfold tag in Hts. congruence.
    + destruct (IH m Hm) as [Hl|Hr]; [left; apply in_or_app; right; exact Hl|right; exact Hr].
Qed.

(* every statement meta of the SSA form is a statement meta of the input graph
   or `Meta::default()` *)
Theorem ssa_metas_from_input : forall frontier children c c',
  into_ssa frontier children c = SOk c' ->
  forall m, In m (cfg_stmt_metas c') -> In m (cfg_stmt_metas c) \/ m = default_meta.
Proof.
  intros frontier children c c' H. apply from_blocks_metas.
  exact (ssa_blocks_from_input frontier children c c' H).
Qed.

(* ... and conversely no statement of the input loses its location *)
Theorem ssa_keeps_input_metas : forall frontier children c c',
  into_ssa frontier children c = SOk c' ->
  forall m, In m (cfg_stmt_metas c) -> In m (cfg_stmt_metas c').
Proof.
  intros frontier children c c' H.
  pose proof (ssa_blocks_from_input frontier children c c' H) as F. unfold cfg_stmt_metas.
  induction F as [|b b' tl tl' Hb _ IH]; intros m Hm; simpl in *; [contradiction|].
  apply in_app_or in Hm. apply in_or_app. destruct Hm as [Hm|Hm]; [left|right; apply IH; exact Hm].
  destruct Hb as [k Hk]. apply in_map_iff in Hm. destruct Hm as (s & <- & Hs).
  assert (Ht : In (tag s) (map tag (b_stmts b'))).
  { rewrite Hk. apply in_or_app. right. apply in_map. exact Hs. }
  apply in_map_iff in Ht. destruct Ht as (s' & Hts & Hs'). apply in_map_iff. exists s'.
  split; [unfold tag in Hts; congruence|exact Hs'].
Qed.

(* ------------------------------------------------------------------------ *)
(* the SSA step of C04's end-to-end statement, discharged                    *)
(* ------------------------------------------------------------------------ *)

(* Label well-formedness for the constructors applied to statement nodes of the
   SSA form: the provenance hypothesis is asked of the graph BEFORE SSA (the
   output of lifting) only. *)
Theorem labels_wellformed_through_ssa :
  forall (P : N -> N -> Prop) (parsed : list meta) frontier children c c' ctor ls l,
    (forall m, In m parsed -> P (m_start m) (m_end m)) ->
    (forall m, In m (cfg_stmt_metas c) -> In m parsed \/ (m_start m = 0%N /\ m_end m = 0%N)) ->
    into_ssa frontier children c = SOk c' ->
    P 0%N 0%N ->
    (forall m, In m (nodes_of ctor) -> In m (cfg_stmt_metas c')) ->
    (forall r, In r (parser_ranges_of ctor) -> P (fst r) (snd r)) ->
    labels_of (sources_of ctor) = Ok ls -> In l ls -> P (l_start l) (l_end l).
Proof.
  intros P parsed frontier children c c' ctor ls l Hp Hlift Hssa H0 Hn Hr.
  apply (labels_wellformed_end_to_end P parsed (cfg_stmt_metas c') ctor ls l); try assumption.
  intros m Hm. destruct (ssa_metas_from_input frontier children c c' Hssa m Hm) as [Hin| ->].
  - apply Hlift. exact Hin.
  - right. split; reflexivity.
Qed.
