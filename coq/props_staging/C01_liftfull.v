(* C01 (staged; to be merged into props/C01.v by the coordinator): totality of the
   content-carrying lifting mirror Model.LiftFull - try_lift_impl of
   control_flow_graph/lifting.rs with unique_vars.rs and
   intermediate_representation/lifting.rs on the real syntax tree (Model.Ast),
   compared with the real `into_cfg` on every run by the engine `liftfull`
   (stage of ./check C13).

   [definition_wf] is decidable and evaluated on every parsed and desugared
   definition of that engine (coverage key `liftfull.definition_wf_evaluations`,
   0 failures): the body is a block, free of sugar (what C18 proves of the
   desugarer's output: C18_desugar_output_sugar_free), of the shape the desugarer
   hands on (C01_desugar_output_has_desugared_shape, on the syntax tree), and the
   keys handed to Declarations::add_declaration - parameters and declared names
   after the renaming pass - are pairwise different (what C10 proves of its mirror
   of the renaming pass; evaluated here).

   Panic sites covered (line numbers of the mirrored files): lifting.rs 192, 228,
   288, 382; intermediate_representation/lifting.rs 119, 193; declarations.rs 17;
   unique_vars.rs 184; environment.rs add_variable / remove_variable_block asserts.

   To compile this file by hand (it is outside the directories of the Makefile):
     cd /verif/coq && coqc -Q model Model -Q spec Spec -Q proofs Proofs -Q props Props -Q gen Gen \
        -w -notation-overridden props_staging/C01_liftfull.v *)
From Coq Require Import ZArith NArith List Bool String.
Require Import Model.Base.
Require Model.Ast Model.Ir Model.LiftFull Proofs.LiftFullTotal.
Import ListNotations.

Theorem C01_liftfull_never_panics : forall kind params pfile ploc body,
  Model.LiftFull.definition_wf params pfile ploc body = true ->
  (forall site, Model.LiftFull.try_lift_impl kind params pfile ploc body <> Panic site) /\
  Model.LiftFull.try_lift_impl kind params pfile ploc body <> OutOfFuel.
Proof. exact Proofs.LiftFullTotal.liftfull_never_panics'. Qed.
Print Assumptions C01_liftfull_never_panics.

(* the same for the mirror followed by the erasure onto Model.Ir (the function the
   C04 / C08 theorems speak about) *)
Theorem C01_lift_to_ir_never_panics : forall kind params pfile ploc body,
  Model.LiftFull.definition_wf params pfile ploc body = true ->
  (forall site, Model.LiftFull.lift_to_ir kind params pfile ploc body <> Panic site) /\
  Model.LiftFull.lift_to_ir kind params pfile ploc body <> OutOfFuel.
Proof. exact Proofs.LiftFullTotal.lift_to_ir_never_panics. Qed.
Print Assumptions C01_lift_to_ir_never_panics.

(* the hypothesis is satisfiable, and it is needed: the same body with a tuple in
   it is not well-formed and lifting panics at the site of
   `panic!("failed to convert AST expression to IR")`;
   `function f(x) { var y = x; while (y) { y = 1; } return y; }` *)
Local Open Scope string_scope.
Local Open Scope N_scope.
Example C01_liftfull_example :
  let m (a b : N) := Model.Ast.Meta a b (Some 0%N) in
  let v n a b := Model.Ast.Variable_ (m a b) n [] in
  let body rhs := Model.Ast.Block (m 14 60)
    [Model.Ast.InitializationBlock (m 16 26) Model.Ast.VVar
       [Model.Ast.Declaration (m 16 26) Model.Ast.VVar "y" [] false;
        Model.Ast.Substitution (m 16 26) "y" [] Model.Ast.AssignVar (v "x" 24 25)];
     Model.Ast.While (m 27 48) (v "y" 34 35)
       (Model.Ast.Block (m 37 48) [Model.Ast.Substitution (m 39 45) "y" [] Model.Ast.AssignVar rhs]);
     Model.Ast.Return (m 49 58) (v "y" 56 57)] in
  let good := body (Model.Ast.Number (m 43 44) 1) in
  let bad := body (Model.Ast.Tuple (m 43 44) []) in
  Model.LiftFull.definition_wf ["x"] (Some 0%N) (11, 12)%N good = true /\
  is_ok (Model.LiftFull.try_lift_impl Model.Ir.KFunction ["x"] (Some 0%N) (11, 12)%N good) = true /\
  Model.LiftFull.definition_wf ["x"] (Some 0%N) (11, 12)%N bad = false /\
  Model.LiftFull.try_lift_impl Model.Ir.KFunction ["x"] (Some 0%N) (11, 12)%N bad
    = Panic Model.LiftFull.site_expr_not_liftable.
Proof. vm_compute. repeat split; reflexivity. Qed.
