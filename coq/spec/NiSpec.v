(* Specification side of C09: an abstract labelled transition system with
   named cells, its observable events, perturbation of one name, and what it
   means for a taint relation / sink set to cover a program.

   A program maps program points to instructions.  Every instruction says which
   names it reads; what it computes may depend on the history of program points
   visited so far (this is what lets a phi node "read the most recently written
   of its arguments") and on the store, and an *observable* instruction emits as
   its event the values of everything it reads (the strongest possible notion of
   event: any other event computed from what the instruction reads is a function
   of it), its result and, for a branch, the decision.

   Nothing here mentions the analysis. *)
From Coq Require Import List Bool Relations.
Import ListNotations.

Section NI.
  Variables (N V P : Type).                 (* names, values, program points *)
  Variable N_eq_dec : forall a b : N, {a = b} + {a <> b}.

  Definition store := N -> V.
  Definition hist := list P.
  Definition upd (s : store) (x : N) (v : V) : store :=
    fun y => if N_eq_dec y x then v else s y.

  Inductive instr :=
  | IAssign (x : N) (reads : list N) (f : hist -> store -> V) (obs : bool) (next : P)
  | IBranch (reads : list N) (c : hist -> store -> bool) (pt pf : P)
  | IEmit (reads : list N) (obs : bool) (next : P)       (* obs = false: a silent step *)
  | IHalt.

  Definition prog := P -> instr.

  (* an event: where, the values read, the value written (assignments), the decision (branches) *)
  Record event := Ev { e_pc : P; e_vals : list V; e_res : option V; e_dec : option bool }.

  Definition state := (hist * P * store)%type.

  Definition step (pr : prog) (st : state) : option (list event * state) :=
    let '(h, pc, s) := st in
    match pr pc with
    | IAssign x rs f obs nx =>
      let v := f h s in
      Some (if obs then [Ev pc (map s rs) (Some v) None] else [], (pc :: h, nx, upd s x v))
    | IBranch rs c pt pf =>
      let b := c h s in
      Some ([Ev pc (map s rs) None (Some b)], (pc :: h, if b then pt else pf, s))
    | IEmit rs obs nx =>
      Some (if obs then [Ev pc (map s rs) None None] else [], (pc :: h, nx, s))
    | IHalt => None
    end.

  (* the events of the first n steps: "any execution" = every n *)
  Fixpoint run (pr : prog) (n : nat) (st : state) : list event :=
    match n with
    | O => []
    | S n' => match step pr st with
              | None => []
              | Some (es, st') => es ++ run pr n' st'
              end
    end.

  (* what an instruction computes depends on the store only through the names it reads *)
  Definition agree_on (rs : list N) (s s' : store) : Prop := forall r, In r rs -> s r = s' r.
  Definition wf (pr : prog) : Prop :=
    forall pc,
      match pr pc with
      | IAssign _ rs f _ _ => forall h s s', agree_on rs s s' -> f h s = f h s'
      | IBranch rs c _ _ => forall h s s', agree_on rs s s' -> c h s = c h s'
      | _ => True
      end.

  (* [pr'] is [pr] with the value assigned to [x] replaced (by anything, at every assignment to x) *)
  Definition perturbed (x : N) (pr pr' : prog) : Prop :=
    forall pc, pr' pc = pr pc \/
      exists rs f f' obs nx, pr pc = IAssign x rs f obs nx /\ pr' pc = IAssign x rs f' obs nx.

  (* read -> written *)
  Definition data_edge (pr : prog) (r x : N) : Prop :=
    exists pc rs f obs nx, pr pc = IAssign x rs f obs nx /\ In r rs.

  (* names whose value is observed: reads of branches and of observable emits, and the target
     of an observable assignment (what such an assignment reads reaches its target by a data edge) *)
  Definition required_sink (pr : prog) (s : N) : Prop :=
    (exists pc rs c pt pf, pr pc = IBranch rs c pt pf /\ In s rs) \/
    (exists pc rs nx, pr pc = IEmit rs true nx /\ In s rs) \/
    (exists pc rs f nx, pr pc = IAssign s rs f true nx).

  (* the names from which a sink is reachable in the taint relation *)
  Definition Rel (T : N -> N -> Prop) (S : N -> Prop) (x : N) : Prop :=
    exists s, S s /\ clos_refl_trans N T x s.

  (* the full statement of non-interference for one name *)
  Definition noninterference (pr : prog) (x : N) : Prop :=
    forall pr', perturbed x pr pr' ->
    forall s s', (forall y, y <> x -> s y = s' y) ->
    forall h pc n, run pr n (h, pc, s) = run pr' n (h, pc, s').
End NI.

Arguments IAssign {N V P} x reads f obs next.
Arguments IBranch {N V P} reads c pt pf.
Arguments IEmit {N V P} reads obs next.
Arguments IHalt {N V P}.
Arguments Ev {V P} e_pc e_vals e_res e_dec.
