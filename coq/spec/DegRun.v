(* CONCRETE EXECUTIONS of an annotated SSA graph for ONE valuation of the
   indeterminates (C07, third audit: Spec.DegSem is a lock-step relation over
   families; this file is the per-valuation semantics it is meant to
   over-approximate, Proofs.DegRunProofs relates the two).

   A cell holds numbers: a scalar, or for an array the element at every position
   ([cell] = index list -> Z; a scalar ignores the index; an element never assigned
   is 0).  The store of a run holds
     - from the start: the value the valuation gives to every signal and component
       port (they are indeterminates: an assignment `s <== e` does not change
       them - the degree of an expression is its degree IN the signals), the
       parameters, zeros for locals that no statement assigns;
     - a local once an assignment to it has been executed.
   Nothing here mentions valuations: a valuation enters through the initial store
   only.  Expressions are evaluated with total operators [sem2]/[sem1] (the same
   parameters as Spec.DegSem; Props.C07 instantiates them with operators that
   satisfy Spec.PolyDeg.op_den), functions are functions of their arguments; an
   expression has NO value only if it reads a cell that is not in the store or
   contains a phi below the top of a statement: a run stops there ([None]) - C14
   proves that on the paths of the graphs SSA conversion produces every read is of
   the version assigned last on the path.

   A run follows a PATH of blocks from its first block.  On entering a block the
   leading phis copy the argument that carries the running version of their
   variable (the version assigned last on the path: the version map of
   Spec.SsaSpec / Model.SsaCheck.track, as in Spec.SsaRun for C06); then the other
   statements execute in order; then the path must continue with the block the
   branch condition selects ([branch_okb]: a successor of the block; the true target
   if the condition's value is not 0, the false target otherwise; the only successor
   when the block does not end with a condition; control is deterministic).
   Definitions only; everything is executable. *)
From Coq Require Import ZArith NArith List Bool.
Require Import Model.Base Model.Ir Model.SsaCheck Model.Propagate Model.Justify Model.DegJustify.
Import ListNotations.
Local Open Scope Z_scope.

Section DegRun.
Variable p : Z.
Variable sem2 : infix_op -> Z -> Z -> Z.
Variable sem1 : prefix_op -> Z -> Z.
Variable call_sem : ident -> list Z -> Z.
Variable name_code : ident -> Z.

Definition cell := list Z -> Z.
Definition cstore := vname -> option cell.

Definition cupd (s : cstore) (x : vname) (v : option cell) : cstore :=
  fun y => if vname_eqb x y then v else s y.

(* i = a ++ rest *)
Fixpoint cprefix_of (a i : list Z) : option (list Z) :=
  match a, i with
  | [], _ => Some i
  | x :: ta, y :: ti => if x =? y then cprefix_of ta ti else None
  | _ :: _, [] => None
  end.

Definition array_cell (vs : list cell) : cell :=
  fun i =>
    match i with
    | [] => 0
    | j :: rest => if j <? 0 then 0 else match nth_error vs (Z.to_nat j) with Some v => v rest | None => 0 end
    end.

Definition access_cell (A : cell) (idx : list Z) : cell := fun i => A (idx ++ i).

Definition update_cell (A : cell) (idx : list Z) (R : cell) : cell :=
  fun i => match cprefix_of idx i with Some rest => R rest | None => A i end.

Fixpoint cval (s : cstore) (e : expr) {struct e} : option cell :=
  let fix cval_list (es : list expr) : option (list cell) :=
      match es with
      | [] => Some []
      | x :: tl => match cval s x, cval_list tl with
                   | Some v, Some vs => Some (v :: vs)
                   | _, _ => None
                   end
      end in
  let fix cval_acc (acc : list (access expr)) : option (list Z) :=
      match acc with
      | [] => Some []
      | AIdx x :: tl => match cval s x, cval_acc tl with
                        | Some v, Some idx => Some (v [] :: idx)
                        | _, _ => None
                        end
      | AComp n :: tl => match cval_acc tl with
                         | Some idx => Some (name_code n :: idx)
                         | None => None
                         end
      end in
  match e with
  | ENum z _ => Some (fun _ => z mod p)
  | EVar v _ => s v
  | EInfix op l r _ =>
    match cval s l, cval s r with
    | Some a, Some b => Some (fun i => sem2 op (a i) (b i))
    | _, _ => None
    end
  | EPrefix op x _ =>
    match cval s x with Some a => Some (fun i => sem1 op (a i)) | None => None end
  | ESwitch c t f _ =>
    match cval s c, cval s t, cval s f with
    | Some vc, Some vt, Some vf => Some (fun i => if vc [] =? 0 then vf i else vt i)
    | _, _, _ => None
    end
  | ECall n args _ =>
    match cval_list args with
    | Some vs => Some (fun _ => call_sem n (map (fun v : cell => v []) vs))
    | None => None
    end
  | EArray vs _ =>
    match cval_list vs with Some cs => Some (array_cell cs) | None => None end
  | EAccess v acc _ =>
    match s v, cval_acc acc with
    | Some A, Some idx => Some (access_cell A idx)
    | _, _ => None
    end
  | EUpdate v acc rhe _ =>
    match s v, cval_acc acc, cval s rhe with
    | Some A, Some idx, Some R => Some (update_cell A idx R)
    | _, _, _ => None
    end
  | EPhi _ _ => None
  end.

(* the cells a run assigns: declared locals that are not parameters *)
Definition stores_local (c : cfg) (x : vname) : bool :=
  match decl_of c x with Some TLocal => true | _ => false end && negb (is_param c x).

(* a statement other than a leading phi *)
Definition cexec_stmt (c : cfg) (s : cstore) (st : stmt) : option cstore :=
  match st with
  | SSubst _ x _ rhe _ _ =>
    if stores_local c x then
      match cval s rhe with Some v => Some (cupd s x (Some v)) | None => None end
    else Some s
  | _ => Some s
  end.

Fixpoint cexec_body (c : cfg) (s : cstore) (ss : list stmt) : option cstore :=
  match ss with
  | [] => Some s
  | st :: tl => match cexec_stmt c s st with Some s1 => cexec_body c s1 tl | None => None end
  end.

(* the argument of a phi that carries version n of the variable of x *)
Definition phi_arg (x : vname) (n : N) (args : list vname) : option vname :=
  find (fun a => key_eqb (key_of a) (key_of x) && opt_eqb N.eqb (vn_version a) (Some n)) args.

(* a leading phi, on entering the block with the running version map L *)
Definition cexec_phi (c : cfg) (L : vmap) (s : cstore) (st : stmt) : option cstore :=
  match st with
  | SSubst _ x _ (EPhi args _) _ _ =>
    if stores_local c x then
      match vget L (key_of x) with
      | Some n =>
        match phi_arg x n args with
        | Some a => match s a with Some v => Some (cupd s x (Some v)) | None => None end
        | None => None
        end
      | None => None
      end
    else Some s
  | _ => Some s
  end.

Fixpoint cexec_phis (c : cfg) (L : vmap) (s : cstore) (phis : list stmt) : option cstore :=
  match phis with
  | [] => Some s
  | st :: tl => match cexec_phi c L s st with Some s1 => cexec_phis c L s1 tl | None => None end
  end.

(* the running version map after the block (a function of the path alone) *)
Definition block_vmap (L : vmap) (b : block) : vmap :=
  let '(phis, body) := leading_phis (b_stmts b) in fold_left track body (apply_phis L phis).

Definition cexec_block (c : cfg) (L : vmap) (s : cstore) (b : block) : option cstore :=
  let '(phis, body) := leading_phis (b_stmts b) in
  match cexec_phis c L s phis with
  | Some s1 => cexec_body c s1 body
  | None => None
  end.

(* the path continues with a successor of the block, and with the one the branch condition
   selects: the true target if the value of the condition is not 0, otherwise the false
   target (the other of the two successors when the statement names none); a run whose condition has
   no value stops; a block that does not end with a condition has one successor *)
Definition branch_okb (s : cstore) (b : block) (next : nat) : bool :=
  let j := N.of_nat next in
  existsb (N.eqb j) (b_succs b) &&
  match last (b_stmts b) (SLog {| m_start := 0%N; m_end := 0%N; m_file := None |} []) with
  | SIf _ cond t f =>
    match cval s cond with
    | Some v =>
      if v [] =? 0
      then match f with
           | Some fi => N.eqb fi j
           | None => match b_succs b with [x; y] => N.eqb j (if N.eqb t x then y else x) | _ => false end
           end
      else N.eqb t j
    | None => false
    end
  | _ => match b_succs b with [_] => true | _ => false end
  end.

Fixpoint cexec_path (c : cfg) (L : vmap) (s : cstore) (pi : list nat) : option cstore :=
  match pi with
  | [] => Some s
  | i :: tl =>
    match nth_error (c_blocks c) i with
    | None => None
    | Some b =>
      match cexec_block c L s b with
      | None => None
      | Some s1 =>
        if match tl with [] => true | j :: _ => branch_okb s1 b j end
        then cexec_path c (block_vmap L b) s1 tl
        else None
      end
    end
  end.
End DegRun.
