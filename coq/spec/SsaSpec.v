(* What C14 asks of an SSA graph, stated dynamically: walk any path from the
   entry block, keep for every variable (key = name and suffix) the version
   most recently assigned on that path; then
     - along the edge just taken, the version a phi reads (the running version
       of its variable) is one of its arguments (or no version is running),
     - every read of a versioned local names exactly the running version.
   [exec_path] returns the running map at the end of the path, or None as soon
   as a read disagrees. *)
From Coq Require Import ZArith NArith List Bool.
Require Import Model.Base Model.Ir Model.SsaCheck.
Import ListNotations.

Definition phi_read_ok (L : vmap) (s : stmt) : bool :=
  match phi_parts s with
  | Some (x, args) => phi_arg_ok (vget L (key_of x)) x args
  | None => false
  end.

Definition enter_block (L : vmap) (b : block) : option vmap :=
  let '(phis, body) := leading_phis (b_stmts b) in
  if forallb (phi_read_ok L) phis then body_run (apply_phis L phis) body else None.

Fixpoint exec_path (c : cfg) (L : vmap) (pi : list nat) : option vmap :=
  match pi with
  | [] => Some L
  | i :: tl =>
    match nth_error (c_blocks c) i with
    | None => None
    | Some b => match enter_block L b with
                | Some L' => exec_path c L' tl
                | None => None
                end
    end
  end.

(* consecutive blocks are joined by an edge of the graph *)
Fixpoint is_walk (c : cfg) (p : nat) (pi : list nat) : Prop :=
  match pi with
  | [] => True
  | s :: tl =>
    (exists b, nth_error (c_blocks c) p = Some b /\ In (N.of_nat s) (b_succs b)) /\ is_walk c s tl
  end.

Definition path_from_entry (c : cfg) (pi : list nat) : Prop :=
  match pi with
  | 0%nat :: tl => is_walk c 0 tl
  | _ => False
  end.
