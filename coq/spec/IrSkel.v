(* The skeleton of a graph with statements (Model.Ir.cfg), as Spec.CfgSpec reads
   graphs: what is left of an IR statement is its kind (branch with its targets, or
   leaf) and the identity [key] of its location; the phi assignments at the head of
   a block - which only the SSA conversion writes and which stand for no statement
   of the source - are left out.  With this view every clause of C12 stated on
   skeleton graphs (props/C12.v, about Model.Lift.lift) can be read on the graph
   after into_cfg and after into_ssa.  Definitions only. *)
From Coq Require Import NArith List.
Require Model.Lift Model.Ir.
Import ListNotations.

Definition is_phi_b (s : Ir.stmt) : bool :=
  match s with Ir.SSubst _ _ _ (Ir.EPhi _ _) _ _ => true | _ => false end.

Fixpoint drop_phis (ss : list Ir.stmt) : list Ir.stmt :=
  match ss with
  | s :: tl => if is_phi_b s then drop_phis tl else ss
  | [] => []
  end.

Section Skeleton.
  Context (key : Ir.meta -> nat).

  Definition ir_item (s : Ir.stmt) : Lift.item :=
    match s with
    | Ir.SIf m _ t f => Lift.IBranch (key m) (N.to_nat t) (option_map N.to_nat f)
    | Ir.SDecl m _ _ _ | Ir.SRet m _ | Ir.SSubst m _ _ _ _ _ | Ir.SCeq m _ _ | Ir.SLog m _ | Ir.SAssert m _ =>
        Lift.ILeaf (key m)
    end.

  Definition ir_skel_block (b : Ir.block) : Lift.block :=
    Lift.Block (N.to_nat (Ir.b_index b)) (N.to_nat (Ir.b_depth b))
               (map ir_item (drop_phis (Ir.b_stmts b)))
               (map N.to_nat (Ir.b_preds b)) (map N.to_nat (Ir.b_succs b)).

  Definition ir_skel (c : Ir.cfg) : list Lift.block := map ir_skel_block (Ir.c_blocks c).
End Skeleton.
