(* Specification side of property C11, independent of the Rust sources:
   the documented template/curve table (Gen.DocTable, regenerated from
   doc/analysis_passes.md) read with Circomlib's spelling of the names, the
   documented scalar fields, and ASCII case-insensitive matching of the
   documented curve names. *)
From Coq Require Import ZArith List Bool String Ascii NArith.
Require Import Model.Curves.
Require Import Gen.DocTable.
Import ListNotations.
Local Open Scope Z_scope.

(* The scalar fields Circom documents for its three primes. *)
Definition doc_prime (c : curve) : Z :=
  match c with
  | Bn254 => 0x30644e72e131a029b85045b68181585d2833e84879b9709143e1f593f0000001
  | Bls12_381 => 0x73eda753299d7d483339d80809a1d80553bda402fffe5bfeffffffff00000001
  | Goldilocks => 2 ^ 64 - 2 ^ 32 + 1
  end.

Definition bit_size (p : Z) : Z := Z.log2 p + 1.

(* The documentation prints two names differently from Circomlib, whose
   circuits/pointbits.circom defines Bits2Point_Strict and Point2Bits_Strict. *)
Definition circomlib_spelling (doc_name : string) : string :=
  if String.eqb doc_name "Bits2Point_strict" then "Bits2Point_Strict"
  else if String.eqb doc_name "Point2Bits_strict" then "Point2Bits_Strict"
  else doc_name.

(* position of the curve's column in the documentation table, if it has one *)
Fixpoint index_of (s : string) (l : list string) : option nat :=
  match l with
  | [] => None
  | x :: r => if String.eqb s x then Some O
              else match index_of s r with Some n => Some (S n) | None => None end
  end.

(* the documentation marks (template, curve): some row carries Circomlib's
   template [name] and an x in the curve's column; BN254 has no column *)
Definition doc_marks (c : curve) (name : string) : bool :=
  match index_of (variant_name c) doc_columns with
  | None => false
  | Some col =>
    existsb (fun row => String.eqb (circomlib_spelling (fst row)) name && nth col (snd row) false) doc_table
  end.

(* the bit size the documentation attributes to the curve's prime *)
Definition doc_bits (c : curve) : option Z :=
  match index_of (variant_name c) doc_columns with
  | Some col => nth_error doc_column_bits col
  | None => match c with Bn254 => Some doc_default_bits | _ => None end
  end.

(* every k-bit value is non-negative in the field: 2^k - 1 <= p/2 *)
Definition kbit_values_nonnegative (c : curve) (k : Z) : Prop := 2 ^ k - 1 <= doc_prime c / 2.

(* the documented curve names (CLI help) *)
Definition curve_doc_name (c : curve) : string :=
  match c with Bn254 => "BN254" | Bls12_381 => "BLS12_381" | Goldilocks => "GOLDILOCKS" end.

(* ASCII letters that differ only in case *)
Definition is_lower (a : ascii) : bool := (97 <=? N_of_ascii a)%N && (N_of_ascii a <=? 122)%N.
Definition is_upper (a : ascii) : bool := (65 <=? N_of_ascii a)%N && (N_of_ascii a <=? 90)%N.
Definition same_letter (a b : ascii) : bool :=
  Ascii.eqb a b
  || (is_lower a && (N_of_ascii b + 32 =? N_of_ascii a)%N)
  || (is_upper a && (N_of_ascii a + 32 =? N_of_ascii b)%N).

Fixpoint same_ignoring_case (s t : string) : bool :=
  match s, t with
  | EmptyString, EmptyString => true
  | String a s', String b t' => same_letter a b && same_ignoring_case s' t'
  | _, _ => false
  end.

(* The items of the four Rust sources the tables are read from, and the
   per-file inventories: the strict reader (lib/props/c11shape.py) must report
   exactly these, each matched completely (Gen.CurveTables.source_shape). *)
Definition anchored_items : list string := [
  "bn254::inventory"; "bn254::find_bn254_specific_circuits"; "bn254::visit_statement";
  "bn254::const#0"; "bn254::const#1";
  "nonstrict::inventory"; "nonstrict::find_nonstrict_binary_conversion"; "nonstrict::visit_statement";
  "lessthan::inventory"; "lessthan::find_unconstrained_less_than"; "lessthan::update_components";
  "lessthan::update_inputs"; "lessthan::VariableAccess"; "lessthan::VariableAccess::new";
  "lessthan::Component"; "lessthan::Component::less_than"; "lessthan::Component::num_2_bits";
  "lessthan::ComponentInput"; "lessthan::ComponentInput::less_than"; "lessthan::ComponentInput::num_2_bits";
  "lessthan::ConstraintData";
  "constants::inventory"; "constants::Curve"; "constants::Curve::prime"; "constants::Curve::from_str";
  "constants::UsefulConstants"; "constants::UsefulConstants::new"; "constants::UsefulConstants::curve";
  "constants::UsefulConstants::prime"; "constants::UsefulConstants::prime_size";
  (* second audit: where the default of `--curve` comes from *)
  "cli::Cli::curve"; "config::DEFAULT_CURVE"
]%string.
