(* The semantic notion of degree used by C07: a function of the signal
   valuation has degree <= n when, along every line rho + t*delta of valuation
   space, its (n+1)-th forward difference vanishes modulo p.  For p > n this is
   "polynomial of total degree <= n", and it is exactly the observable the
   property names.  Valuations are an arbitrary type with an affine-line
   structure; nothing else about them is used. *)
From Coq Require Import ZArith.
Require Import Model.Ir.
Local Open Scope Z_scope.

(* forward difference of a function of one integer variable *)
Definition Dd (f : Z -> Z) : Z -> Z := fun t => f (t + 1) - f t.
Fixpoint Dn (n : nat) (f : Z -> Z) : Z -> Z :=
  match n with O => f | S k => Dn k (Dd f) end.

(* the k-th difference vanishes modulo p: degree < k *)
Definition zero_after (p : Z) (k : nat) (f : Z -> Z) : Prop := forall t, (Dn k f t) mod p = 0.

Section Val.
Variable V : Type.                       (* valuations of the indeterminates *)
Variable line : V -> V -> Z -> V.        (* line rho delta t = rho + t * delta *)
Variable p : Z.

Definition Deg (n : nat) (F : V -> Z) : Prop :=
  forall rho delta, zero_after p (S n) (fun t => F (line rho delta t)).

Definition Constant (F : V -> Z) : Prop := forall rho rho', F rho = F rho'.

(* meaning of a Degree claimed as an upper bound *)
Definition SemDeg (d : degree) (F : V -> Z) : Prop :=
  match d with
  | DConst => Constant F
  | DLin => Deg 1 F
  | DQuad => Deg 2 F
  | DNonQuad => True
  end.
End Val.

(* what the composition of bounds must be at least, per operator (hand-written
   specification, independent of degree_meta.rs): constants are neutral for
   every operator; degrees add under `*`, take the maximum under `+` and `-`,
   are kept by division by a constant; everything else is only known to be
   constant on constants *)
Definition deg_rank (d : degree) : nat :=
  match d with DConst => 0 | DLin => 1 | DQuad => 2 | DNonQuad => 3 end.
Definition deg_of_rank (n : nat) : degree :=
  match n with O => DConst | 1%nat => DLin | 2%nat => DQuad | _ => DNonQuad end.
Definition deg_leb (a b : degree) : bool := Nat.leb (deg_rank a) (deg_rank b).

Definition sound_deg (op : infix_op) (a b : degree) : degree :=
  match op with
  | IAdd | ISub => deg_of_rank (Nat.max (deg_rank a) (deg_rank b))
  | IMul =>
    match a, b with
    | DNonQuad, _ | _, DNonQuad => DNonQuad
    | _, _ => deg_of_rank (deg_rank a + deg_rank b)
    end
  | IDiv => match b with DConst => a | _ => DNonQuad end
  | _ => match a, b with DConst, DConst => DConst | _, _ => DNonQuad end
  end.

Definition sound_deg_prefix (op : prefix_op) (a : degree) : degree :=
  match op with
  | PNeg => a
  | _ => match a with DConst => DConst | _ => DNonQuad end
  end.
