(* Concrete executions of an SSA graph along a path (C06 o C14): the running
   version map of Spec.SsaSpec decides which argument a phi copies - the one
   whose version arrives along the edge just taken -, assignments store the
   value of their right-hand side (or make the cell opaque when it has no
   scalar value).  A phi reached along an edge that carries no version of its
   variable (the known finding C06-phi-missing-default) has no rule here. *)
From Coq Require Import ZArith NArith List Bool.
Require Import Model.Base Model.Ir Model.SsaCheck Spec.SsaSpec Spec.ValueSem.
Import ListNotations.

Inductive run_phis (L : vmap) : store -> list stmt -> store -> Prop :=
| rp_nil s : run_phis L s [] s
| rp_cons s m x op args k sv st a n tl s' :
    vget L (key_of x) = Some n ->
    In a args -> key_of a = key_of x -> vn_version a = Some n ->
    run_phis L (upd s x (s a)) tl s' ->
    run_phis L s (SSubst m x op (EPhi args k) sv st :: tl) s'.

Inductive run_stmt (p : Z) : store -> stmt -> store -> Prop :=
| rs_value m x op rhe sv st v s :
    is_phi rhe = false -> evalR p s rhe v -> run_stmt p s (SSubst m x op rhe sv st) (upd s x (Some v))
| rs_opaque m x op rhe sv st s :
    is_phi rhe = false -> (forall v, ~ evalR p s rhe v) -> run_stmt p s (SSubst m x op rhe sv st) (upd s x None)
| rs_other s st : (forall m x op rhe sv t, st <> SSubst m x op rhe sv t) -> run_stmt p s st s.

Inductive run_body (p : Z) : store -> list stmt -> store -> Prop :=
| rb_nil s : run_body p s [] s
| rb_cons s st s1 tl s2 : run_stmt p s st s1 -> run_body p s1 tl s2 -> run_body p s (st :: tl) s2.

(* along a path: the version map is the one of Spec.SsaSpec.enter_block *)
Inductive run_path (c : cfg) (p : Z) : vmap -> store -> list nat -> store -> Prop :=
| rpa_nil L s : run_path c p L s [] s
| rpa_cons L s i b phis body L' s1 s2 tl s3 :
    nth_error (c_blocks c) i = Some b -> leading_phis (b_stmts b) = (phis, body) ->
    enter_block L b = Some L' ->
    run_phis L s phis s1 -> run_body p s1 body s2 ->
    run_path c p L' s2 tl s3 ->
    run_path c p L s (i :: tl) s3.
