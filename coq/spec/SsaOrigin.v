(* "Each read sees the same assignment as in the original program" (C14), stated
   dynamically.  Walk a path through the graph.
   SOURCE side (the graph before SSA conversion): [src_path] keeps, for every
   variable, the position (block, statement index) of the assignment to it that
   was executed last on the path.
   SSA side: [org_path] keeps the running version of every variable (as
   Spec.SsaSpec.exec_path does) and, for every version, its ORIGIN: a body
   statement `x.n = e` at position q gives x.n the origin q; a phi statement
   `x.n = phi(..)` copies the origin of the version of x that arrives (the running
   version at that moment, which SsaSpec.phi_read_ok requires to be one of the
   arguments), or no origin when no version arrives.  Positions in an SSA block are
   counted behind its leading phi statements, so that they are positions of the
   original block.
   Proofs.SsaEraseProofs: on a graph accepted by ssa_check and erase_check, for every
   path and every read, the origin of the version the read names is the position
   of the source assignment that reaches the read in the original program. *)
From Coq Require Import ZArith NArith List Bool.
Require Import Model.Base Model.Ir Model.SsaCheck Model.SsaErase.
Import ListNotations.

Definition pos := (nat * nat)%type.
Definition smap := key -> option pos.
Definition omap := key -> N -> option pos.
Definition sset (S : smap) (k : key) (q : pos) : smap := fun k' => if key_eqb k k' then Some q else S k'.
Definition oset (O : omap) (k : key) (n : N) (v : option pos) : omap :=
  fun k' n' => if key_eqb k k' && N.eqb n n' then v else O k' n'.
Definition S0 : smap := fun _ => None.
Definition O0 : omap := fun _ _ => None.

(* ---- source side ---- *)
Definition src_stmt (q : pos) (S : smap) (s : stmt) : smap :=
  match assigns s with Some x => sset S (key_of x) q | None => S end.
Fixpoint src_body (i k : nat) (S : smap) (ss : list stmt) : smap :=
  match ss with
  | [] => S
  | s :: tl => src_body i (Datatypes.S k) (src_stmt (i, k) S s) tl
  end.
Fixpoint src_path (g : cfg) (S : smap) (pi : list nat) : smap :=
  match pi with
  | [] => S
  | i :: tl => match nth_error (c_blocks g) i with
               | Some b => src_path g (src_body i 0 S (b_stmts b)) tl
               | None => S
               end
  end.

(* ---- SSA side ---- *)
Definition ostate := (vmap * omap)%type.
Definition org_phi (st : ostate) (s : stmt) : ostate :=
  (track (fst st) s,
   match phi_parts s with
   | Some (x, _) =>
     match vn_version x with
     | Some n => oset (snd st) (key_of x) n
                      (match vget (fst st) (key_of x) with Some m => snd st (key_of x) m | None => None end)
     | None => snd st
     end
   | None => snd st
   end).
Definition org_stmt (q : pos) (st : ostate) (s : stmt) : ostate :=
  (track (fst st) s,
   match stmt_def s with
   | Some x => match vn_version x with Some n => oset (snd st) (key_of x) n (Some q) | None => snd st end
   | None => snd st
   end).
Fixpoint org_body (i k : nat) (st : ostate) (ss : list stmt) : ostate :=
  match ss with
  | [] => st
  | s :: tl => org_body i (Datatypes.S k) (org_stmt (i, k) st s) tl
  end.
Definition org_block (i : nat) (st : ostate) (b : block) : ostate :=
  org_body i 0 (fold_left org_phi (fst (leading_phis (b_stmts b))) st) (body_of b).
Fixpoint org_path (c : cfg) (st : ostate) (pi : list nat) : ostate :=
  match pi with
  | [] => st
  | i :: tl => match nth_error (c_blocks c) i with
               | Some b => org_path c (org_block i st b) tl
               | None => st
               end
  end.

(* the states in front of the k-th body statement of block bi, after the path pi *)
Definition src_at (g : cfg) (pi : list nat) (bi k : nat) : smap :=
  match nth_error (c_blocks g) bi with
  | Some b => src_body bi 0 (src_path g S0 pi) (firstn k (b_stmts b))
  | None => src_path g S0 pi
  end.
Definition org_at (c : cfg) (pi : list nat) (bi k : nat) : ostate :=
  let st := org_path c (params_map (c_params c), O0) pi in
  match nth_error (c_blocks c) bi with
  | Some b => org_body bi 0 (fold_left org_phi (fst (leading_phis (b_stmts b))) st) (firstn k (body_of b))
  | None => st
  end.
