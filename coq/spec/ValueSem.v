(* Execution semantics against which value claims are judged (C06, C20).
   Scalars are canonical field elements; arrays, calls and component ports are
   opaque (they have no scalar value, and no claim is ever made about them).
   Operators follow Spec.FieldSpec (Circom's documented semantics); a run-time
   error (division by zero) means the expression has no value.

   A state is a partial store of scalar cells.  The step relation
   over-approximates every execution of the SSA graph: any assignment
   statement of the graph may fire whenever its right-hand side evaluates, and
   a phi may copy any of its arguments that is defined.  Real executions are
   such step sequences provided reads see defined cells (SSA validity, C14);
   the one exception - a phi reached along an edge that carries no version of
   its variable reads Circom's default 0 - is the known finding
   C06-phi-missing-default and is outside this relation. *)
From Coq Require Import ZArith List Bool.
Require Import Model.Base Model.Field Model.Ir Model.Propagate Model.Justify Spec.FieldSpec.
Import ListNotations.
Local Open Scope Z_scope.

Definition store := vname -> option Z.

Definition upd (s : store) (x : vname) (v : option Z) : store :=
  fun y => if vname_eqb x y then v else s y.

Definition fop_of_infix (op : infix_op) : fop :=
  match op with
  | IMul => OMul | IDiv => ODiv | IAdd => OAdd | ISub => OSub | IPow => OPow
  | IIntDiv => OIDiv | IMod => OMod | IShl => OShl | IShr => OShr
  | ILe => OLe | IGe => OGe | ILt => OLt | IGt => OGt | IEq => OEq | INeq => ONeq
  | IOr => OOr | IAnd => OAnd | IBor => OBor | IBand => OBand | IBxor => OBxor
  end.

Definition fop_of_prefix (op : prefix_op) : fop :=
  match op with PNot => ONot | PNeg => ONeg | PCompl => OCompl end.

(* value of `a op b`; division is specified relationally *)
Definition sem_infix (op : infix_op) (a b p v : Z) : Prop :=
  match op with
  | IDiv => b <> 0 /\ 0 <= v < p /\ (v * b) mod p = a
  | _ => spec (fop_of_infix op) a b p = Ok v
  end.

Definition sem_prefix (op : prefix_op) (a p v : Z) : Prop :=
  spec (fop_of_prefix op) a 0 p = Ok v.

Inductive evalR (p : Z) (s : store) : expr -> Z -> Prop :=
| ev_num z k : evalR p s (ENum z k) (z mod p)
| ev_var x k v : s x = Some v -> evalR p s (EVar x k) v
| ev_infix op l r k a b v :
    evalR p s l a -> evalR p s r b -> sem_infix op a b p v -> evalR p s (EInfix op l r k) v
| ev_prefix op e k a v :
    evalR p s e a -> sem_prefix op a p v -> evalR p s (EPrefix op e k) v
| ev_switch_true c t f k vc v :
    evalR p s c vc -> vc <> 0 -> evalR p s t v -> evalR p s (ESwitch c t f k) v
| ev_switch_false c t f k v :
    evalR p s c 0 -> evalR p s f v -> evalR p s (ESwitch c t f k) v.

(* a claim is true of a value *)
Definition claim_ok (c : vred) (v : Z) : Prop :=
  match c with VField z => v = z | VBool b => v = b2z b end.

Definition is_phi (e : expr) : bool := match e with EPhi _ _ => true | _ => false end.

Inductive step (ss : list stmt) (p : Z) : store -> store -> Prop :=
| step_assign m x op rhe sv st v s :
    In (SSubst m x op rhe sv st) ss -> is_phi rhe = false -> evalR p s rhe v ->
    step ss p s (upd s x (Some v))
| step_phi m x op args k sv st a v s :
    In (SSubst m x op (EPhi args k) sv st) ss -> In a args -> s a = Some v ->
    step ss p s (upd s x (Some v))
| step_phi_opaque m x op args k sv st a s :
    (* the copied argument is itself opaque *)
    In (SSubst m x op (EPhi args k) sv st) ss -> In a args -> s a = None ->
    step ss p s (upd s x None)
| step_opaque m x op rhe sv st s :
    (* the right-hand side has no scalar value (array, call, component): the cell becomes opaque *)
    In (SSubst m x op rhe sv st) ss -> is_phi rhe = false -> (forall v, ~ evalR p s rhe v) ->
    step ss p s (upd s x None).

Inductive reachable (ss : list stmt) (p : Z) (s0 : store) : store -> Prop :=
| reach_init : reachable ss p s0 s0
| reach_step s s' : reachable ss p s0 s -> step ss p s s' -> reachable ss p s0 s'.

(* initial stores: canonical values for names that no local assignment of the
   graph defines (parameters in version 0, input signals) *)
Definition init_ok (ss : list stmt) (p : Z) (s0 : store) : Prop :=
  forall x v, s0 x = Some v -> 0 <= v < p /\ existsb (defines x) ss = false.
