(* Specification side of C19 (includes), independent of the FileStack mirror:
   which files the command line names, what an include resolves to, which files
   are reachable.  The file system is abstract (Section variables). *)
From Coq Require Import ZArith Ascii String.
From stdpp Require Import list strings.
Require Import Model.Includes.

Section IncludesSpec.
  Context {path : Type}.
  Variable canon : path -> option path.
  Variable is_dir : path -> bool.
  Variable is_file : path -> bool.
  Variable read_dir : path -> option (list path).
  Variable join : path -> path -> path.
  Variable parent : path -> path.
  Variable file_name : path -> option path.
  Variable ext_circom : path -> bool.
  Variable starts_dot : path -> bool.
  Variable has_sep : path -> bool.
  Variable content : path -> file_content path.

  (* a path is canonical when canonicalising it gives the path itself *)
  Definition canonical (p : path) : Prop := canon p = Some p.


  (* what a path stands for.  [named = true]: the path is given on the command
     line, and if it is not a directory it is an input file whatever its
     suffix; [named = false]: the path is an entry of a directory, and counts
     only with the .circom suffix.  A directory stands for what its entries
     stand for. *)
  Inductive expands : bool -> path -> path -> Prop :=
  | expands_file named p c :
      is_dir p = false -> named || ext_circom p = true -> canon p = Some c -> expands named p c
  | expands_dir named p names n c :
      is_dir p = true -> read_dir p = Some names -> n ∈ names -> expands false (join p n) c ->
      expands named p c.

  (* a library offers the include [inc] as the file [c] *)
  Inductive lib_offers (inc : path) : library (path:=path) -> path -> Prop :=
  | offers_dir l c :
      lib_dir l = true -> starts_dot inc = false -> canon (join (lib_path l) inc) = Some c ->
      is_file c = true ->
      lib_offers inc l c
  | offers_file l :
      lib_dir l = false -> has_sep inc = false -> file_name (lib_path l) = Some inc ->
      lib_offers inc l (lib_path l).

  (* the file next to the including file: only a file can be included, a
     directory of that name does not count *)
  Definition relative (cur inc : path) : option path :=
    match canon (join (parent cur) inc) with
    | Some c => if is_file c then Some c else None
    | None => None
    end.

  (* the include [inc] of the file [cur]: relative to the directory of the
     including file first, then the first library, in the order given, that
     offers it *)
  Inductive resolves (cur : path) (libs : list library) (inc : path) : option path -> Prop :=
  | resolves_relative c :
      relative cur inc = Some c -> resolves cur libs inc (Some c)
  | resolves_library l1 l l2 c :
      relative cur inc = None ->
      libs = l1 ++ l :: l2 ->
      Forall (fun l' => forall c', ~ lib_offers inc l' c') l1 ->
      lib_offers inc l c ->
      resolves cur libs inc (Some c)
  | resolves_nowhere :
      relative cur inc = None ->
      Forall (fun l' => forall c', ~ lib_offers inc l' c') libs ->
      resolves cur libs inc None.

  (* the canonical files the command line names *)
  Definition named (paths : list path) (c : path) : Prop := exists p, p ∈ paths /\ expands true p c.


  (* files reachable from the named ones through resolved includes *)
  Inductive reachable (named : path -> Prop) (libs : list library) : path -> Prop :=
  | reach_named c : named c -> reachable named libs c
  | reach_include f incs i c :
      reachable named libs f -> content f = Parsed incs -> i ∈ incs ->
      resolves f libs i.1.1 (Some c) -> reachable named libs c.


  (* nesting depth of a named directory *)
  Inductive depth_le : nat -> path -> Prop :=
  | depth_file k p : is_dir p = false -> depth_le k p
  | depth_unreadable k p : is_dir p = true -> read_dir p = None -> depth_le k p
  | depth_dir k p names :
      is_dir p = true -> read_dir p = Some names ->
      (forall n, n ∈ names -> depth_le k (join p n)) -> depth_le (S k) p.

End IncludesSpec.
