(* Control dependence of a join on a branching block, stated on paths only
   (C07, the assumption behind Spec.DegSem.decides).  Nothing here mentions how
   lifting works or any immediate-dominator TABLE: the graphs are those of
   Spec.CfgSpec (what Model.Lift.lift returns), [edge], [path] and [dominates]
   are the definitions of Spec.CfgSpec:
     edge g a b        b is listed among the successors of block a
     path g a l b      l = the blocks visited after a on a walk from a to b
     dominates g d b   d lies on every walk from block 0 to b (reflexive).

   WHICH BLOCKS DECIDE THE EDGE ALONG WHICH A JOIN IS ENTERED.  Two executions
   that enter block j along different edges p1 -> j, p2 -> j (p1 <> p2) were
   together at block 0; take the block b that both visit and that is visited
   LAST by the first one (before this entry of j).  After leaving b for the
   last time the two executions never meet again before j: from b there are two
   walks to j that have nothing in common but their ends.  That block b is the
   one "whose decision changed the incoming edge of j", and every pair of
   executions that enter j differently has one ([split_exists] in
   Proofs.CtlStructure proves this for every graph).  Hence

     can_split g b j  :=  there are two walks  b -> m1 -> j  and  b -> m2 -> j
                          whose interiors m1, m2 avoid b and j, are disjoint,
                          and are not both empty.

   The two walks then leave b by different successors s1 <> s2 and reach j by
   different predecessors p1 <> p2 ([can_split_edges]); this is the formulation
   "b has two different successors s1, s2 with walks s1 ~> p1 -> j, s2 ~> p2 -> j
   that do not pass through j before the end, p1 <> p2", STRENGTHENED by
   "the walks do not pass through b again and do not meet".  Both additions are
   necessary for the notion to mean anything:
     - without "do not pass through b again" every loop header would split
       every join behind its loop (enter the body once more, or not), although
       the iteration that matters is the last one;
     - without "do not meet" the FIRST of two consecutive `if`s would split the
       join of the SECOND (if (a) {x} ; if (c) {y} ; z  lifts to
       0->1,2  1->2  2->3,4  3->4 ; from block 0 the walks 1,2 -> 4 and 2,3 -> 4
       reach block 4 by different edges), although the edge into block 4 is a
       function of the decision taken at block 2 alone.  On that graph the
       weaker relation holds for (0, 4) while block 0 is not on the dominator
       chain of block 4: the implication below would be FALSE for it.
   A variant in which one of the walks leaves without reaching j is not needed:
   a phi only selects when j is entered. *)
From stdpp Require Import list.
Require Import Model.Lift Spec.CfgSpec.

(* d is a dominator of j other than j *)
Definition sdominates (g : graph) (d j : nat) : Prop := dominates g d j /\ d <> j.

(* d is THE closest strict dominator of j: a strict dominator that every strict
   dominator of j dominates (no table: C15 proves the computed table is this) *)
Definition idom_of (g : graph) (d j : nat) : Prop :=
  sdominates g d j /\ forall k, sdominates g k j -> dominates g k d.

(* a walk b -> m -> j whose interior m avoids both ends *)
Definition route (g : graph) (b : nat) (m : list nat) (j : nat) : Prop :=
  path g b (m ++ [j]) j /\ b ∉ m /\ j ∉ m.

(* the first block after b and the block before j on such a walk *)
Definition first_of (m : list nat) (j : nat) : nat := hd j m.
Definition last_of (b : nat) (m : list nat) : nat := default b (last m).

(* the decision taken at b can change the edge along which j is entered *)
Definition can_split (g : graph) (b j : nat) : Prop :=
  exists m1 m2, route g b m1 j /\ route g b m2 j /\
    (forall x, x ∈ m1 -> x ∉ m2) /\ (m1 <> [] \/ m2 <> []).

(* the literal, weaker reading (walks may meet); kept to state that it is NOT
   the relation the theorem is about *)
Definition can_split_meeting (g : graph) (b j : nat) : Prop :=
  exists m1 m2, route g b m1 j /\ route g b m2 j /\
    first_of m1 j <> first_of m2 j /\ last_of b m1 <> last_of b m2.

(* j is entered along at least two edges (the form Spec.DegSem.pick_ok uses) *)
Definition is_join (g : graph) (j : nat) : Prop :=
  exists bj, g !! j = Some bj /\ 2 <= length (b_preds bj).

(* the path-based reading of Spec.DegSem.above: b lies on the dominator-tree
   path from some predecessor p of j up to the immediate dominator d of j
   ([dominates] is reflexive: b = p and b = d are included) *)
Definition on_dom_chain (g : graph) (j b : nat) : Prop :=
  exists p d, edge g p j /\ dominates g b p /\ idom_of g d j /\ dominates g d b.
