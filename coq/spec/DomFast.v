(* C15, third audit: a rootedness test that stays cheap on graphs with
   hundreds of nodes (the reachability of Spec.DomSpec.rooted_b works on
   duplicate-free lists and is quartic; this one works on N bit masks), so that
   the hypothesis `rooted g` of the C15 theorems is EVALUATED by Gallina code on
   every explored graph, also beyond the bound up to which the proved oracle
   `spec_view` is affordable.  Proofs.DomFastProofs: `rooted_fast_b` is sound
   and complete for `rooted`, and so is `rooted_b`.
   Definitions only (executable). *)
Require Import Model.Dom Spec.DomSpec.
From stdpp Require Import list.
From Coq Require Import NArith.

(* the successors of node a as a mask *)
Definition succ_mask (g : graph) (a : nat) : N := foldr ins 0%N (succs_of g a).

(* one round: add the successors of every visited node *)
Definition expand_m (g : graph) (vis : N) : N :=
  foldr (λ a acc, N.lor (succ_mask g a) acc) vis (members vis).

(* the nodes reachable from the entry: |g| rounds from {0} *)
Definition reach_m (g : graph) : N := Nat.iter (length g) (expand_m g) (ins 0 0%N).

(* [rooted_b] with the last conjunct (every node reachable) on masks *)
Definition rooted_fast_b (g : graph) : bool :=
  let n := length g in
  bool_decide (0 < n) &&
  forallb (λ x, forallb (λ b, bool_decide (b < n)) (succs x) &&
                forallb (λ b, bool_decide (b < n)) (preds x)) g &&
  forallb (λ a, forallb (λ b, bool_decide ((b ∈ succs_of g a) ↔ (a ∈ preds_of g b))) (seq 0 n)) (seq 0 n) &&
  bool_decide (preds_of g 0 = []) &&
  (let r := reach_m g in forallb (λ j, mem j r) (seq 0 n)).

(* entry point of the engine `dom` (model driver, mode `rooted`) *)
Definition run_rooted (n : nat) (es : list (nat * nat)) : bool :=
  rooted_fast_b (mk_graph n es).
