(* Spec side of C04's provenance statements: what "the location of a statement
   of the IR" is.  The IR mirror Model.Ir keeps a meta on every statement
   (expressions carry only their knowledge slot).  Nothing here mentions how
   SSA works. *)
From Coq Require Import NArith List.
Require Import Model.Ir Model.Labels.
Import ListNotations.

(* ------------------------------------------------------------------------ *)
(* what is kept of a statement: its meta and which kind of statement it is   *)
(* ------------------------------------------------------------------------ *)

Inductive stmt_kind := KDecl | KIf | KRet | KSubst | KCeq | KLog | KAssert.

Definition stmt_meta (s : stmt) : meta :=
  match s with
  | SDecl m _ _ _ | SIf m _ _ _ | SRet m _ | SSubst m _ _ _ _ _ | SCeq m _ _ | SLog m _ | SAssert m _ => m
  end.

Definition kind_of (s : stmt) : stmt_kind :=
  match s with
  | SDecl _ _ _ _ => KDecl | SIf _ _ _ _ => KIf | SRet _ _ => KRet | SSubst _ _ _ _ _ _ => KSubst
  | SCeq _ _ _ => KCeq | SLog _ _ => KLog | SAssert _ _ => KAssert
  end.

Definition tag (s : stmt) : meta * stmt_kind := (stmt_meta s, kind_of s).

(* the tag of a phi statement inserted by SSA: `Meta::default()`, a substitution *)
Definition phi_tag : meta * stmt_kind := (default_meta, KSubst).

Definition block_tags (b : block) : list (meta * stmt_kind) := map tag (b_stmts b).

(* all statement metas of a graph *)
Definition cfg_stmt_metas (c : cfg) : list meta :=
  flat_map (fun b => map stmt_meta (b_stmts b)) (c_blocks c).

