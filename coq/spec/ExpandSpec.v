(* Specification side of C18, written without reference to the desugarer:
   * what "occurs anywhere in" means ([sub_exprs], [stmt_exprs], [sub_stmts]) and
     the [sugar_free] predicates;
   * [expand_spec]: what a tuple assignment and an anonymous component mean. *)
From Coq Require Import ZArith NArith List Bool String.
Require Import Model.Ast.
Import ListNotations.

(* ---- occurrence ----------------------------------------------------------- *)

(* the expression itself and every expression below it, array indices of
   accesses, parameters and inputs of anonymous components included *)
Fixpoint sub_exprs (e : expression) : list expression :=
  e ::
  match e with
  | InfixOp _ l _ r => sub_exprs l ++ sub_exprs r
  | PrefixOp _ _ r => sub_exprs r
  | InlineSwitchOp _ c t f => sub_exprs c ++ sub_exprs t ++ sub_exprs f
  | ParallelOp _ r => sub_exprs r
  | Variable_ _ _ acc =>
      flat_map (fun a => match a with ArrayAccess i => sub_exprs i | ComponentAccess _ => [] end) acc
  | Number _ _ => []
  | Call _ _ args => flat_map sub_exprs args
  | AnonymousComponent _ _ _ params signals _ => flat_map sub_exprs params ++ flat_map sub_exprs signals
  | ArrayInLine _ values => flat_map sub_exprs values
  | Tuple _ values => flat_map sub_exprs values
  end.

Definition access_exprs (acc : list access) : list expression :=
  flat_map (fun a => match a with ArrayAccess i => sub_exprs i | ComponentAccess _ => [] end) acc.

(* every expression node occurring anywhere in a statement *)
Fixpoint stmt_exprs (s : statement) : list expression :=
  match s with
  | IfThenElse _ c i e =>
      sub_exprs c ++ stmt_exprs i ++ match e with Some e => stmt_exprs e | None => [] end
  | While _ c b => sub_exprs c ++ stmt_exprs b
  | Return _ v => sub_exprs v
  | InitializationBlock _ _ inits => flat_map stmt_exprs inits
  | Declaration _ _ _ dims _ => flat_map sub_exprs dims
  | Substitution _ _ acc _ rhe => access_exprs acc ++ sub_exprs rhe
  | MultiSubstitution _ l _ r => sub_exprs l ++ sub_exprs r
  | ConstraintEquality _ l r => sub_exprs l ++ sub_exprs r
  | LogCall _ args =>
      flat_map (fun a => match a with LogExp e => sub_exprs e | LogStr _ => [] end) args
  | Block _ stmts => flat_map stmt_exprs stmts
  | Assert _ a => sub_exprs a
  end.

(* the statement itself and every statement below it *)
Fixpoint sub_stmts (s : statement) : list statement :=
  s ::
  match s with
  | IfThenElse _ _ i e => sub_stmts i ++ match e with Some e => sub_stmts e | None => [] end
  | While _ _ b => sub_stmts b
  | InitializationBlock _ _ inits => flat_map sub_stmts inits
  | Block _ stmts => flat_map sub_stmts stmts
  | _ => []
  end.

Definition is_multi_substitution (s : statement) : bool :=
  match s with MultiSubstitution _ _ _ _ => true | _ => false end.

(* no tuple and no anonymous component anywhere *)
Definition sugar_free_expr (e : expression) : Prop :=
  forall x, In x (sub_exprs e) -> is_tuple x = false /\ is_anonymous_component x = false.

Definition sugar_free_stmt (s : statement) : Prop :=
  (forall x, In x (stmt_exprs s) -> is_tuple x = false /\ is_anonymous_component x = false) /\
  (forall t, In t (sub_stmts s) -> is_multi_substitution t = false).

(* the sugar a statement contains *)
Definition has_sugar (s : statement) : Prop :=
  (exists x, In x (stmt_exprs s) /\ (is_tuple x = true \/ is_anonymous_component x = true)) \/
  (exists t, In t (sub_stmts s) /\ is_multi_substitution t = true).

(* every meta occurring in an expression / a statement (expression nodes and
   statement nodes; accesses, log strings and operators carry no meta) *)
Definition expr_metas (e : expression) : list meta := map expr_meta (sub_exprs e).
Definition stmt_metas (s : statement) : list meta :=
  map expr_meta (stmt_exprs s) ++ map stmt_meta (sub_stmts s).

(* ---- what the parser guarantees about the trees it hands to the desugarer ---- *)

(* the meta belongs to a file of the library (list, per file id, of line starts) *)
Definition meta_known (lib : list (list N)) (m : meta) : Prop :=
  exists f, m_file m = Some f /\ nth_error lib (N.to_nat f) <> None.

(* log strings have been split into pieces of at most 230 bytes *)
Definition short_arg (a : log_argument) : Prop :=
  match a with LogStr s => String.length s <= 230 | LogExp _ => True end.
Definition short_node (t : statement) : Prop :=
  match t with LogCall _ args => Forall short_arg args | _ => True end.

(* named inputs of an anonymous component come with one argument each *)
Definition wf_node (x : expression) : Prop :=
  match x with
  | AnonymousComponent _ _ _ _ ss (Some nm) => List.length nm = List.length ss
  | _ => True
  end.

Definition wf_template (lib : list (list N)) (body : statement) : Prop :=
  Forall (meta_known lib) (stmt_metas body) /\
  Forall short_node (sub_stmts body) /\
  Forall wf_node (stmt_exprs body) /\
  exists m l, body = Block m l.

(* ---- expand_spec ------------------------------------------------------------ *)
(* What the two kinds of sugar mean.
   * A tuple assignment `(x1, .., xn) op (e1, .., en)` (nested tuples flattened,
     an anonymous component standing for the tuple of its outputs) is the
     element-wise assignments `xi op ei` in order, skipping `_`.
   * `T(p..)(a..)` is a component `c` declared at the top of the template and
     initialised with `c = T(p..)` (under `parallel` if so written); its inputs are
     assigned in DECLARATION order, `c.in_k <== a_k` for positional arguments and
     `c.in_k op_j a_j` for the argument named `in_k`; its value is `c.out` for a
     single output, otherwise the tuple of its outputs in declaration order.
     Inside loops `c` is an element of a component array indexed by the counter of
     the innermost enclosing loop, which is 0 before the outermost statement and
     incremented at the end of every iteration of that loop; a loop none of whose
     own components is counted by it (it only encloses other loops) has no counter.
   The names of `c` and of the counters are parameters of the specification.
   [None]: the program is not a valid use of the sugar. *)

Definition plain (e : expression) : bool :=
  forallb (fun x => negb (is_tuple x) && negb (is_anonymous_component x)) (sub_exprs e).

Fixpoint declared_signals (st : signal_type) (s : statement) : list string :=
  match s with
  | IfThenElse _ _ i e =>
      declared_signals st i ++ match e with Some e => declared_signals st e | None => [] end
  | While _ _ b => declared_signals st b
  | Block _ l | InitializationBlock _ _ l => flat_map (declared_signals st) l
  | Declaration _ (VSignal st' _) name _ _ =>
      match st, st' with SInput, SInput | SOutput, SOutput => [name] | _, _ => [] end
  | _ => []
  end.

Fixpoint index_of (name : string) (l : list string) : option nat :=
  match l with
  | [] => None
  | x :: r => if String.eqb x name then Some O else option_map S (index_of name r)
  end.

Fixpoint all_some {A} (l : list (option A)) : option (list A) :=
  match l with
  | [] => Some []
  | Some a :: r => option_map (cons a) (all_some r)
  | None :: _ => None
  end.

(* a declaration of an array whose dimension is the variable [k] *)
Definition counted_by (k : string) (s : statement) : bool :=
  match s with
  | Declaration _ _ _ dims _ => existsb (fun e => match e with Variable_ _ n _ => String.eqb n k | _ => false end) dims
  | _ => false
  end.

Section Expand.
  Variable sig_of : string -> option (list string * list string).   (* inputs, outputs *)
  Variable comp_name : string -> meta -> option string.
  Variable counter_name : meta -> option string.

  Notation xres := (option (list statement * list statement * list expression)).

  (* per declared input: which written argument feeds it, with which operator *)
  Definition argument_of (names : option (list (assign_op * string))) (k : nat) (input : string)
    : option (nat * assign_op) :=
    match names with
    | None => Some (k, AssignConstraintSignal)
    | Some nm =>
        match index_of input (map snd nm) with
        | Some j => option_map (fun o => (j, o)) (nth_error (map fst nm) j)
        | None => None
        end
    end.

  Definition is_single (e : expression) (r : xres) : option (list statement * list statement * expression) :=
    match e, r with
    | Tuple _ _, _ => None
    | _, Some (pre, dec, [v]) => Some (pre, dec, v)
    | _, _ => None
    end.

  Definition xanon (ix : list access) (m : meta) (id : string) (par : bool)
    (params args : list expression) (names : option (list (assign_op * string)))
    (argres : list xres) : xres :=
    match sig_of id, comp_name id m with
    | Some (ins, outs), Some c =>
        if forallb plain params && (List.length ins =? List.length args)%nat
           && match names with Some nm => (List.length nm =? List.length args)%nat | None => true end
        then
          let feed k input :=
            match argument_of names k input with
            | Some (j, o) =>
                match nth_error args j, nth_error argres j with
                | Some a, Some r =>
                    option_map (fun '(pre, dec, v) =>
                                  (pre ++ [Substitution m c (ix ++ [ComponentAccess input]) o v], dec))
                               (is_single a r)
                | _, _ => None
                end
            | None => None
            end in
          match all_some (map (fun '(k, input) => feed k input) (combine (seq 0 (List.length ins)) ins)) with
          | Some fed =>
              let call := Call m id params in
              let init := Substitution m c ix AssignVar (if par then ParallelOp m call else call) in
              let decl := match ix with
                          | [] => Declaration m VComponent c [] true
                          | ArrayAccess v :: _ => Declaration m VAnonymousComponent c [v] true
                          | _ => Declaration m VComponent c [] true
                          end in
              Some ([Block m (init :: flat_map fst fed)], decl :: flat_map snd fed,
                    map (fun o => Variable_ m c (ix ++ [ComponentAccess o])) outs)
          | None => None
          end
        else None
    | _, _ => None
    end.

  Definition xconcat (l : list xres) : xres :=
    option_map (fun rs => (flat_map (fun r => fst (fst r)) rs, flat_map (fun r => snd (fst r)) rs,
                           flat_map snd rs)) (all_some l).

  (* the values an expression stands for, with the statements and declarations
     that have to precede its use *)
  Fixpoint xvals (ix : list access) (e : expression) : xres :=
    match e with
    | Tuple _ vs => xconcat (map (xvals ix) vs)
    | AnonymousComponent m id par ps args names => xanon ix m id par ps args names (map (xvals ix) args)
    | ParallelOp _ (AnonymousComponent m id _ ps args names) =>
        xanon ix m id true ps args names (map (xvals ix) args)
    | _ => if plain e then Some ([], [], [e]) else None
    end.

  Definition tuple_valued (e : expression) : bool :=
    match e with
    | Tuple _ _ => true
    | AnonymousComponent _ id _ _ _ _ | ParallelOp _ (AnonymousComponent _ id _ _ _ _) =>
        match sig_of id with Some (_, [_]) => false | _ => true end
    | _ => false
    end.

  Definition seq_block (m : meta) (pre : list statement) (s : statement) : statement :=
    match pre with [] => s | _ => Block m (pre ++ [s]) end.

  (* destinations of a tuple assignment: variables, `_` included *)
  Fixpoint lvalues (e : expression) : option (list expression) :=
    match e with
    | Tuple _ vs => option_map (@List.concat _) (all_some (map lvalues vs))
    | Variable_ _ _ _ => if plain e then Some [e] else None
    | _ => None
    end.

  Definition assignments (o : assign_op) (ls rs : list expression) : list statement :=
    flat_map (fun '(l, r) =>
                match l with
                | Variable_ vm name acc => if String.eqb name "_"%string then [] else [Substitution vm name acc o r]
                | _ => []
                end) (combine ls rs).

  Fixpoint log_values (e : expression) : option (list log_argument) :=
    match e with
    | Tuple _ vs =>
        option_map (fun l => [LogStr "("%string] ++ List.concat l ++ [LogStr ")"%string]) (all_some (map log_values vs))
    | _ => if plain e then Some [LogExp e] else None
    end.

  Definition xlog (a : log_argument) : option (list log_argument) :=
    match a with
    | LogStr s => Some (if String.eqb s ""%string then [] else [LogStr s])
    | LogExp e => log_values e
    end.

  Definition acc_plain (acc : list access) : bool :=
    forallb (fun a => match a with ArrayAccess i => plain i | ComponentAccess _ => true end) acc.

  Fixpoint xstmt (ix : list access) (s : statement) : option (statement * list statement) :=
    let xlist := fix go (l : list statement) : option (list statement * list statement) :=
      match l with
      | [] => Some ([], [])
      | x :: r =>
          match xstmt ix x, go r with
          | Some (x', d), Some (r', d') => Some (x' :: r', d ++ d')
          | _, _ => None
          end
      end in
    match s with
    | Substitution m v acc o rhe =>
        if acc_plain acc then
          match is_single rhe (xvals ix rhe) with
          | Some (pre, dec, value) =>
              Some (seq_block m pre (if String.eqb v "_"%string then Block m [] else Substitution m v acc o value), dec)
          | None => None
          end
        else None
    | MultiSubstitution m lhe o rhe =>
        match lhe, lvalues lhe, tuple_valued rhe, xvals ix rhe with
        | Tuple _ _, Some ls, true, Some (pre, dec, rs) =>
            if (List.length ls =? List.length rs)%nat
            then Some (seq_block m pre (Block m (assignments o ls rs)), dec)
            else None
        | _, _, _, _ => None
        end
    | IfThenElse m c i e =>
        if plain c then
          match xstmt ix i, e with
          | Some (i', d), None => Some (IfThenElse m c i' None, d)
          | Some (i', d), Some e =>
              match xstmt ix e with
              | Some (e', d') => Some (IfThenElse m c i' (Some e'), d ++ d')
              | None => None
              end
          | None, _ => None
          end
        else None
    | While m c b =>
        if plain c then
          match counter_name m with
          | Some k =>
              let kv := Variable_ m k [] in
              match xstmt [ArrayAccess kv] b with
              | Some (b', d) =>
                  (* the loop has a counter exactly when a component of its OWN body level (not of a nested
                     loop, whose components are counted by that loop) is an element of an array indexed by it *)
                  if existsb (counted_by k) d then
                    Some (While m c (Block m [b'; Substitution m k [] AssignVar (InfixOp m kv IAdd (Number m 1))]),
                          [Declaration m VVar k [] true; Substitution m k [] AssignVar (Number m 0)] ++ d)
                  else Some (While m c b', d)
              | None => None
              end
          | None => None
          end
        else None
    | LogCall m args =>
        option_map (fun l => (LogCall m (List.concat l), [])) (all_some (map xlog args))
    | Assert m a => if plain a then Some (s, []) else None
    | Return m v => if plain v then Some (s, []) else None
    | ConstraintEquality m l r => if plain l && plain r then Some (s, []) else None
    | Declaration m t n dims _ => if forallb plain dims then Some (Declaration m t n dims true, []) else None
    | InitializationBlock m t l => option_map (fun '(l', d) => (InitializationBlock m t l', d)) (xlist l)
    | Block m l => option_map (fun '(l', d) => (Block m l', d)) (xlist l)
    end.

  Definition is_decl_of (p : variable_type -> bool) (s : statement) : bool :=
    match s with Declaration _ t _ _ _ => p t | _ => false end.

  (* the expansion of a template body *)
  Definition expand_spec (body : statement) : option statement :=
    match xstmt [] body with
    | Some (Block m stmts, decls) =>
        let vars := filter (is_decl_of (fun t => match t with VVar => true | _ => false end)) decls in
        let comps := filter (is_decl_of (fun t => match t with VComponent | VAnonymousComponent => true | _ => false end)) decls in
        let inits := filter (fun s => match s with Substitution _ _ _ _ _ => true | _ => false end) decls in
        Some (Block m ([InitializationBlock m VVar vars] ++ inits ++ [InitializationBlock m VComponent comps] ++ stmts))
    | _ => None
    end.
End Expand.

(* the signature table of a program: inputs and outputs in declaration order *)
Definition sig_table (templates : list (string * statement)) (id : string)
  : option (list string * list string) :=
  match find (fun t => String.eqb (fst t) id) templates with
  | Some (_, body) => Some (declared_signals SInput body, declared_signals SOutput body)
  | None => None
  end.
