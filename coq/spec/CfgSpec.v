(* Specification side of C12 and C13: what a well-formed control-flow graph is
   (path-based reachability and dominance, edge mirroring, branch placement,
   syntactic loop nesting), the structured big-step semantics of a statement
   skeleton under a list of branch/loop decisions, and the walk of a graph
   under the same decisions.  Nothing here mentions how lifting works. *)
From stdpp Require Import list.
Require Import Model.Lift.

(* ------------------------------------------------------------------ *)
(* observable identity of a statement / of a condition                 *)
(* ------------------------------------------------------------------ *)
Inductive key := KLeaf (id : nat) | KCond (c : nat).

Definition item_key (it : item) : key :=
  match it with ILeaf id => KLeaf id | IBranch c _ _ => KCond c end.

Definition is_branch (it : item) : bool :=
  match it with IBranch _ _ _ => true | _ => false end.

(* ------------------------------------------------------------------ *)
(* C12: graph well-formedness                                          *)
(* ------------------------------------------------------------------ *)
Definition edge (g : graph) (i j : nat) : Prop :=
  exists b, g !! i = Some b /\ j ∈ b_succs b.

(* [path g i l j]: l is the list of blocks visited after i on a path from i to j *)
Inductive path (g : graph) : nat -> list nat -> nat -> Prop :=
| path_nil i : i < length g -> path g i [] i
| path_cons i k l j : edge g i k -> path g k l j -> path g i (k :: l) j.

Definition reachable (g : graph) (j : nat) : Prop := exists l, path g 0 l j.

(* i dominates j: every path from the entry to j goes through i *)
Definition dominates (g : graph) (i j : nat) : Prop :=
  forall l, path g 0 l j -> i ∈ 0 :: l.

Definition ends_in_branch (b : block) : Prop :=
  exists c t f, last (b_items b) = Some (IBranch c t f).

(* syntactic loop nesting of every leaf and condition, in source order; the
   condition of a loop counts as outside the loop *)
Fixpoint nesting (d : nat) (s : sk) : list (key * nat) :=
  match s with
  | SLeaf id _ => [(KLeaf id, d)]
  | SInit ss => (fix go ss := match ss with [] => [] | s :: r => nesting d s ++ go r end) ss
  | SBlock ss => (fix go ss := match ss with [] => [] | s :: r => nesting d s ++ go r end) ss
  | SWhile c b => (KCond c, d) :: nesting (S d) b
  | SIf c t e => (KCond c, d) :: nesting d t ++ match e with Some e => nesting d e | None => [] end
  end.

(* the items of the graph with the recorded loop depth of their block, in block order *)
Definition graph_items (g : graph) : list (key * nat) :=
  concat (map (fun b => map (fun it => (item_key it, b_depth b)) (b_items b)) g).

(* ------------------------------------------------------------------ *)
(* C13: structured semantics                                           *)
(* ------------------------------------------------------------------ *)
Inductive status :=
| Running      (* the statement ran to its end *)
| Returned     (* a `return` was executed *)
| Exhausted    (* a condition was evaluated and no decision is left *)
| Diverged.    (* recursion fuel of the definition ran out: proved impossible *)

Definition result : Type := list key * list bool * status.

(* the iterations of `while (c) body`, given the semantics [rb] of the body *)
Fixpoint run_loop (c : nat) (rb : list bool -> result) (fuel : nat) (ds : list bool) {struct fuel} : result :=
  match fuel with
  | 0 => ([], ds, Diverged)
  | S fuel =>
      match ds with
      | [] => ([KCond c], [], Exhausted)
      | false :: ds1 => ([KCond c], ds1, Running)
      | true :: ds1 =>
          let '(tr1, ds2, st1) := rb ds1 in
          match st1 with
          | Running =>
              let '(tr2, ds3, st2) := run_loop c rb fuel ds2 in (KCond c :: tr1 ++ tr2, ds3, st2)
          | _ => (KCond c :: tr1, ds2, st1)
          end
      end
  end.

Fixpoint run (s : sk) (ds : list bool) {struct s} : result :=
  match s with
  | SLeaf id r => ([KLeaf id], ds, if r then Returned else Running)
  | SInit ss =>
      (fix go ss ds : result :=
         match ss with
         | [] => ([], ds, Running)
         | s :: r =>
             let '(tr1, ds1, st1) := run s ds in
             match st1 with
             | Running => let '(tr2, ds2, st2) := go r ds1 in (tr1 ++ tr2, ds2, st2)
             | _ => (tr1, ds1, st1)
             end
         end) ss ds
  | SBlock ss =>
      (fix go ss ds : result :=
         match ss with
         | [] => ([], ds, Running)
         | s :: r =>
             let '(tr1, ds1, st1) := run s ds in
             match st1 with
             | Running => let '(tr2, ds2, st2) := go r ds1 in (tr1 ++ tr2, ds2, st2)
             | _ => (tr1, ds1, st1)
             end
         end) ss ds
  | SIf c t e =>
      match ds with
      | [] => ([KCond c], [], Exhausted)
      | true :: ds1 => let '(tr, ds2, st) := run t ds1 in (KCond c :: tr, ds2, st)
      | false :: ds1 =>
          match e with
          | Some e => let '(tr, ds2, st) := run e ds1 in (KCond c :: tr, ds2, st)
          | None => ([KCond c], ds1, Running)
          end
      end
  | SWhile c body =>
      (* every iteration consumes a decision, so |ds|+1 iterations suffice *)
      run_loop c (run body) (S (length ds)) ds
  end.

Definition trace (s : sk) (ds : list bool) : list key := fst (fst (run s ds)).
Definition final_status (s : sk) (ds : list bool) : status := snd (run s ds).

(* `for (init; cond; step) body` means: init, then while cond { body; step } *)
Definition for_expansion (init : sk) (c : nat) (step body : sk) : sk :=
  SBlock [init; SWhile c (SBlock [body; step])].

(* ------------------------------------------------------------------ *)
(* C13: walking a graph                                                *)
(* ------------------------------------------------------------------ *)
Definition pos : Type := nat * nat.   (* block, offset in its statement list *)

(* on false: the recorded false_index, else the unique successor that is not
   the true target, else nothing *)
Definition false_target (succs : list nat) (t : nat) (f : option nat) : option nat :=
  match f with
  | Some x => Some x
  | None =>
      match filter (fun x => x ≠ t) succs with
      | [x] => Some x
      | _ => None
      end
  end.

(* one step of the walk: the emitted observation (None for the silent move
   from the end of a block without branch to the start of its only successor),
   the next position and the remaining decisions; None when the walk stops *)
Definition step (g : graph) (p : pos) (ds : list bool) : option (option key * pos * list bool) :=
  let '(i, k) := p in
  match g !! i with
  | None => None
  | Some b =>
      match b_items b !! k with
      | Some (ILeaf id) => Some (Some (KLeaf id), (i, S k), ds)
      | Some (IBranch c t f) =>
          match ds with
          | [] => Some (Some (KCond c), (i, S k), [])
          | true :: ds1 => Some (Some (KCond c), (t, 0), ds1)
          | false :: ds1 =>
              match false_target (b_succs b) t f with
              | Some x => Some (Some (KCond c), (x, 0), ds1)
              | None => Some (Some (KCond c), (i, S k), ds1)
              end
          end
      | None =>
          if decide (k = length (b_items b)) then
            match last (b_items b) with
            | Some (IBranch _ _ _) => None
            | _ => match b_succs b with [x] => Some (None, (x, 0), ds) | _ => None end
            end
          else None
      end
  end.

Definition okey (o : option key) : list key := match o with Some k => [k] | None => [] end.

(* finitely many steps *)
Inductive walks (g : graph) : pos -> list bool -> list key -> pos -> list bool -> Prop :=
| walks_refl p ds : walks g p ds [] p ds
| walks_step p ds o p1 ds1 tr p2 ds2 :
    step g p ds = Some (o, p1, ds1) -> walks g p1 ds1 tr p2 ds2 ->
    walks g p ds (okey o ++ tr) p2 ds2.

Definition stuck (g : graph) (p : pos) (ds : list bool) : Prop := step g p ds = None.

(* the observations of the first n steps *)
Fixpoint walk_from (n : nat) (g : graph) (p : pos) (ds : list bool) : list key :=
  match n with
  | 0 => []
  | S n =>
      match step g p ds with
      | None => []
      | Some (o, p1, ds1) => okey o ++ walk_from n g p1 ds1
      end
  end.

Definition walk (n : nat) (g : graph) (ds : list bool) : list key := walk_from n g (0, 0) ds.

(* ------------------------------------------------------------------ *)
(* violation-search oracle: the tree of all decision lists up to a bound *)
(* ------------------------------------------------------------------ *)
Fixpoint explore (n : nat) (f : list bool -> list key * status) (ds : list bool)
  : list (list bool * list key * status) :=
  let '(tr, st) := f ds in
  match st, n with
  | Exhausted, S n' => explore n' f (ds ++ [true]) ++ explore n' f (ds ++ [false])
  | _, _ => [(ds, tr, st)]
  end.

Definition trace_tree (n : nat) (s : sk) : list (list bool * list key * status) :=
  explore n (fun ds => (trace s ds, final_status s ds)) [].

(* the same for a graph; a walk that needs a decision and has none is Exhausted *)
Fixpoint walk_status (n : nat) (g : graph) (p : pos) (ds : list bool) : list key * status :=
  match n with
  | 0 => ([], Diverged)
  | S n =>
      match step g p ds with
      | None => ([], Running)
      | Some (o, p1, ds1) =>
          match o, ds with
          | Some (KCond _), [] => (okey o, Exhausted)
          | _, _ => let '(tr, st) := walk_status n g p1 ds1 in (okey o ++ tr, st)
          end
      end
  end.

Definition walk_tree (n fuel : nat) (g : graph) : list (list bool * list key * status) :=
  explore n (fun ds => walk_status fuel g (0, 0) ds) [].

(* ------------------------------------------------------------------ *)
(* what the parser can produce: the body of a definition is a block and *)
(* an initialisation block holds only declarations and substitutions    *)
(* ------------------------------------------------------------------ *)
Definition is_leaf (s : sk) : bool := match s with SLeaf _ _ => true | _ => false end.

Fixpoint init_ok (s : sk) : bool :=
  match s with
  | SLeaf _ _ => true
  | SInit ss => forallb is_leaf ss
  | SBlock ss => forallb init_ok ss
  | SWhile _ b => init_ok b
  | SIf _ t e => init_ok t && match e with Some e => init_ok e | None => true end
  end.

Definition parser_shaped (body : sk) : Prop :=
  (exists ss, body = SBlock ss) /\ init_ok body = true.
