(* Specification side of C12 for graphs that carry their statements (Model.Ir.cfg:
   what the public Cfg / BasicBlock accessors show after into_cfg and after
   into_ssa).  The clauses of Spec.CfgSpec / props/C12.v, restated over Ir.cfg, and
   the relation "c' is c with phi assignments put in front of the blocks" that the
   SSA conversion has to respect.  Nothing here mentions how lifting or the SSA
   construction work.  Definitions only. *)
From Coq Require Import NArith List.
Require Import Model.Ir.
Import ListNotations.

Definition blk (c : cfg) (i : nat) : option block := nth_error (c_blocks c) i.
Definition nblocks (c : cfg) : nat := length (c_blocks c).

(* ------------------------------------------------------------------ *)
(* kinds of statements                                                 *)
(* ------------------------------------------------------------------ *)
(* a top-level phi assignment  x = phi(...) *)
Definition is_phi (s : stmt) : Prop :=
  exists m x op args k sv st, s = SSubst m x op (EPhi args k) sv st.

(* a branch statement (ir::Statement::IfThenElse) *)
Definition is_branch (s : stmt) : Prop := exists m c t f, s = SIf m c t f.

Definition stmt_meta (s : stmt) : meta :=
  match s with
  | SDecl m _ _ _ | SIf m _ _ _ | SRet m _ | SSubst m _ _ _ _ _ | SCeq m _ _ | SLog m _ | SAssert m _ => m
  end.

(* b is a of the same kind: same constructor, same location; a branch keeps both
   targets, a declaration its type, an assignment its operator *)
Definition same_kind (a b : stmt) : Prop :=
  match a, b with
  | SDecl m _ t _, SDecl m' _ t' _ => m = m' /\ t = t'
  | SIf m _ t f, SIf m' _ t' f' => m = m' /\ t = t' /\ f = f'
  | SRet m _, SRet m' _ => m = m'
  | SSubst m _ op _ _ _, SSubst m' _ op' _ _ _ => m = m' /\ op = op'
  | SCeq m _ _, SCeq m' _ _ => m = m'
  | SLog m _, SLog m' _ => m = m'
  | SAssert m _, SAssert m' _ => m = m'
  | _, _ => False
  end.

(* ------------------------------------------------------------------ *)
(* what the SSA conversion may do to a graph                           *)
(* ------------------------------------------------------------------ *)
(* everything of a block but its statements *)
Definition same_frame (b b' : block) : Prop :=
  b_index b' = b_index b /\ b_depth b' = b_depth b /\ b_preds b' = b_preds b /\ b_succs b' = b_succs b.

(* the statements of b' are: phi assignments, then the statements of b one for
   one, of the same kind, none of them a phi assignment *)
Definition phis_then_image (b b' : block) : Prop :=
  exists phis body,
    b_stmts b' = phis ++ body /\
    Forall is_phi phis /\
    Forall (fun s => ~ is_phi s) body /\
    Forall2 same_kind (b_stmts b) body.

Definition ssa_shape_of (c c' : cfg) : Prop :=
  Forall2 (fun b b' => same_frame b b' /\ phis_then_image b b') (c_blocks c) (c_blocks c').

(* ------------------------------------------------------------------ *)
(* C12: well-formedness of a graph with statements                      *)
(* ------------------------------------------------------------------ *)
(* a block's index is its position *)
Definition index_is_position (c : cfg) : Prop :=
  forall i b, blk c i = Some b -> b_index b = N.of_nat i.

(* block 0 exists and has no predecessor *)
Definition entry_no_pred (c : cfg) : Prop :=
  exists b0, blk c 0 = Some b0 /\ b_preds b0 = [].

(* the successor and predecessor lists name existing blocks and mirror each other *)
Definition edges_in_range (c : cfg) : Prop :=
  forall i b x, blk c i = Some b -> In x (b_succs b) \/ In x (b_preds b) -> N.to_nat x < nblocks c.

Definition preds_succs_mirror (c : cfg) : Prop :=
  forall i j,
    (exists bi, blk c i = Some bi /\ In (N.of_nat j) (b_succs bi)) <->
    (exists bj, blk c j = Some bj /\ In (N.of_nat i) (b_preds bj)).

(* a branch statement occurs only as the last statement of a block *)
Definition branch_only_last (c : cfg) : Prop :=
  forall i b k s, blk c i = Some b -> nth_error (b_stmts b) k = Some s -> is_branch s ->
    S k = length (b_stmts b).

Definition last_stmt (b : block) : option stmt :=
  nth_error (b_stmts b) (pred (length (b_stmts b))).

(* its targets are existing blocks contained in the successor list; the true
   target is the next block, a recorded false target differs from it *)
Definition branch_targets_ok (c : cfg) : Prop :=
  forall i b m e t f, blk c i = Some b -> last_stmt b = Some (SIf m e t f) ->
    t = N.of_nat (S i) /\ N.to_nat t < nblocks c /\ In t (b_succs b) /\
    forall x, f = Some x -> N.to_nat x < nblocks c /\ In x (b_succs b) /\ x <> t.

Definition ends_in_branch (b : block) : Prop := exists s, last_stmt b = Some s /\ is_branch s.

(* no block has more than two successors, one without a branch *)
Definition at_most_two_succs (c : cfg) : Prop :=
  forall i b, blk c i = Some b ->
    NoDup (b_succs b) /\ length (b_succs b) <= 2 /\ (~ ends_in_branch b -> length (b_succs b) <= 1).

(* paths along successor edges, reachability from block 0, dominance *)
Definition edge (c : cfg) (i j : nat) : Prop :=
  exists b, blk c i = Some b /\ In (N.of_nat j) (b_succs b).

Inductive path (c : cfg) : nat -> list nat -> nat -> Prop :=
| path_nil i : i < nblocks c -> path c i [] i
| path_cons i k l j : edge c i k -> path c k l j -> path c i (k :: l) j.

Definition reachable (c : cfg) (j : nat) : Prop := exists l, path c 0 l j.
Definition dominates (c : cfg) (i j : nat) : Prop := forall l, path c 0 l j -> In i (0 :: l).

Definition all_reachable (c : cfg) : Prop := forall j, j < nblocks c -> reachable c j.
(* the dominance order agrees with the block order *)
Definition dom_implies_le (c : cfg) : Prop :=
  forall i j, j < nblocks c -> dominates c i j -> i <= j.
Definition descending_paths (c : cfg) : Prop :=
  forall j, j < nblocks c -> exists l, path c 0 l j /\ forall x, In x (0 :: l) -> x <= j.

(* the recorded loop depths, in block order *)
Definition loop_depths (c : cfg) : list N := map b_depth (c_blocks c).

Record cfg_wf (c : cfg) : Prop := {
  wf_index : index_is_position c;
  wf_entry : entry_no_pred c;
  wf_range : edges_in_range c;
  wf_mirror : preds_succs_mirror c;
  wf_branch_last : branch_only_last c;
  wf_branch_targets : branch_targets_ok c;
  wf_two_succs : at_most_two_succs c;
  wf_reachable : all_reachable c;
  wf_dom_le : dom_implies_le c;
  wf_descending : descending_paths c }.
