(* Specification side of C08: which statements of a cfg are `<--`
   assignments, which are constraint statements, and what it means for a
   constraint statement to mention an assigned signal.  Written as relations
   over the IR, without the `SignalUse` bookkeeping, the hash sets or the
   cached variable-use sets of the implementation.

   "Mentions" (fourth audit; the old reading "same name and syntactically equal
   access" is withdrawn): a use of a variable declared as a signal or as a
   component, with the same name and an access that is PREFIX-COMPATIBLE with the
   access of the assigned signal (component-wise the Rust `==`, mirrored by
   vname_eqb / accs_compat).  An `Update` node (the right-hand side the lifter
   builds for `v[acc] <== e`) reads `v` itself with the empty access (occ_update);
   a constraint assignment is therefore matched through its target, not through
   that read (update_mentions). *)
From Coq Require Import ZArith NArith List Bool.
Require Import Model.Base Model.Ir Model.SignalAssign.
Import ListNotations.

Definition is_assign (s : stmt) : bool :=
  match s with SSubst _ _ OpSig _ _ _ => true | _ => false end.

Definition is_constraint (s : stmt) : bool :=
  match s with
  | SSubst _ _ OpCSig _ _ _ => true
  | SCeq _ _ _ => true
  | _ => false
  end.

Definition stmt_meta (s : stmt) : meta :=
  match s with
  | SDecl m _ _ _ | SIf m _ _ _ | SRet m _ | SSubst m _ _ _ _ _ | SCeq m _ _ | SLog m _ | SAssert m _ => m
  end.

(* the assignment operator of a statement (None: not a substitution), and the pair
   (location, operator) that the SSA construction must keep (Proofs.SigAssignSsa) *)
Definition stmt_op (s : stmt) : option assign_op :=
  match s with SSubst _ _ op _ _ _ => Some op | _ => None end.

Definition otag (s : stmt) : meta * option assign_op := (stmt_meta s, stmt_op s).

(* the `<--` statements and the constraint statements of a cfg, in block order *)
Definition assign_stmts (g : cfg) : list stmt := filter is_assign (all_stmts g).
Definition constraint_stmts (g : cfg) : list stmt := filter is_constraint (all_stmts g).

(* pairwise distinctness under a boolean equality, by positions *)
Definition distinct_keys {A} (eqb : A -> A -> bool) (l : list A) : Prop :=
  forall i j a b, i <> j -> nth_error l i = Some a -> nth_error l j = Some b -> eqb a b = false.

(* hypothesis keys_distinct: no two `<--` statements of the cfg have the same
   (meta, signal, access, degree claim) *)
Definition keys_distinct (g : cfg) : Prop :=
  distinct_keys assignment_eqb (filter_map assignment_of (all_stmts g)).

(* the source-level form of the hypothesis: no two `<--` statements agree in
   location, base name of the assigned variable and component path — what the
   statement keeps of its source text whatever SSA versions, generated
   suffixes, index expressions and degree claims are.  It implies
   [keys_distinct] (Proofs.SignalAssignProofs.subkeys_distinct_suffice) and is
   what the check compares with the generator's record of the written text. *)
Definition subkeys_distinct (g : cfg) : Prop :=
  distinct_keys subkey_eqb (filter_map assignment_of (all_stmts g)).

(* no two constraint statements have the same (meta, lhe, rhe) *)
Definition constraint_keys_distinct (g : cfg) : Prop :=
  distinct_keys constraint_eqb (filter_map (constraint_of (c_decls g)) (all_stmts g)).

(* ---- occurrences of signal / component uses in an expression ---- *)

Definition sig_or_comp (ds : list (vname * vtype)) (v : vname) : Prop :=
  exists t, decl_type ds v = Some t /\ (is_signal t = true \/ is_comp t = true).

Inductive occurs (ds : list (vname * vtype)) : expr -> vname -> list (access expr) -> Prop :=
| occ_var : forall v k, sig_or_comp ds v -> occurs ds (EVar v k) v []
| occ_access : forall v acc k, sig_or_comp ds v -> occurs ds (EAccess v acc k) v acc
| occ_update : forall v acc r k, sig_or_comp ds v -> occurs ds (EUpdate v acc r k) v []
| occ_infix_l : forall op l r k v a, occurs ds l v a -> occurs ds (EInfix op l r k) v a
| occ_infix_r : forall op l r k v a, occurs ds r v a -> occurs ds (EInfix op l r k) v a
| occ_prefix : forall op e k v a, occurs ds e v a -> occurs ds (EPrefix op e k) v a
| occ_switch_c : forall c t f k v a, occurs ds c v a -> occurs ds (ESwitch c t f k) v a
| occ_switch_t : forall c t f k v a, occurs ds t v a -> occurs ds (ESwitch c t f k) v a
| occ_switch_f : forall c t f k v a, occurs ds f v a -> occurs ds (ESwitch c t f k) v a
| occ_call : forall n args k x v a, In x args -> occurs ds x v a -> occurs ds (ECall n args k) v a
| occ_array : forall vs k x v a, In x vs -> occurs ds x v a -> occurs ds (EArray vs k) v a
| occ_access_idx : forall w acc k x v a, In (AIdx x) acc -> occurs ds x v a -> occurs ds (EAccess w acc k) v a
| occ_update_idx : forall w acc r k x v a, In (AIdx x) acc -> occurs ds x v a -> occurs ds (EUpdate w acc r k) v a
| occ_update_rhe : forall w acc r k v a, occurs ds r v a -> occurs ds (EUpdate w acc r k) v a.

(* the use (v', acc') is a use of the signal (v, acc): same name, and one access
   is a prefix of the other (fourth audit, /repo 4f017e8: `q[1] <-- ..` is mentioned
   by `q[1][0] === x` and by `q === ..`; equal accesses are the special case) *)
Definition same_use (v : vname) (acc : list (access expr)) (v' : vname) (acc' : list (access expr)) : Prop :=
  vname_eqb v' v = true /\ accs_compat acc' acc = true.

Definition expr_mentions ds (e : expr) (v : vname) (acc : list (access expr)) : Prop :=
  exists v' acc', occurs ds e v' acc' /\ same_use v acc v' acc'.

(* `var[target] <== rhe` (an Update node): the statement mentions its target, what
   rhe mentions and what the index expressions of the target mention - NOT `var` as a
   whole, although the Update node reads it (occ_update) *)
Definition update_mentions ds (var : vname) (target : list (access expr)) (rhe : expr)
           (v : vname) (acc : list (access expr)) : Prop :=
  same_use v acc var target \/ expr_mentions ds rhe v acc \/
  exists x, In (AIdx x) target /\ expr_mentions ds x v acc.

(* a constraint statement mentions the signal (v, acc).  The lifter builds Update
   nodes only as right-hand sides of substitutions to an accessed variable; the
   SCeq clause for an Update says what the code does with such a tree. *)
Definition stmt_mentions ds (s : stmt) (v : vname) (acc : list (access expr)) : Prop :=
  match s with
  | SCeq _ l r =>
    match r with
    | EUpdate var target rhe _ => update_mentions ds var target rhe v acc
    | _ => expr_mentions ds l v acc \/ expr_mentions ds r v acc
    end
  | SSubst _ w OpCSig rhe _ stype =>
    match rhe with
    | EUpdate var target inner _ => update_mentions ds var target inner v acc
    | _ =>
      expr_mentions ds rhe v acc \/
      ((exists t, stype = Some t /\ (is_signal t = true \/ is_comp t = true))
       /\ same_use v acc w [])
    end
  | _ => False
  end.

(* the degree claim attached to the right-hand side says "at most quadratic" *)
Definition claimed_quadratic (rhe : expr) : Prop :=
  exists r, expr_deg rhe = Some r /\ snd r <> DNonQuad.

(* What the property demands of the finding [r] for the `<--` statement [s]
   of the template cfg [g]. *)
Definition finding_for (g : cfg) (s : stmt) (r : report) : Prop :=
  match s with
  | SSubst m v OpSig rhe _ _ =>
    (* anchored at the statement *)
    r_primary r = label_of m /\
    (* the code follows the degree claim *)
    (claimed_quadratic rhe -> r_code r = CS0013 /\ r_secondary r = []) /\
    (~ claimed_quadratic rhe ->
     r_code r = CS0005 /\
     (* the secondary labels are exactly the constraint statements that
        mention the assigned signal (one label per statement, in block order) *)
     exists cs, r_secondary r = flat_map (fun c => label_of (stmt_meta c)) cs /\
                (forall c, In c cs <-> In c (constraint_stmts g) /\
                                       stmt_mentions (c_decls g) c v (subst_access rhe)) /\
                (exists keep, cs = filter keep (constraint_stmts g)))
  | _ => False
  end.
