(* Specification side of the last sentence of C13: "`for` loops behave as their
   init/condition/body/step expansion and compound assignments as their
   expansions".  Two independent semantics of the SOURCE forms, neither of
   which mentions how the parser rewrites them:

   1. compound assignments: a store semantics of `x[i..] op= e`, `x[i..]++`,
      `x[i..]--` as read-modify-write (old value of the target on the LEFT of
      the operator), for an arbitrary value domain and an arbitrary
      interpretation of the operators; and the expansion `x = x op e` the
      run-time check expects from the real parser ([compound_expansion]).
   2. `for` loops (and the rest of the surface statement skeleton): a relational
      big-step semantics under a decision list, with the textbook rule of
      `for (init; cond; step) body`: init once; then evaluate cond; when true
      run body, then step, and evaluate cond again.  No fuel, no blocks, no
      `while`. *)
From stdpp Require Import list.
Require Import Model.Lift Model.Shortcuts Spec.CfgSpec.

(* ------------------------------------------------------------------ *)
(* 1. compound assignments                                             *)
(* ------------------------------------------------------------------ *)

(* the plain assignment a compound assignment stands for; operand order matters *)
Definition compound_expansion {N} (op : binop) (x : N) (access : list (ex N)) (e : ex N) : cstmt N :=
  CAssign x access (EInfix op (EVar x access) e).

(* what the parser must hand on for each surface form *)
Definition expected_statement {N} (s : cstmt N) : cstmt N :=
  match s with
  | CAssign x access e => CAssign x access e
  | COpAssign op x access e => compound_expansion op x access e
  | CInc x access => compound_expansion Add x access (ENum 1)
  | CDec x access => compound_expansion Sub x access (ENum 1)
  end.

(* a store maps a name and an index vector to a value (scalars: empty vector) *)
Definition store (N V : Type) : Type := N -> list V -> V.

Definition store_upd {N V} `{EqDecision N, EqDecision V}
    (st : store N V) (x : N) (iv : list V) (v : V) : store N V :=
  fun y jv => if decide (y = x /\ jv = iv) then v else st y jv.

(* [bop]: the meaning of the operators, [num]: the meaning of literals, [fld]: the element of
   an index vector a component access `.name` stands for; all arbitrary (in particular no
   operator is assumed commutative) *)
Fixpoint eval {N V} (bop : binop -> V -> V -> V) (num : nat -> V) (fld : N -> V) (st : store N V) (e : ex N) : V :=
  match e with
  | ENum n => num n
  | EVar x access => st x (map (eval bop num fld st) access)
  | EInfix op l r => bop op (eval bop num fld st l) (eval bop num fld st r)
  | EField f => fld f
  end.

(* the meaning of the four surface forms, each given directly *)
Definition exec_stmt {N V} `{EqDecision N, EqDecision V}
    (bop : binop -> V -> V -> V) (num : nat -> V) (fld : N -> V) (s : cstmt N) (st : store N V) : store N V :=
  match s with
  | CAssign x access e =>
      store_upd st x (map (eval bop num fld st) access) (eval bop num fld st e)
  | COpAssign op x access e =>
      let iv := map (eval bop num fld st) access in
      let old := st x iv in
      store_upd st x iv (bop op old (eval bop num fld st e))
  | CInc x access =>
      let iv := map (eval bop num fld st) access in
      store_upd st x iv (bop Add (st x iv) (num 1))
  | CDec x access =>
      let iv := map (eval bop num fld st) access in
      store_upd st x iv (bop Sub (st x iv) (num 1))
  end.

(* ------------------------------------------------------------------ *)
(* 2. surface skeletons: relational big-step semantics                 *)
(* ------------------------------------------------------------------ *)
(* [uexec u ds tr ds' st]: under the decisions ds the statement u executes the
   statements / evaluates the conditions tr, leaves the decisions ds' and ends
   in status st (Running: ran to its end; Returned; Exhausted: a condition was
   evaluated and no decision was left).  [Diverged] is never derived. *)
Inductive uexec : usk -> list bool -> list key -> list bool -> status -> Prop :=
| ux_leaf id (r : bool) ds :
    uexec (ULeaf id r) ds [KLeaf id] ds (if r then Returned else Running)
| ux_compound id ds :
    uexec (UCompound id) ds [KLeaf id] ds Running
| ux_init ss ds tr ds' st :
    useq ss ds tr ds' st -> uexec (UInit ss) ds tr ds' st
| ux_block ss ds tr ds' st :
    useq ss ds tr ds' st -> uexec (UBlock ss) ds tr ds' st
| ux_while c b ds tr ds' st :
    uwhile c b ds tr ds' st -> uexec (UWhile c b) ds tr ds' st
| ux_if_exhausted c t e :
    uexec (UIf c t e) [] [KCond c] [] Exhausted
| ux_if_true c t e ds tr ds' st :
    uexec t ds tr ds' st -> uexec (UIf c t e) (true :: ds) (KCond c :: tr) ds' st
| ux_if_false_else c t e ds tr ds' st :
    uexec e ds tr ds' st -> uexec (UIf c t (Some e)) (false :: ds) (KCond c :: tr) ds' st
| ux_if_false_none c t ds :
    uexec (UIf c t None) (false :: ds) [KCond c] ds Running
| ux_for_init_stops i c stp b ds tr ds' st :
    uexec i ds tr ds' st -> st <> Running ->
    uexec (UFor i c stp b) ds tr ds' st
| ux_for i c stp b ds tr1 ds1 tr2 ds2 st :
    uexec i ds tr1 ds1 Running -> ufor c stp b ds1 tr2 ds2 st ->
    uexec (UFor i c stp b) ds (tr1 ++ tr2) ds2 st
(* statements in sequence: stop at the first one that does not run to its end *)
with useq : list usk -> list bool -> list key -> list bool -> status -> Prop :=
| us_nil ds : useq [] ds [] ds Running
| us_stop s r ds tr ds' st :
    uexec s ds tr ds' st -> st <> Running -> useq (s :: r) ds tr ds' st
| us_next s r ds tr1 ds1 tr2 ds2 st :
    uexec s ds tr1 ds1 Running -> useq r ds1 tr2 ds2 st ->
    useq (s :: r) ds (tr1 ++ tr2) ds2 st
(* while (c) b, from the evaluation of c on *)
with uwhile : nat -> usk -> list bool -> list key -> list bool -> status -> Prop :=
| uw_exhausted c b : uwhile c b [] [KCond c] [] Exhausted
| uw_false c b ds : uwhile c b (false :: ds) [KCond c] ds Running
| uw_body_stops c b ds tr ds' st :
    uexec b ds tr ds' st -> st <> Running ->
    uwhile c b (true :: ds) (KCond c :: tr) ds' st
| uw_again c b ds tr1 ds1 tr2 ds2 st :
    uexec b ds tr1 ds1 Running -> uwhile c b ds1 tr2 ds2 st ->
    uwhile c b (true :: ds) (KCond c :: tr1 ++ tr2) ds2 st
(* for (..; c; stp) b, from the evaluation of c on: body, then step, then c again *)
with ufor : nat -> usk -> usk -> list bool -> list key -> list bool -> status -> Prop :=
| uf_exhausted c stp b : ufor c stp b [] [KCond c] [] Exhausted
| uf_false c stp b ds : ufor c stp b (false :: ds) [KCond c] ds Running
| uf_body_stops c stp b ds tr ds' st :
    uexec b ds tr ds' st -> st <> Running ->
    ufor c stp b (true :: ds) (KCond c :: tr) ds' st
| uf_step_stops c stp b ds tr1 ds1 tr2 ds2 st :
    uexec b ds tr1 ds1 Running -> uexec stp ds1 tr2 ds2 st -> st <> Running ->
    ufor c stp b (true :: ds) (KCond c :: tr1 ++ tr2) ds2 st
| uf_again c stp b ds tr1 ds1 tr2 ds2 tr3 ds3 st :
    uexec b ds tr1 ds1 Running -> uexec stp ds1 tr2 ds2 Running -> ufor c stp b ds2 tr3 ds3 st ->
    ufor c stp b (true :: ds) (KCond c :: tr1 ++ tr2 ++ tr3) ds3 st.

Scheme uexec_mind := Minimality for uexec Sort Prop
  with useq_mind := Minimality for useq Sort Prop
  with uwhile_mind := Minimality for uwhile Sort Prop
  with ufor_mind := Minimality for ufor Sort Prop.
Combined Scheme uexec_mutind from uexec_mind, useq_mind, uwhile_mind, ufor_mind.
