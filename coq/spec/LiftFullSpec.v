(* Specification side of the content-level statement of C13 about the
   content-carrying lifting mirror Model.LiftFull (third audit): what it means
   that an IR statement of the graph IS a given source statement, and that the
   renaming pass changed names only.  Nothing here mentions how lifting walks
   the body.

   Which statements share a meta.  The theorems C13_liftfull_skeleton /
   C13_liftfull_cfg_contains_source name a statement by a function [key] of its
   META.  The parser gives the SAME meta to every Declaration and Substitution it
   splits one declaration list into (`var a = 1, b = a;`,
   ast_shortcuts::split_declaration_into_single_nodes), the desugarer gives the meta
   of the sugared statement to every statement of the block it expands a tuple /
   anonymous-component statement into.  Such statements are not told apart - and
   hence not ordered - by any statement "by meta"; [image] below is the statement
   that does order them (Forall2 over the two lists, position by position). *)
From Coq Require Import String NArith.
From stdpp Require Import list.
Require Import Model.Lift Model.LiftFull.
Require Model.Ast Model.Ir.
Import Base(outcome, Ok).

(* an IfThenElse statement is created with an empty false target, which
   complete_basic_block may fill in later: statements are compared up to it *)
Definition unpatch (x : xstmt) : xstmt :=
  match x with XIf m c t _ => XIf m c t None | _ => x end.

(* x is what lifting makes of the statement s itself (not of its sub-statements):
   for `while` / `if` the branch statement with the lifted condition and the meta
   of the statement; for every other statement intermediate_representation/lifting.rs
   applied to it ([lift_stmt]: same kind, lifted names, lifted expressions with their
   metas, operands in order) *)
Definition image0 (s : Ast.statement) (x : xstmt) : Prop :=
  match s with
  | Ast.While m c _ | Ast.IfThenElse m c _ _ =>
      exists c' t, lift_expr c = Ok c' /\ x = XIf (lift_meta m) c' t None
  | _ => lift_stmt s = Ok x
  end.

(* the image of a source statement in the final graph: what lifting makes of the
   statement, then possibly a false target (complete_basic_block) and the type of
   the assigned variable (propagate_types) *)
Definition image (ds : xdecls) (s : Ast.statement) (x : xstmt) : Prop :=
  exists x0, image0 s (unpatch x0) /\ x = propagate_types_stmt ds x0.

(* the kind of a statement (with the operator of a substitution) *)
Definition stmt_tag (s : Ast.statement) : nat * option Ast.assign_op :=
  match s with
  | Ast.IfThenElse _ _ _ _ => (0, None)
  | Ast.While _ _ _ => (1, None)
  | Ast.Return _ _ => (2, None)
  | Ast.InitializationBlock _ _ _ => (3, None)
  | Ast.Declaration _ _ _ _ _ => (4, None)
  | Ast.Substitution _ _ _ op _ => (5, Some op)
  | Ast.MultiSubstitution _ _ _ _ => (6, None)
  | Ast.ConstraintEquality _ _ _ => (7, None)
  | Ast.LogCall _ _ => (8, None)
  | Ast.Block _ _ => (9, None)
  | Ast.Assert _ _ => (10, None)
  end.

(* body' is body with other names: the same statement structure (for every way of
   naming statements by their metas), and the statements that become IR statements
   have, in order, the same kinds and the same metas *)
Definition renamed_only (body body' : Ast.statement) : Prop :=
  (forall key, skel key body' = skel key body) /\
  map stmt_tag (lifted_stmts body') = map stmt_tag (lifted_stmts body) /\
  map Ast.stmt_meta (lifted_stmts body') = map Ast.stmt_meta (lifted_stmts body).

(* [key] tells the statement metas of this body apart *)
Definition key_injective_on (key : Ir.meta -> nat) (body : Ast.statement) : Prop :=
  forall s1 s2, In s1 (lifted_stmts body) -> In s2 (lifted_stmts body) ->
    key (lift_meta (Ast.stmt_meta s1)) = key (lift_meta (Ast.stmt_meta s2)) ->
    Ast.stmt_meta s1 = Ast.stmt_meta s2.
