(* Path-based dominance on an IR graph (C14, hypotheses of the dynamic theorem about
   the SSA construction): the same definitions as Spec.DomSpec (C15), stated on
   Ir.cfg with plain lists.  An edge a -> b exists when b is listed among the
   successors of the block at position a.  Definitions only. *)
From Coq Require Import ZArith NArith List.
Require Import Model.Base Model.Ir.
Import ListNotations.

Definition cedge (c : cfg) (a b : nat) : Prop :=
  exists x, nth_error (c_blocks c) a = Some x /\ In (N.of_nat b) (b_succs x).

(* [cpath c a b l]: l lists the blocks of a walk from a to b (both included) *)
Inductive cpath (c : cfg) : nat -> nat -> list nat -> Prop :=
| cpath_one a : a < length (c_blocks c) -> cpath c a a [a]
| cpath_cons a m b l : cedge c a m -> cpath c m b l -> cpath c a b (a :: l).

(* i dominates j: i lies on every path from the entry block 0 to j *)
Definition cdom (c : cfg) (i j : nat) : Prop := forall l, cpath c 0 j l -> In i l.
Definition csdom (c : cfg) (i j : nat) : Prop := cdom c i j /\ i <> j.

(* i is the immediate dominator of j *)
Definition cidom (c : cfg) (i j : nat) : Prop :=
  csdom c i j /\ forall k, csdom c k j -> cdom c k i.

(* j is in the dominance frontier of i: i dominates a predecessor of j but does
   not strictly dominate j *)
Definition cdf (c : cfg) (i j : nat) : Prop :=
  (exists q, cedge c q j /\ cdom c i q) /\ ~ csdom c i j.

(* every block is reachable from the entry block *)
Definition creach (c : cfg) : Prop :=
  forall j, j < length (c_blocks c) -> exists l, cpath c 0 j l.

(* the children table lists immediate-dominator pairs only, the frontier table
   is the dominance frontier *)
Definition children_sound (c : cfg) (children : list (list N)) : Prop :=
  forall j k, In k (nth j children []) -> cidom c j (N.to_nat k).
Definition frontier_exact (c : cfg) (frontier : list (list N)) : Prop :=
  forall a s, a < length (c_blocks c) -> s < length (c_blocks c) ->
    (In (N.of_nat s) (nth a frontier []) <-> cdf c a s).
