(* NoSilentSpec — what C02 demands, stated on the INPUTS of the mirrors (the
   file system and the command line for Model.Includes; what the parser yields
   for the files that were read — version pragma, main component, the syntax
   trees of the definitions — for Model.FrontStages, Model.Desugar,
   Model.LiftFull, Model.PipelineMirrors), not on the report collection: that
   the error report exists in the project handed to the runner, with error
   level and a location that passes the file filter, is what the theorems of
   props/C02.v derive.

   [failure_event c r]: failure class [c] of the property text occurs, and [r]
   is the report the pipeline makes of it.  Per class the event is

   * MissingFile, UnreadableFile, SyntaxError, UnresolvedInclude — an event of
     the file system / of `open_file` + `parser_logic::parse_file`, the inputs
     of Model.Includes (second pass; unchanged).
   * BadPragma — a file reached from the named ones that parses and whose
     `pragma circom` names a version `check_compiler_version` rejects
     ([version_supported] = false against `config::COMPILER_VERSION`).
   * SeveralMains — two different files reached from the named ones that parse
     and both have a `component main`.
   * InvalidTupleOrAnonymous — a template (function) of a named file that the
     desugarer rejects: `desugar_template` of C18's mirror answers [DErr r0]
     (`check_function` answers with reports, [r0] one of them).
   * DuplicateParameter — a definition of a named file, handed to the runner,
     whose body is a block and whose parameter list names a parameter twice.
   * LiftFailure — a definition of a named file, handed to the runner, for
     which the mirrors of `into_cfg` / `into_ssa` answer with
     InvalidVariableNameError / UndefinedVariableError ([lift_outcome]).  The
     mirrors return these error values without the file id they carry; it is
     the parameter [err_file], and the event asks that it is absent or the
     file of the definition (DerivedUpToLocation).
   * DuplicateDefinition — ([failure_event_tied], the event of the theorems of
     props/C02.v) two definitions of one name (templates and functions share
     the name space) among the definitions of the files that were read and
     parse ([all_definitions]: file-id order, then source order), the first of
     them the first definition of that name, one of the two in a named file;
     the report is what Merger::add_definitions makes of the second
     ([merger_items], Derived).  The general [failure_event] (program [pr] and
     [rest] free) keeps the form "an error-level report of [rest] with a
     primary label in a named file" for this class; it is used inside the
     proofs only, instantiated with the Merger reports.

   The TIED project ([FrontStages.tied_project]): the program is not a free
   variable but [program_of lib (all_definitions defs_of (ps_files s))] — what
   TemplateLibrary::new keeps of the definitions the parser yields
   ([defs_of], a parameter like [pragma] / [has_main]) for the files of the
   FileLibrary that parse — and [rest] is the Merger reports followed by
   [rest'] (the anonymous-main check, the one stage no mirror covers). *)
From Coq Require Import ZArith NArith String.
Require Import Gen.Category Model.Runner Spec.RunnerSpec.
From stdpp Require Import list.
Require Import Model.Includes Model.Front Spec.IncludesSpec.
Require Model.Ast Model.Desugar Model.LiftFull Model.PipelineMirrors Spec.ExpandSpec.
Require Import Model.FrontStages.

Inductive failure_class :=
| MissingFile | UnreadableFile | SyntaxError | UnresolvedInclude
| DuplicateParameter | LiftFailure
| BadPragma | SeveralMains | InvalidTupleOrAnonymous | DuplicateDefinition.

(* which mirror produces the report of a class *)
Inductive producer :=
| ByIncludes          (* Model.Includes + Model.Front *)
| ByVersionCheck      (* Model.FrontStages.check_compiler_version *)
| ByMainMatch         (* Model.FrontStages.main_items *)
| ByDesugarer         (* Model.Desugar through Model.FrontStages.sugar_items *)
| ByLifter            (* Model.LiftFull / Model.PipelineMirrors through Model.FrontStages.stage_def *)
| ByMerger.           (* Model.FrontStages.merger_items: Merger::add_definitions over the files *)
Definition class_producer (c : failure_class) : producer :=
  match c with
  | MissingFile | UnreadableFile | SyntaxError | UnresolvedInclude => ByIncludes
  | BadPragma => ByVersionCheck
  | SeveralMains => ByMainMatch
  | InvalidTupleOrAnonymous => ByDesugarer
  | DuplicateParameter | LiftFailure => ByLifter
  | DuplicateDefinition => ByMerger
  end.

(* how much of "the report exists, is error level, passes the file filter" is
   derived from the event *)
Inductive derivation :=
| Derived                 (* all of it: the event says nothing about the report but what errors.rs makes of the failure *)
| DerivedUpToLocation     (* existence, level and code derived; the file id inside the error value is a hypothesis *)
| Assumed.                (* the event contains the report, its level and its location (no class any more) *)
Definition class_derivation (c : failure_class) : derivation :=
  match c with
  | LiftFailure => DerivedUpToLocation
  | _ => Derived
  end.

(* the form in which [failure_event] (below) states the report of a class
   (Proofs.NoSilentMerger.failure_event_tied_shape).  The class-table check of
   lib/props/C02.py reads [class_table] through the extracted driver
   (`model_front classes`) and looks for a report of that form in the ground
   truth of every injection it checks. *)
Inductive report_shape :=
| ShOsError | ShParseError | ShIncludeError
| ShVersionError | ShMultipleMain | ShSugarError | ShParamCollision | ShLiftError
| ShDuplicate             (* item_report (SIDuplicate d first): SameSymbolDeclaredTwice, primary files [file of d; file of first] *)
| ShOtherInNamedFile.     (* the general [failure_event] only: a report of [rest] *)
Definition class_shape (c : failure_class) : report_shape :=
  match c with
  | MissingFile | UnreadableFile => ShOsError
  | SyntaxError => ShParseError
  | UnresolvedInclude => ShIncludeError
  | BadPragma => ShVersionError
  | SeveralMains => ShMultipleMain
  | InvalidTupleOrAnonymous => ShSugarError
  | DuplicateParameter => ShParamCollision
  | LiftFailure => ShLiftError
  | DuplicateDefinition => ShDuplicate
  end.
Definition all_classes : list failure_class :=
  [ MissingFile; UnreadableFile; SyntaxError; UnresolvedInclude; DuplicateParameter; LiftFailure;
    BadPragma; SeveralMains; InvalidTupleOrAnonymous; DuplicateDefinition ].
Definition class_table : list (failure_class * producer * derivation * report_shape) :=
  map (fun c => (c, class_producer c, class_derivation c, class_shape c)) all_classes.

Section NoSilentSpec.
  Context {path : Type}.
  Variable canon : path -> option path.
  Variable is_dir : path -> bool.
  Variable is_file : path -> bool.
  Variable read_dir : path -> option (list path).
  Variable join : path -> path -> path.
  Variable parent : path -> path.
  Variable file_name : path -> option path.
  Variable ext_circom : path -> bool.
  Variable starts_dot : path -> bool.
  Variable has_sep : path -> bool.
  Variable content : path -> file_content path.

  Variable pf_id pf_name : Z.
  Variable payload : Includes.report (path:=path) -> Z.

  (* the parameters of Model.FrontStages *)
  Variable pragma : path -> option version.
  Variable has_main : path -> bool.
  Variable cv : version.
  Variable cs : codes.
  Variable spay : stage_item path -> Z.
  Variable ord : nat -> list nat -> list nat.
  Variable horder : list nat -> list nat.
  Variable prime : Z.
  Variable kv kd : nat.
  Variable err_file : PM.definition -> option N.
  Variable name_id : string -> Z.
  Variable after : PM.definition -> def.

  Notation named := (named canon is_dir read_dir join ext_circom).
  Notation resolves := (resolves canon is_file join parent file_name starts_dot has_sep).
  Notation reachable := (reachable canon is_file join parent file_name starts_dot has_sep content).
  Notation report_of := (report_of pf_id pf_name payload).
  Notation item_report := (item_report pf_id pf_name cs spay).
  Notation lift_outcome := (lift_outcome ord horder prime kv kd).
  Notation parses := (parses content).

  (* the path [q] is what the command-line path [p] (or an entry of the named
     directory [p], with the .circom suffix) stands for, and it cannot be
     canonicalised: it does not exist, a directory on the way cannot be
     searched, it is a dangling link *)
  Inductive fails_to_open : bool -> path -> path -> Prop :=
  | fto_file named p :
      is_dir p = false -> named || ext_circom p = true -> canon p = None -> fails_to_open named p p
  | fto_dir named p names n q :
      is_dir p = true -> read_dir p = Some names -> n ∈ names -> fails_to_open false (join p n) q ->
      fails_to_open named p q.

  (* every meta of the body lies in the file [fid] *)
  Definition body_in_file (fid : N) (b : Ast.statement) : Prop :=
    Forall (fun m => Ast.m_file m = Some fid) (ExpandSpec.stmt_metas b).

  Section Event.
    Variable argv libs : list path.
    Variable s : parse_state (path:=path).
    (* what the parser and TemplateLibrary::new / ProgramArchive::new make of the files that were read: the
       definitions with their syntax trees and the line tables of the files; [sd] is what the desugarer
       answers for it (the theorems carry the hypothesis [sugar_input pr = DOk sd]) *)
    Variable pr : PM.program.
    Variable sd : Desugar.desugared.
    (* the reports of the stages no mirror covers *)
    Variable rest : list Runner.report.

    Definition the_libraries : list library := (add_libraries canon is_dir ext_circom libs []).1.

    (* the file id [z] is the FileLibrary entry of a file the command line names *)
    Definition file_is_named (z : Z) : Prop :=
      exists i f u, z = Z.of_nat i /\ ps_files s !! i = Some (f, u) /\ named argv f.

    (* the report has no primary label, or one in a named file *)
    Definition not_in_included_only (r : Runner.report) : Prop :=
      r_pfiles r = [] \/ exists z, In z (r_pfiles r) /\ file_is_named z.

    (* the definition record (TemplateData / FunctionData) belongs to a named file *)
    Definition def_in_named_file (dd : PM.definition) : Prop :=
      exists fid, PM.d_pfile dd = Some fid /\ file_is_named (Z.of_N fid).

    Definition the_templates : list (string * Ast.statement) := PM.named_bodies (PM.pr_templates pr).
    Definition the_functions : list (string * Ast.statement) := PM.named_bodies (PM.pr_functions pr).

    Definition failure_event (c : failure_class) (r : Runner.report) : Prop :=
      match c with
      | MissingFile =>
          exists p q, p ∈ argv /\ fails_to_open true p q /\ r = report_of (FileOsError q)
      | UnreadableFile =>
          exists f, reachable (named argv) the_libraries f /\ content f = Unreadable /\
                    r = report_of (FileOsError f)
      | SyntaxError =>
          exists f i u, named argv f /\ content f = Unparsable /\ ps_files s !! i = Some (f, u) /\
                        r = report_of (ParsingError i)
      | UnresolvedInclude =>
          exists f incs p a b i u,
            named argv f /\ content f = Parsed incs /\ (p, a, b) ∈ incs /\
            resolves f the_libraries p None /\ ps_files s !! i = Some (f, u) /\
            r = report_of (IncludeError p (Some i) a b)
      | BadPragma =>
          exists f incs v,
            reachable (named argv) the_libraries f /\ content f = Parsed incs /\
            pragma f = Some v /\ version_supported v cv = false /\
            r = item_report (SIVersionError f v)
      | SeveralMains =>
          exists f g,
            f <> g /\ reachable (named argv) the_libraries f /\ reachable (named argv) the_libraries g /\
            parses f = true /\ parses g = true /\ has_main f = true /\ has_main g = true /\
            r = item_report SIMultipleMain
      | InvalidTupleOrAnonymous =>
          exists n body fid r0,
            ((In (n, body) the_templates /\
              Desugar.desugar_template (Desugar.env_of the_templates) (PM.pr_lib pr) body = Desugar.DErr r0) \/
             (In (n, body) the_functions /\
              exists rs, Desugar.check_function body = Desugar.DOk (Some rs) /\ In r0 rs)) /\
            body_in_file fid body /\ file_is_named (Z.of_N fid) /\
            r = item_report (SISugar r0)
      | DuplicateParameter =>
          exists dd,
            In dd (handed_on pr sd) /\ def_in_named_file dd /\
            LiftFull.is_block (PM.d_body dd) = true /\ ~ List.NoDup (PM.d_params dd) /\
            r = item_report (SILiftError dd LEParamCollision (PM.d_pfile dd))
      | LiftFailure =>
          exists dd e,
            In dd (handed_on pr sd) /\ def_in_named_file dd /\
            lift_outcome dd = Some e /\ e <> LEParamCollision /\
            (err_file dd = None \/ err_file dd = PM.d_pfile dd) /\
            r = item_report (SILiftError dd e (err_file dd))
      | DuplicateDefinition =>
          r_level r = Error /\ In r rest /\ exists z, In z (r_pfiles r) /\ file_is_named z
      end.

    (* every file the command line stands for was opened, read and parsed, and
       every include statement of it was served by a file that was read *)
    Definition all_named_read : Prop :=
      (forall p q, p ∈ argv -> ~ fails_to_open true p q) /\
      (forall f, reachable (named argv) the_libraries f -> content f <> Unreadable) /\
      (forall f, named argv f ->
         exists incs, content f = Parsed incs /\
           forall p a b, (p, a, b) ∈ incs ->
             exists c, resolves f the_libraries p (Some c) /\ c ∈ ps_read s).

    (* every file that was reached asks for a supported version (or none), at most one of them has a main
       component, and the desugarer hands on every template and function of the named files *)
    Definition all_stages_passed : Prop :=
      (forall f incs v, reachable (named argv) the_libraries f -> content f = Parsed incs ->
                        pragma f = Some v -> version_supported v cv = true) /\
      (forall f g, reachable (named argv) the_libraries f -> reachable (named argv) the_libraries g ->
                   parses f = true -> parses g = true -> has_main f = true -> has_main g = true -> f = g) /\
      (forall n body fid, In (n, body) the_templates -> body_in_file fid body -> file_is_named (Z.of_N fid) ->
                          In n (map fst (Desugar.d_templates sd))) /\
      (forall n body fid, In (n, body) the_functions -> body_in_file fid body -> file_is_named (Z.of_N fid) ->
                          In n (map fst (Desugar.d_functions sd))).
  End Event.

  (* ---- the events stated on the files that were read ---- *)
  Section Tied.
    Variable argv libs : list path.
    Variable s : parse_state (path:=path).
    (* what the parser yields for the files that parse: the line tables and, per file, its definitions in
       source order; [sd] is what the desugarer answers for the library made of them *)
    Variable lib : list (list N).
    Variable defs_of : path -> list PM.definition.
    Variable sd : Desugar.desugared.
    (* the reports of the stage no mirror covers (the anonymous-main check) *)
    Variable rest' : list Runner.report.

    Definition tied_all : list PM.definition := all_definitions content defs_of (ps_files s).
    Definition tied_program : PM.program := program_of lib tied_all.
    Definition tied_rest : list Runner.report := map item_report (merger_items tied_all) ++ rest'.

    Definition failure_event_tied (c : failure_class) (r : Runner.report) : Prop :=
      match c with
      | DuplicateDefinition =>
          exists l1 d1 l2 d2 l3,
            tied_all = l1 ++ d1 :: l2 ++ d2 :: l3 /\
            PM.d_name d1 = PM.d_name d2 /\
            (forall x, In x l1 -> PM.d_name x <> PM.d_name d1) /\
            (def_in_named_file argv s d1 \/ def_in_named_file argv s d2) /\
            r = item_report (SIDuplicate d2 d1)
      | _ => failure_event argv libs s tied_program sd tied_rest c r
      end.

    (* the parser's `Parameters::from(.., file_id, ..)`: the definitions of the i-th file carry the file id i *)
    Definition defs_file_ok : Prop :=
      forall i f u, ps_files s !! i = Some (f, u) -> parses f = true ->
        forall d, In d (defs_of f) -> PM.d_pfile d = Some (N.of_nat i).

    (* the parser's `FillMeta::fill(file_id, ..)`: every meta of a body lies in the file of the definition *)
    Definition bodies_in_file : Prop :=
      forall d fid, In d tied_all -> PM.d_pfile d = Some fid -> body_in_file fid (PM.d_body d).
  End Tied.
End NoSilentSpec.
