(* NoSilentSpec — what C02 demands, stated on the INPUTS of the two mirrors
   (the file system and the command line for Model.Includes; what lifting and
   the stages outside the mirrors produce for Model.Runner), not on the report
   collection: that the error report exists in the project handed to the runner
   is what the theorems of props/C02.v derive.

   [failure_event c r]: failure class [c] of the property text occurs, and [r]
   is the report the pipeline makes of it.  Per class the event is

   * MissingFile, UnreadableFile, SyntaxError, UnresolvedInclude — an event of
     the file system / of `open_file` + `parser_logic::parse_file`, the inputs
     of Model.Includes: a named path (or an entry of a named directory) that
     `fs::canonicalize` rejects; a file reached from the named ones whose
     content cannot be read; a named file that does not parse; an include
     statement of a named file that resolves nowhere.  [r] is what
     errors.rs makes of the model's report (Model.Front.report_of); nothing
     is assumed about the report collection.
   * DuplicateParameter, LiftFailure — the event of Model.Runner's input: the
     `Err(report)` of `generate_cfg` for a definition that lives in a named
     file ([d_err]); that it is error level and where it is located is
     observed (injection matrix).
   * BadPragma, SeveralMains, InvalidTupleOrAnonymous, DuplicateDefinition —
     produced by stages neither mirror covers (check_compiler_version, the
     main-component match of parse_files, syntax_sugar_remover,
     ProgramArchive::new): the report is a member of [others]; observed. *)
From Coq Require Import ZArith.
Require Import Gen.Category Model.Runner Spec.RunnerSpec.
From stdpp Require Import list.
Require Import Model.Includes Model.Front Spec.IncludesSpec.

Inductive failure_class :=
| MissingFile | UnreadableFile | SyntaxError | UnresolvedInclude
| DuplicateParameter | LiftFailure
| BadPragma | SeveralMains | InvalidTupleOrAnonymous | DuplicateDefinition.

(* which mirror produces the report of a class *)
Inductive producer := ByIncludes | ByLift | ByOtherStage.
Definition class_producer (c : failure_class) : producer :=
  match c with
  | MissingFile | UnreadableFile | SyntaxError | UnresolvedInclude => ByIncludes
  | DuplicateParameter | LiftFailure => ByLift
  | BadPragma | SeveralMains | InvalidTupleOrAnonymous | DuplicateDefinition => ByOtherStage
  end.

(* the form in which [failure_event] (below) states the report of a class: what
   Model.Front makes of an OS / parse / include error of Model.Includes, the
   `Err` of a definition of a named file, a member of [others] without primary
   label / with a primary label in a named file
   (Proofs.NoSilentProofs.failure_event_shape).  The class-table check of
   lib/props/C02.py reads [class_table] through the extracted driver
   (`model_front classes`) and looks for a report of that form in the ground
   truth of every unconditional injection. *)
Inductive report_shape :=
| ShOsError | ShParseError | ShIncludeError | ShLiftError | ShOtherUnlabelled | ShOtherInNamedFile.
Definition class_shape (c : failure_class) : report_shape :=
  match c with
  | MissingFile | UnreadableFile => ShOsError
  | SyntaxError => ShParseError
  | UnresolvedInclude => ShIncludeError
  | DuplicateParameter | LiftFailure => ShLiftError
  | BadPragma | SeveralMains => ShOtherUnlabelled
  | InvalidTupleOrAnonymous | DuplicateDefinition => ShOtherInNamedFile
  end.
Definition all_classes : list failure_class :=
  [ MissingFile; UnreadableFile; SyntaxError; UnresolvedInclude; DuplicateParameter; LiftFailure;
    BadPragma; SeveralMains; InvalidTupleOrAnonymous; DuplicateDefinition ].
Definition class_table : list (failure_class * producer * report_shape) :=
  map (fun c => (c, class_producer c, class_shape c)) all_classes.

Section NoSilentSpec.
  Context {path : Type}.
  Variable canon : path -> option path.
  Variable is_dir : path -> bool.
  Variable is_file : path -> bool.
  Variable read_dir : path -> option (list path).
  Variable join : path -> path -> path.
  Variable parent : path -> path.
  Variable file_name : path -> option path.
  Variable ext_circom : path -> bool.
  Variable starts_dot : path -> bool.
  Variable has_sep : path -> bool.
  Variable content : path -> file_content path.

  Variable pf_id pf_name : Z.
  Variable payload : Includes.report (path:=path) -> Z.

  Notation named := (named canon is_dir read_dir join ext_circom).
  Notation resolves := (resolves canon is_file join parent file_name starts_dot has_sep).
  Notation reachable := (reachable canon is_file join parent file_name starts_dot has_sep content).
  Notation report_of := (report_of pf_id pf_name payload).

  (* the path [q] is what the command-line path [p] (or an entry of the named
     directory [p], with the .circom suffix) stands for, and it cannot be
     canonicalised: it does not exist, a directory on the way cannot be
     searched, it is a dangling link *)
  Inductive fails_to_open : bool -> path -> path -> Prop :=
  | fto_file named p :
      is_dir p = false -> named || ext_circom p = true -> canon p = None -> fails_to_open named p p
  | fto_dir named p names n q :
      is_dir p = true -> read_dir p = Some names -> n ∈ names -> fails_to_open false (join p n) q ->
      fails_to_open named p q.

  Section Event.
    Variable argv libs : list path.
    Variable s : parse_state (path:=path).
    Variable others : list Runner.report.
    Variable defs : list def.

    Definition the_libraries : list library := (add_libraries canon is_dir ext_circom libs []).1.

    (* the file id [z] is the FileLibrary entry of a file the command line names *)
    Definition file_is_named (z : Z) : Prop :=
      exists i f u, z = Z.of_nat i /\ ps_files s !! i = Some (f, u) /\ named argv f.

    (* the report has no primary label, or one in a named file *)
    Definition not_in_included_only (r : Runner.report) : Prop :=
      r_pfiles r = [] \/ exists z, In z (r_pfiles r) /\ file_is_named z.

    Definition failure_event (c : failure_class) (r : Runner.report) : Prop :=
      match c with
      | MissingFile =>
          exists p q, p ∈ argv /\ fails_to_open true p q /\ r = report_of (FileOsError q)
      | UnreadableFile =>
          exists f, reachable (named argv) the_libraries f /\ content f = Unreadable /\
                    r = report_of (FileOsError f)
      | SyntaxError =>
          exists f i u, named argv f /\ content f = Unparsable /\ ps_files s !! i = Some (f, u) /\
                        r = report_of (ParsingError i)
      | UnresolvedInclude =>
          exists f incs p a b i u,
            named argv f /\ content f = Parsed incs /\ (p, a, b) ∈ incs /\
            resolves f the_libraries p None /\ ps_files s !! i = Some (f, u) /\
            r = report_of (IncludeError p (Some i) a b)
      | DuplicateParameter | LiftFailure =>
          r_level r = Error /\ not_in_included_only r /\
          exists d, In d defs /\ file_is_named (d_file d) /\ d_err d = Some r
      | BadPragma | SeveralMains =>
          r_level r = Error /\ In r others /\ r_pfiles r = []
      | InvalidTupleOrAnonymous | DuplicateDefinition =>
          r_level r = Error /\ In r others /\ exists z, In z (r_pfiles r) /\ file_is_named z
      end.

    (* every file the command line stands for was opened, read and parsed, and
       every include statement of it was served by a file that was read *)
    Definition all_named_read : Prop :=
      (forall p q, p ∈ argv -> ~ fails_to_open true p q) /\
      (forall f, reachable (named argv) the_libraries f -> content f <> Unreadable) /\
      (forall f, named argv f ->
         exists incs, content f = Parsed incs /\
           forall p a b, (p, a, b) ∈ incs ->
             exists c, resolves f the_libraries p (Some c) /\ c ∈ ps_read s).
  End Event.
End NoSilentSpec.
