(* The step relation of Spec.DegSem WITHOUT any immediate-dominator table (C07, third
   audit item 6): the conditions that may decide the edge along which a join is entered
   are named by path-based dominance alone (DegSem.decides_dom over Spec.SsaDomSpec.cdom /
   cidom).  Everything else is Spec.DegSem word for word.  Proofs.DegGraphIdom shows that
   on a graph with Model.DegGraph.graph_consistent, with a table that passes
   Model.DegGraph.idom_is_dominator_table, every store reachable here is reachable in
   Spec.DegSem - so the graph-level theorem can be stated about THIS relation, in which a
   wrong table has no place to hide. *)
From Coq Require Import ZArith List Bool.
Require Import Model.Base Model.Ir Model.Propagate Model.Justify Model.DegJustify Spec.PolyDeg Spec.SsaDomSpec Spec.DegSem.
Import ListNotations.
Local Open Scope Z_scope.

Section DegSemDom.
Variable V : Type.
Variable p : Z.
Variable sem2 : infix_op -> Z -> Z -> Z.
Variable sem1 : prefix_op -> Z -> Z.
Variable call_sem : ident -> list Z -> Z.
Variable name_code : ident -> Z.
Notation den := (den V p sem2 sem1 call_sem name_code).
Notation cond_fixed := (cond_fixed V p sem2 sem1 call_sem name_code).

(* the choice of a phi of the block at position ij may depend on the valuation only if a
   condition that decides_dom names is denotable and varies *)
Definition pick_ok_dom (c : cfg) (s : fstore V) (x : vname) (pick : V -> vname) : Prop :=
  forall ij b, nth_error (c_blocks c) ij = Some b ->
    (exists m op args k sv st, In (SSubst m x op (EPhi args k) sv st) (b_stmts b)) ->
    ((length (b_preds b) < 2)%nat \/ forall cond, decides_dom c ij b cond -> cond_fixed s cond) ->
    forall r r', pick r = pick r'.

Inductive fstep_dom (c : cfg) : fstore V -> fstore V -> Prop :=
| fsd_assign m x op rhe sv st F s :
    In (SSubst m x op rhe sv st) (all_stmts (c_blocks c)) -> decl_of c x = Some TLocal -> is_param c x = false ->
    is_phi_e rhe = false -> den s rhe = Some F -> fstep_dom c s (fupd V s x (Some F))
| fsd_phi m x op args k sv st (pick : V -> vname) s :
    In (SSubst m x op (EPhi args k) sv st) (all_stmts (c_blocks c)) -> decl_of c x = Some TLocal -> is_param c x = false ->
    (forall rho, In (pick rho) args) -> (forall rho, s (pick rho) <> None) ->
    pick_ok_dom c s x pick ->
    fstep_dom c s (fupd V s x (Some (phi_fam V s pick))).

Inductive freachable_dom (c : cfg) (s0 : fstore V) : fstore V -> Prop :=
| frd_init : freachable_dom c s0 s0
| frd_step s s' : freachable_dom c s0 s -> fstep_dom c s s' -> freachable_dom c s0 s'.
End DegSemDom.
