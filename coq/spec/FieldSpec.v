(* Circom's documented field semantics (circom docs, "Basic operators"), written
   independently of the implementation, in floor-division style.  The operands
   are canonical field elements 0 <= a, b < p.  One clause does not come from
   the documentation, which leaves the width of `~` open: the complement is
   taken on 256 bits and then reduced, as the circom compiler does (and as the
   property text says: "the 256-bit complement masked and reduced"). *)
From Coq Require Import ZArith Zpow_facts.
Require Import Model.Base Model.Field.
Local Open Scope Z_scope.

Definition b2z (b : bool) : Z := if b then 1 else 0.
Definition truthy (x : Z) : bool := negb (x =? 0).

(* signed representative in (-p/2, p/2] *)
Definition sval (x p : Z) : Z := if p / 2 + 1 <=? x then x - p else x.

(* number of bits of p *)
Definition nbits (p : Z) : Z := Z.log2 p + 1.

(* x >> k and x << k for a count in the "same direction" range 0 <= k <= p/2 *)
Definition shr_doc (x k : Z) : Z := x / 2 ^ k.
Definition shl_doc (x k p : Z) : Z := (Z.land (x * 2 ^ k) (2 ^ nbits p - 1)) mod p.

Definition spec (o : fop) (a b p : Z) : outcome Z :=
  match o with
  | OAdd => Ok ((a + b) mod p)
  | OMul => Ok ((a * b) mod p)
  | OSub => Ok ((a - b) mod p)
  | ODiv => if b =? 0 then Err EDivisionByZero
            else Ok ((a * Zpow_mod b (p - 2) p) mod p)   (* executable oracle only; see div_spec *)
  | OIDiv => if b =? 0 then Err EDivisionByZero else Ok (a / b)
  | OMod => if b =? 0 then Err EDivisionByZero else Ok (a mod b)
  | OPow => Ok (a ^ b mod p)
  | ONeg => Ok ((- a) mod p)
  | OCompl => Ok (((2 ^ 256 - 1) - a mod 2 ^ 256) mod p)
  | OShl => if b <=? p / 2 then Ok (shl_doc a b p) else Ok (shr_doc a (p - b))
  | OShr => if b <=? p / 2 then Ok (shr_doc a b) else Ok (shl_doc a (p - b) p)
  | OBor => Ok (Z.lor a b mod p)
  | OBand => Ok (Z.land a b mod p)
  | OBxor => Ok (Z.lxor a b mod p)
  | OAsBool => Ok (b2z (truthy a))
  | ONot => Ok (b2z (negb (truthy a)))
  | OOr => Ok (b2z (truthy a || truthy b))
  | OAnd => Ok (b2z (truthy a && truthy b))
  | OEq => Ok (b2z (a =? b))
  | OLt => Ok (b2z (sval a p <? sval b p))
  | ONeq => Ok (b2z (negb (a =? b)))
  | OLe => Ok (b2z (sval a p <=? sval b p))
  | OGt => Ok (b2z (sval b p <? sval a p))
  | OGe => Ok (b2z (sval b p <=? sval a p))
  end.

(* Division is specified relationally: the result is the canonical c with
   c * b = a (mod p); it exists for every non-zero b when p is prime. *)
Definition div_spec (a b p : Z) (r : outcome Z) : Prop :=
  match r with
  | Ok c => b <> 0 /\ 0 <= c < p /\ (c * b) mod p = a
  | Err EDivisionByZero => b = 0
  | _ => False
  end.

(* Computable variant used as the search oracle (2^k is never built for a
   count at or above the number of bits; proved equal to [spec] below the
   usize limit in Proofs.FieldProofs.spec_exec_correct). *)
Definition shr_exec (x k : Z) : Z := if Z.log2 x + 1 <=? k then 0 else x / 2 ^ k.
Definition shl_exec (x k p : Z) : Z := if nbits p <=? k then 0 else shl_doc x k p.
Definition spec_exec (o : fop) (a b p : Z) : outcome Z :=
  match o with
  | OShl => if b <=? p / 2 then Ok (shl_exec a b p) else Ok (shr_exec a (p - b))
  | OShr => if b <=? p / 2 then Ok (shr_exec a b) else Ok (shl_exec a (p - b) p)
  | OPow => Ok (Zpow_mod a b p)
  | _ => spec o a b p
  end.
