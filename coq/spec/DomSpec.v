(* Specification of dominance for C15, independent of the algorithm: paths,
   dominance as "lies on every entry-to-node path", immediate dominator,
   dominance frontier, rooted graphs; plus an executable reference
   (dominance by node deletion and reachability) used as the oracle of the
   violation search. *)
Require Import Model.Dom.
From stdpp Require Import list.

(* a -> b is an edge when b is listed among the successors of the node at
   position a *)
Definition edge (g : graph) (a b : nat) : Prop :=
  ∃ x, g !! a = Some x ∧ b ∈ succs x.

(* [path g a b l]: l is the list of nodes of a walk from a to b (both
   included), consecutive nodes joined by edges *)
Inductive path (g : graph) : nat → nat → list nat → Prop :=
| path_one a : a < length g → path g a a [a]
| path_cons a c b l : edge g a c → path g c b l → path g a b (a :: l).

(* i dominates j: i lies on every path from the entry (index 0) to j *)
Definition dom (g : graph) (i j : nat) : Prop := ∀ l, path g 0 j l → i ∈ l.
Definition sdom (g : graph) (i j : nat) : Prop := dom g i j ∧ i ≠ j.

(* i is the immediate dominator of j: the closest strict dominator, i.e. a
   strict dominator that every strict dominator of j dominates *)
Definition idom_spec (g : graph) (i j : nat) : Prop :=
  sdom g i j ∧ ∀ k, sdom g k j → dom g k i.

(* j is in the dominance frontier of i *)
Definition df_spec (g : graph) (i j : nat) : Prop :=
  (∃ x q, g !! j = Some x ∧ q ∈ preds x ∧ dom g i q) ∧ ¬ sdom g i j.

(* the graphs the property quantifies over *)
Record rooted (g : graph) : Prop := {
  rooted_nonempty : 0 < length g;
  rooted_succs : ∀ a x b, g !! a = Some x → b ∈ succs x → b < length g;
  rooted_preds : ∀ a x b, g !! a = Some x → b ∈ preds x → b < length g;
  rooted_mirror : ∀ a b xa xb, g !! a = Some xa → g !! b = Some xb →
                  (b ∈ succs xa ↔ a ∈ preds xb);
  rooted_entry : ∀ x, g !! 0 = Some x → preds x = [];
  rooted_reach : ∀ j, j < length g → ∃ l, path g 0 j l;
}.

(* ---- executable reference: dominance by deletion ---- *)
Definition succs_of (g : graph) (a : nat) : list nat :=
  match g !! a with Some x => succs x | None => [] end.
Definition preds_of (g : graph) (a : nat) : list nat :=
  match g !! a with Some x => preds x | None => [] end.

(* one round of reachability in the graph without the node [avoid] *)
Definition expand (g : graph) (avoid : nat) (vis : list nat) : list nat :=
  remove_dups (vis ++ filter (λ b, b ≠ avoid) (vis ≫= succs_of g)).

(* the nodes reachable from the entry without passing through [avoid] *)
Definition reach_avoiding (g : graph) (avoid : nat) : list nat :=
  Nat.iter (length g) (expand g avoid) (if decide (avoid = 0) then [] else [0]).

Definition dom_by_deletion (g : graph) (i j : nat) : bool :=
  bool_decide (i = j) || bool_decide (j ∉ reach_avoiding g i).

(* the same through a table computed once: row i = nodes reachable without i *)
Definition avoid_table (g : graph) : list (list nat) :=
  reach_avoiding g <$> seq 0 (length g).
Definition dom_t (T : list (list nat)) (i j : nat) : bool :=
  bool_decide (i = j) || bool_decide (j ∉ T !!! i).
Definition sdom_t (T : list (list nat)) (i j : nat) : bool :=
  dom_t T i j && bool_decide (i ≠ j).

(* row j lists the dominators of j *)
Definition spec_dominators (n : nat) (T : list (list nat)) : list (list nat) :=
  (λ j, filter (λ i, dom_t T i j = true) (seq 0 n)) <$> seq 0 n.

(* all i that satisfy the (bounded) definition of "immediate dominator of j" *)
Definition spec_idoms (n : nat) (T : list (list nat)) (j : nat) : list nat :=
  filter (λ i, sdom_t T i j = true ∧
               Forall (λ k, sdom_t T k j = true → dom_t T k i = true) (seq 0 n)) (seq 0 n).

Definition spec_idom (n : nat) (T : list (list nat)) : list (list nat) := spec_idoms n T <$> seq 0 n.

(* children of i: the nodes whose immediate dominator is i *)
Definition spec_children (n : nat) (I : list (list nat)) : list (list nat) :=
  (λ i, filter (λ j, i ∈ I !!! j) (seq 0 n)) <$> seq 0 n.

Definition spec_frontier (g : graph) (T : list (list nat)) : list (list nat) :=
  let n := length g in
  (λ i, filter (λ j, Exists (λ q, dom_t T i q = true) (preds_of g j) ∧
                     sdom_t T i j = false) (seq 0 n)) <$> seq 0 n.

(* executable form of [rooted] (for filtering the enumerated graphs) *)
Definition rooted_b (g : graph) : bool :=
  let n := length g in
  bool_decide (0 < n) &&
  forallb (λ x, forallb (λ b, bool_decide (b < n)) (succs x) &&
                forallb (λ b, bool_decide (b < n)) (preds x)) g &&
  forallb (λ a, forallb (λ b, bool_decide ((b ∈ succs_of g a) ↔ (a ∈ preds_of g b))) (seq 0 n)) (seq 0 n) &&
  bool_decide (preds_of g 0 = []) &&
  forallb (λ j, bool_decide (j ∈ reach_avoiding g n)) (seq 0 n).

(* the view of a computed dominator tree that is compared with the reference *)
Definition view (t : dom_tree) : list (list nat) * list (list nat) * list (list nat) * list (list nat) :=
  (members <$> dt_dominators t,
   (λ o : option nat, match o with Some j => [j] | None => [] end) <$> dt_idom t,
   members <$> dt_children t,
   members <$> dt_frontier t).

Definition spec_view (g : graph) :=
  let n := length g in
  let T := avoid_table g in
  let I := spec_idom n T in
  (spec_dominators n T, I, spec_children n I, spec_frontier g T).

(* ---- entry points of the engine `dom` (model driver) ---- *)
Definition run_mirror (ord : nat → list nat → list nat) (n : nat) (es : list (nat * nat)) :=
  let g := mk_graph n es in
  Base.omap view (dominator_tree (dom_fuel g) ord g).

(* None: the graph is not rooted (outside the property) *)
Definition run_spec (n : nat) (es : list (nat * nat)) :=
  let g := mk_graph n es in
  if rooted_b g then Some (spec_view g) else None.

(* the hash order of `for j in &idom_candidates`: any rearrangement *)
Definition order_ok (ord : nat → list nat → list nat) : Prop := ∀ i l, ord i l ≡ₚ l.
