(* Specification side of C09, fourth proof round: what the branch regions of the analysis must contain for the
   set of names tainted by an input/output signal to be closed under control dependence (Spec.CtlDep).

     region_covers br    every block that is control dependent on a block b with a non-constant branch, other
                         than b itself, is listed in the region (true or false side) that the table [br] gives
                         for b.  Nothing is said about b itself: a loop header is control dependent on itself and
                         is NOT in its own region (cfg.rs get_interval removes the end block).
     self_closed B       the remaining case: when b is control dependent on itself (a loop header) and a name of B
                         is read by its condition, the names written in b (the phi statements of the header) are
                         in B.  In the graphs of the analysis they are: the phi arguments that come round the loop
                         are written in the body, which is in the region; here it is a decidable condition on the
                         graph and the tainted set, a PART of ctl_closed_b (only pairs (b, b)).

   Both have decidable forms ([region_covers_b], [self_closed_b]); Proofs.CtlRegionProofs shows that they decide
   the propositions and that  region_covers br /\ self_closed es -> ctl_closed es  for the tainted set es of the
   mirror of run_taint_analysis run with the table br, on every graph with distinct block indices. *)
From Coq Require Import ZArith NArith List Bool Relations.
Require Import Model.Base Model.Ir Model.VarUse Model.Taint Spec.SsaEffects Spec.CtlDep.
Import ListNotations.

Section Reg.
  Variable g : cfg.
  Notation D := (c_decls g).
  Notation bs := (c_blocks g).

  (* blk has a branch whose condition is not a known constant (run_taint_analysis skips the others) *)
  Definition nonconst_branch (blk : block) : Prop :=
    exists m c t f, In (SIf m c t f) (b_stmts blk) /\ expr_val c = None.

  Definition region_covers (br : branches) : Prop :=
    forall blk yb, In blk bs -> In yb bs -> nonconst_branch blk ->
      ctl_dependent g (b_index blk) (b_index yb) -> b_index yb <> b_index blk ->
      In (b_index yb) (branch_blocks br (b_index blk)).

  Definition self_closed (B : list vname) : Prop :=
    forall blk yb m c t f r x,
      In blk bs -> In yb bs -> b_index yb = b_index blk ->
      In (SIf m c t f) (b_stmts blk) -> expr_val c = None -> In r (uses_names (expr_uses D c)) -> In r B ->
      ctl_dependent g (b_index blk) (b_index yb) -> In x (block_writes D yb) -> In x B.

  (* ---------- decidable forms ---------- *)
  Definition nonconst_branch_b (blk : block) : bool :=
    existsb (fun s => match s with
                      | SIf _ c _ _ => match expr_val c with None => true | Some _ => false end
                      | _ => false
                      end) (b_stmts blk).

  Definition region_covers_b (br : branches) : bool :=
    forallb (fun blk =>
      negb (nonconst_branch_b blk) ||
      forallb (fun yb =>
        negb (ctl_dependent_b g (b_index blk) (b_index yb)) ||
        N.eqb (b_index yb) (b_index blk) ||
        mem N.eqb (b_index yb) (branch_blocks br (b_index blk))) bs) bs.

  Definition self_closed_b (B : list vname) : bool :=
    forallb (fun blk =>
      forallb (fun s =>
        match s with
        | SIf _ c _ _ =>
          match expr_val c with
          | Some _ => true
          | None =>
            negb (existsb (fun r => vmem r B) (uses_names (expr_uses D c))) ||
            forallb (fun yb =>
              negb (N.eqb (b_index yb) (b_index blk)) ||
              negb (ctl_dependent_b g (b_index blk) (b_index yb)) ||
              forallb (fun x => vmem x B) (block_writes D yb)) bs
          end
        | _ => true
        end) (b_stmts blk)) bs.

  (* block indices are distinct (implied by BranchRegion.graph_closed: block k has index k) *)
  Fixpoint nodup_n (l : list N) : bool :=
    match l with
    | [] => true
    | x :: r => negb (mem N.eqb x r) && nodup_n r
    end.
  Definition indices_distinct_b : bool := nodup_n (map b_index bs).

  (* every block can reach a block in which execution can end (used by the structural part) *)
  Definition reaches_exit (a : N) : Prop := exists e, is_exit g e /\ clos_refl_trans N (edge g) a e.
  Definition reaches_exit_b (a : N) : bool :=
    match multi_step_refl N.eqb (all_succ_edges g) a with
    | Ok r => existsb (is_exit_b g) r
    | _ => false
    end.
  Definition all_reach_exit_b : bool := forallb (fun blk => reaches_exit_b (b_index blk)) bs.
End Reg.
