(* Specification side of C09: control dependence of the blocks of a cfg on a
   branch, in the classical post-dominance sense (Ferrante, Ottenstein, Warren),
   stated with paths, and what the taint relation must satisfy for "a
   constraint mentions an input or output signal" to include implicit flows.

   Nothing here mentions dominance frontiers, intervals or the branch regions
   of the analysis.

     edge a b            b is listed as a successor of block a
     is_exit e           execution can end in block e: it has no successor, or its branch has no false target
                         (the condition of a trailing `while` / `if` without `else`)
     escapes y a         some path from a to an exit avoids y (a itself included)
     postdom y a         ~ escapes y a: every path from a to an exit visits y
     ctl_dependent b y   y post-dominates a successor of b, and y does not
                         strictly post-dominate b: whether y is executed (once
                         more) is decided at b

     cdep r x            r is read by a non-constant condition at the end of a
                         block b, and x is written in a block that is control
                         dependent on b          (the implicit flow r -> x)
     idep                ddep \/ cdep            (information flow of the cfg)

   [ctl_closed B]: the set B of names is closed under cdep.  With B = the names
   the analysis finds tainted by an input or output signal this is what the
   branch regions have to achieve; it is FALSE when a region is computed too
   small and a name written in the missing blocks is tainted by nothing else.
   [ctl_closed_b] is its decidable form (evaluated by the model driver on every
   dumped graph); Proofs.CtlDepProofs shows ctl_closed_b = true -> ctl_closed. *)
From Coq Require Import ZArith NArith List Bool Relations.
Require Import Model.Base Model.Ir Model.VarUse Model.Taint Spec.SsaEffects.
Import ListNotations.

Section Ctl.
  Variable g : cfg.
  Notation D := (c_decls g).
  Notation bs := (c_blocks g).

  Definition edge (a b : N) : Prop :=
    exists blk, In blk bs /\ b_index blk = a /\ In b (b_succs blk).
  (* execution can end in blk (Spec.SsaEffects.ssa_prog halts): it has no successor, or a branch of it has no
     false target - none recorded and not exactly one successor besides the true target: the condition of a
     trailing `while` or of a trailing `if` without `else` (fourth proof round; until then only blocks without
     successor counted, and in a graph whose last statement is a loop NO block was an exit, every block
     post-dominated every block vacuously and the closure below was demanded of unrelated blocks) *)
  Definition falls_off (blk : block) : Prop :=
    b_succs blk = [] \/
    exists m c t, In (SIf m c t None) (b_stmts blk) /\
                  forall x, filter (fun y => negb (N.eqb y t)) (b_succs blk) <> [x].
  Definition is_exit (e : N) : Prop :=
    exists blk, In blk bs /\ b_index blk = e /\ falls_off blk.

  Definition edge_avoiding (y a b : N) : Prop := edge a b /\ a <> y /\ b <> y.
  Definition escapes (y a : N) : Prop :=
    a <> y /\ exists e, is_exit e /\ clos_refl_trans N (edge_avoiding y) a e.
  Definition postdom (y a : N) : Prop := ~ escapes y a.
  Definition ctl_dependent (b y : N) : Prop :=
    (exists s, edge b s /\ postdom y s) /\ (y = b \/ escapes y b).

  (* the implicit flow of a non-constant branch *)
  Definition cdep (r x : vname) : Prop :=
    exists blk m c t f yb,
      In blk bs /\ In (SIf m c t f) (b_stmts blk) /\ expr_val c = None /\
      In r (uses_names (expr_uses D c)) /\
      In yb bs /\ ctl_dependent (b_index blk) (b_index yb) /\ In x (block_writes D yb).

  Definition idep (r x : vname) : Prop := ddep g r x \/ cdep r x.

  Definition ctl_closed (B : list vname) : Prop := forall a b, In a B -> cdep a b -> In b B.

  (* ---------- decidable forms ---------- *)

  Definition all_succ_edges : list (N * N) :=
    flat_map (fun b => map (fun s => (b_index b, s)) (b_succs b)) bs.
  Definition avoiding_edges (y : N) : list (N * N) :=
    filter (fun e => negb (N.eqb (fst e) y) && negb (N.eqb (snd e) y)) all_succ_edges.
  Definition falls_off_b (blk : block) : bool :=
    match b_succs blk with
    | [] => true
    | _ => existsb (fun s => match s with
                             | SIf _ _ t None =>
                               match filter (fun y => negb (N.eqb y t)) (b_succs blk) with [_] => false | _ => true end
                             | _ => false
                             end) (b_stmts blk)
    end.
  Definition is_exit_b (e : N) : bool :=
    existsb (fun blk => N.eqb (b_index blk) e && falls_off_b blk) bs.
  Definition escapes_b (y a : N) : bool :=
    negb (N.eqb a y) &&
    match multi_step_refl N.eqb (avoiding_edges y) a with
    | Ok r => existsb is_exit_b r
    | _ => false
    end.
  Definition succs_b (b : N) : list N :=
    flat_map (fun blk => if N.eqb (b_index blk) b then b_succs blk else []) bs.
  Definition ctl_dependent_b (b y : N) : bool :=
    existsb (fun s => negb (escapes_b y s)) (succs_b b) && (N.eqb y b || escapes_b y b).

  Definition ctl_closed_b (B : list vname) : bool :=
    forallb (fun blk =>
      forallb (fun s =>
        match s with
        | SIf _ c _ _ =>
          match expr_val c with
          | Some _ => true
          | None =>
            negb (existsb (fun r => vmem r B) (uses_names (expr_uses D c))) ||
            forallb (fun yb =>
              negb (ctl_dependent_b (b_index blk) (b_index yb)) ||
              forallb (fun x => vmem x B) (block_writes D yb)) bs
          end
        | _ => true
        end) (b_stmts blk)) bs.

  (* statistics for the evidence: (branch block, dependent block) pairs *)
  Definition ctl_pairs : list (N * N) :=
    flat_map (fun blk =>
      match rev (b_stmts blk) with
      | SIf _ _ _ _ :: _ =>
        flat_map (fun yb => if ctl_dependent_b (b_index blk) (b_index yb) then [(b_index blk, b_index yb)] else []) bs
      | _ => []
      end) bs.
End Ctl.

(* "mentions an input or output signal", for a given notion of dependence *)
Definition mentions_by (g : cfg) (dep : vname -> vname -> Prop) (s : stmt) : Prop :=
  exists n sig, In n (stmt_used (c_decls g) s) /\ exported g sig /\ clos_refl_trans vname dep sig n.
Definition ment_sound_by (g : cfg) (dep : vname -> vname -> Prop) (ment : stmt -> bool) : Prop :=
  forall s, ment s = true -> mentions_by g dep s.
