(* RunnerSpec — what C03 / C02 / C17 demand of the report path, written
   without reference to the runner's caches, writers or filter functions (only
   the data types of Model.Runner are shared). *)
From Coq Require Import ZArith List Bool String Ascii Arith Permutation.
Require Import Model.Base Gen.Category Model.Runner.
Import ListNotations.

(* ---- the order of the message categories ------------------------------- *)

Definition rank (l : level) : nat := match l with Info => 0 | Warning => 1 | Error => 2 end.

(* FromStr: case-insensitive spellings of the three names, nothing else *)
Definition lower_ascii (c : ascii) : ascii :=
  let n := nat_of_ascii c in
  if (andb (65 <=? n) (n <=? 90))%nat then ascii_of_nat (n + 32) else c.
Fixpoint lower (s : string) : string :=
  match s with EmptyString => EmptyString | String c s' => String (lower_ascii c) (lower s') end.
Definition spec_from_str (s : string) : option level :=
  let l := lower s in
  if String.eqb l "info" then Some Info
  else if String.eqb l "warning" then Some Warning
  else if String.eqb l "error" then Some Error
  else None.
Definition option_level_eqb (a b : option level) : bool :=
  match a, b with
  | None, None => true
  | Some x, Some y => Nat.eqb (rank x) (rank y)
  | _, _ => false
  end.

(* ---- findings produced for a project ------------------------------------ *)

Definition in_user (user : list Z) (f : Z) : Prop := In f user.

Definition user_def_b (user : list Z) (d : def) : bool := existsb (Z.eqb (d_file d)) user.
Definition user_defs (p : project) : list def := filter (user_def_b (p_user p)) (p_defs p).

(* everything the stages produce for one definition: the reports of CFG/SSA
   generation, then either the error that aborted it or the pass reports *)
Definition produced_def (d : def) : list report :=
  d_lift d ++ match d_err d with Some e => [e] | None => d_pass d end.

(* every finding produced for the project: the parser's reports and the
   findings of every definition that lives in a user-specified file *)
Definition produced (p : project) : list report :=
  p_parse p ++ flat_map produced_def (user_defs p).

(* ---- which findings are to be displayed --------------------------------- *)

Definition located_only_in_included (user : list Z) (r : report) : Prop :=
  r_pfiles r <> [] /\ forall f, In f (r_pfiles r) -> ~ In f user.

(* level at least --level, id not in --allow, not located solely in a file
   that was only included *)
Definition keep (o : opts) (user : list Z) (r : report) : Prop :=
  (rank (o_level o) <= rank (r_level r))%nat /\
  ~ In (r_id r) (o_allow o) /\
  ~ located_only_in_included user r.

Definition keep_b (o : opts) (user : list Z) (r : report) : bool :=
  (rank (o_level o) <=? rank (r_level r))%nat &&
  negb (existsb (Z.eqb (r_id r)) (o_allow o)) &&
  negb (negb (match r_pfiles r with [] => true | _ => false end) &&
        forallb (fun f => negb (existsb (Z.eqb f) user)) (r_pfiles r)).

(* ---- well-formed inputs --------------------------------------------------- *)

(* the name maps are maps: one definition per (kind, name) *)
Definition wf_project (p : project) : Prop := NoDup (map d_key (p_defs p)).

(* the order in which main analyses the definitions: some enumeration of the
   names whose definition lives in a user file (HashMap order) *)
Definition analysis_order (p : project) (order : list key) : Prop :=
  Permutation order (map d_key (user_defs p)).

(* the most permissive options (nothing filtered by level or id) *)
Definition bottom (o : opts) : opts := mkOpts Info [] (o_verbose o) (o_sarif o).

(* ---- C02 ------------------------------------------------------------------ *)
(* The failure classes of the property text and the events by which they occur
   are in Spec.NoSilentSpec (stated on the inputs of Model.Includes and of this
   model, not on the report collection). *)

Definition is_error (r : report) : Prop := r_level r = Error.
