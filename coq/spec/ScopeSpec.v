(* Specification side of C10: lexical scope resolution, written without any
   renaming or version arithmetic and without the data structures of the pass.

   A declaration occurrence is identified by its name and its index among the
   declarations of that name in visit order (parameters first, counting from
   0): "the k-th declaration of x".

   The rule is the one of the property text -- "each use refers to the
   innermost enclosing declaration of that name that precedes it (block
   scoping, parameters outermost)" -- in the usual form of a static
   environment: the list of the declarations visible at a program point,
   innermost (latest) first.  A declaration extends the environment for the
   statements that FOLLOW it in the same scope; it is not visible in its own
   dimension expressions.  The environment at the end of a scope is thrown
   away: what a block, the body of a loop or a branch of a conditional
   declares is not visible after it (and a branch never sees what its sibling
   branch declared).  Only the per-name counters, which give declarations
   their identity, run on.

   Nothing here knows how the implementation scopes a loop body or a branch
   that is not a block.  In Circom such a body cannot declare anything (a
   declaration is only derivable inside `{ }` and in the header of a `for`,
   which the parser turns into a block); [branch_closed] states that shape and
   is the domain of the theorems that compare the pass with this resolver.
   Outside it the pass and the rule differ (C10_unbraced_declaration_leaks). *)
From Coq Require Import List NArith Arith Bool.
Require Import Model.Base Model.Ir Model.UniqueVars.
Import ListNotations.

Definition entry := (name * (nat * loc))%type.        (* name, index k, location *)

Fixpoint find_name {V} (n : name) (b : list (name * V)) : option V :=
  match b with
  | [] => None
  | (m, v) :: r => if ident_eqb n m then Some v else find_name n r
  end.

Definition count (n : name) (c : list (name * nat)) : nat :=
  match find_name n c with Some k => k | None => 0 end.

(* the declarations visible at a program point (innermost first) and, per name,
   the number of declarations met so far *)
Record scope := { visible : list entry; seen : list (name * nat) }.

Definition bind (n : name) (l : loc) (sc : scope) : scope :=
  let k := count n (seen sc) in
  {| visible := (n, (k, l)) :: visible sc; seen := (n, S k) :: seen sc |}.

(* the end of a scope entered at [outer]: its declarations are forgotten *)
Definition leave (outer inner : scope) : scope :=
  {| visible := visible outer; seen := seen inner |}.

(* an occurrence with the declaration index it denotes (None: not declared) *)
Definition rocc := (okind * name * option nat)%type.
(* (name, (k, loc) of the redeclaration, (k, loc) of the shadowed declaration) *)
Definition shadow := (name * (nat * loc) * (nat * loc))%type.

Definition use_occ (k : okind) (sc : scope) (n : name) : rocc :=
  (k, n, option_map fst (find_name n (visible sc))).

Section ResolveList.
  Context {S : Type} (f : ustmt -> S -> list rocc * list shadow * S).
  Fixpoint resolve_list (ss : list ustmt) (st : S) : list rocc * list shadow * S :=
    match ss with
    | [] => ([], [], st)
    | s :: r =>
      let '(o1, sh1, st1) := f s st in
      let '(o2, sh2, st2) := resolve_list r st1 in
      (o1 ++ o2, sh1 ++ sh2, st2)
    end.
End ResolveList.

Definition scoped (outer : scope) (r : list rocc * list shadow * scope) : list rocc * list shadow * scope :=
  let '(o, sh, inner) := r in (o, sh, leave outer inner).

Fixpoint resolve (s : ustmt) (sc : scope) : list rocc * list shadow * scope :=
  match s with
  | UDecl _ n l dims =>
    (map (use_occ OUse sc) dims ++ [(ODecl, n, Some (count n (seen sc)))],
     match find_name n (visible sc) with
     | Some prev => [(n, (count n (seen sc), l), prev)]
     | None => []
     end,
     bind n l sc)
  | USubst n uses => (use_occ OTarget sc n :: map (use_occ OUse sc) uses, [], sc)
  | UExpr _ uses => (map (use_occ OUse sc) uses, [], sc)
  | UInit ss => resolve_list resolve ss sc         (* `var a = 1, b = a`: part of the enclosing scope *)
  | UBlock ss => scoped sc (resolve_list resolve ss sc)
  | UWhile c b =>
    let '(o, sh, sc') := scoped sc (resolve b sc) in (map (use_occ OUse sc) c ++ o, sh, sc')
  | UIf c t e =>
    let '(o1, sh1, sc1) := scoped sc (resolve t sc) in
    match e with
    | None => (map (use_occ OUse sc) c ++ o1, sh1, sc1)
    | Some e0 =>
      let '(o2, sh2, sc2) := scoped sc1 (resolve e0 sc1) in
      (map (use_occ OUse sc) c ++ o1 ++ o2, sh1 ++ sh2, sc2)
    end
  end.

(* parameters are the outermost declarations, before the body *)
Definition initial (params : list name) (ploc : loc) : scope :=
  fold_left (fun sc p => bind p ploc sc) params {| visible := []; seen := [] |}.

Definition resolve_def (params : list name) (ploc : loc) (body : ustmt) : list rocc * list shadow :=
  fst (resolve body (initial params ploc)).

(* ------------------------------------------------------------------ *)
(* the shape of parsed programs                                        *)
(* ------------------------------------------------------------------ *)

(* the names a statement declares into the scope that contains it *)
Fixpoint open_decls (s : ustmt) : list name :=
  match s with
  | UBlock _ => []
  | UInit ss => flat_map open_decls ss
  | UDecl _ n _ _ => [n]
  | USubst _ _ | UExpr _ _ => []
  | UWhile _ b => open_decls b
  | UIf _ t e => open_decls t ++ match e with Some e0 => open_decls e0 | None => [] end
  end.

Definition no_open_decl (s : ustmt) : bool := match open_decls s with [] => true | _ => false end.

(* no loop body and no branch declares anything outside a block of its own *)
Fixpoint branch_closed (s : ustmt) : bool :=
  match s with
  | UBlock ss | UInit ss => forallb branch_closed ss
  | UDecl _ _ _ _ | USubst _ _ | UExpr _ _ => true
  | UWhile _ b => no_open_decl b && branch_closed b
  | UIf _ t e =>
    no_open_decl t && branch_closed t &&
    match e with Some e0 => no_open_decl e0 && branch_closed e0 | None => true end
  end.

(* ------------------------------------------------------------------ *)
(* vocabulary of the theorems                                          *)
(* ------------------------------------------------------------------ *)

(* the name the k-th declaration of n is expected to carry after the pass:
   the first declaration keeps its name, the (k+1)-th becomes n.k-1 *)
Definition vname_of (n : name) (k : nat) : name :=
  match k with 0 => n | S v => with_version_suffix n v end.

(* the same as a lifted (name, suffix) pair *)
Definition lifted_of (n : name) (k : nat) : vname :=
  {| vn_name := n; vn_suffix := match k with 0 => None | S v => Some (show_nat v) end; vn_version := None |}.

(* expected renamed occurrence / expected report of a resolver output *)
Definition ren_of (r : rocc) : okind * name :=
  let '(k, n, d) := r in (k, match d with Some j => vname_of n j | None => n end).
Definition report_of (s : shadow) : report :=
  let '(n, (_, l), (_, l')) := s in Shadowing n l l'.

(* the names of the declaration occurrences of an occurrence list *)
Definition decl_names (o : list (okind * name)) : list name :=
  flat_map (fun r : okind * name => match r with (ODecl, n) => [n] | _ => [] end) o.

(* the names a statement declares *)
Fixpoint declared (s : ustmt) : list name :=
  match s with
  | UBlock ss | UInit ss => flat_map declared ss
  | UDecl _ n _ _ => [n]
  | USubst _ _ | UExpr _ _ => []
  | UWhile _ b => declared b
  | UIf _ t e => declared t ++ match e with Some e0 => declared e0 | None => [] end
  end.

Definition nodot (n : name) : Prop := ~ In dot n.
