(* Specification side of C10: lexical scope resolution, written without any
   renaming or version arithmetic.

   A declaration occurrence is identified by its name and its index among the
   declarations of that name in visit order (parameters first, counting from
   0): "the k-th declaration of x".  The resolver keeps the textbook scoped
   symbol table (a stack of blocks, innermost first) and, per name, the number
   of declarations seen so far.  It maps every variable occurrence to the
   declaration it denotes -- innermost enclosing block first, parameters
   outermost, a declaration visible from its own position on and not yet in
   its own dimension expressions -- and lists the declarations that redeclare
   a name visible at that point, with the declaration they shadow. *)
From Coq Require Import List NArith Arith Bool.
Require Import Model.Base Model.Ir Model.UniqueVars.
Import ListNotations.

Definition entry := (name * (nat * loc))%type.        (* name, index k, location *)
Record sstate := { sstack : list (list entry); scount : list (name * nat) }.

Fixpoint find_name {V} (n : name) (b : list (name * V)) : option V :=
  match b with
  | [] => None
  | (m, v) :: r => if ident_eqb n m then Some v else find_name n r
  end.

(* innermost block first *)
Fixpoint lookup (n : name) (stk : list (list entry)) : option (nat * loc) :=
  match stk with
  | [] => None
  | b :: r => match find_name n b with Some d => Some d | None => lookup n r end
  end.

Definition count (n : name) (c : list (name * nat)) : nat :=
  match find_name n c with Some k => k | None => 0 end.

Definition push (st : sstate) : sstate := {| sstack := [] :: sstack st; scount := scount st |}.
Definition pop (st : sstate) : sstate := {| sstack := tl (sstack st); scount := scount st |}.
Definition declare (n : name) (l : loc) (st : sstate) : sstate :=
  let k := count n (scount st) in
  {| sstack := match sstack st with b :: r => ((n, (k, l)) :: b) :: r | [] => [[(n, (k, l))]] end;
     scount := (n, S k) :: scount st |}.

(* an occurrence with the declaration index it denotes (None: not declared) *)
Definition rocc := (okind * name * option nat)%type.
(* (name, (k, loc) of the redeclaration, (k, loc) of the shadowed declaration) *)
Definition shadow := (name * (nat * loc) * (nat * loc))%type.

Definition use_occ (k : okind) (st : sstate) (n : name) : rocc :=
  (k, n, option_map fst (lookup n (sstack st))).

Section ResolveList.
  Context (f : ustmt -> sstate -> list rocc * list shadow * sstate).
  Fixpoint resolve_list (ss : list ustmt) (st : sstate) : list rocc * list shadow * sstate :=
    match ss with
    | [] => ([], [], st)
    | s :: r =>
      let '(o1, sh1, st1) := f s st in
      let '(o2, sh2, st2) := resolve_list r st1 in
      (o1 ++ o2, sh1 ++ sh2, st2)
    end.
End ResolveList.

Fixpoint resolve (s : ustmt) (st : sstate) : list rocc * list shadow * sstate :=
  match s with
  | UDecl _ n l dims =>
    (map (use_occ OUse st) dims ++ [(ODecl, n, Some (count n (scount st)))],
     match lookup n (sstack st) with
     | Some prev => [(n, (count n (scount st), l), prev)]
     | None => []
     end,
     declare n l st)
  | USubst n uses => (use_occ OTarget st n :: map (use_occ OUse st) uses, [], st)
  | UExpr _ uses => (map (use_occ OUse st) uses, [], st)
  | UInit ss => resolve_list resolve ss st
  | UBlock ss => let '(o, sh, st') := resolve_list resolve ss (push st) in (o, sh, pop st')
  | UWhile c b => let '(o, sh, st') := resolve b st in (map (use_occ OUse st) c ++ o, sh, st')
  | UIf c t e =>
    let '(o1, sh1, st1) := resolve t st in
    match e with
    | None => (map (use_occ OUse st) c ++ o1, sh1, st1)
    | Some e0 =>
      let '(o2, sh2, st2) := resolve e0 st1 in
      (map (use_occ OUse st) c ++ o1 ++ o2, sh1 ++ sh2, st2)
    end
  end.

(* parameters are declared in the outermost block, before the body *)
Definition initial (params : list name) (ploc : loc) : sstate :=
  fold_left (fun st p => declare p ploc st) params {| sstack := [[]]; scount := [] |}.

Definition resolve_def (params : list name) (ploc : loc) (body : ustmt) : list rocc * list shadow :=
  fst (resolve body (initial params ploc)).

(* ------------------------------------------------------------------ *)
(* vocabulary of the theorems                                          *)
(* ------------------------------------------------------------------ *)

(* the name the k-th declaration of n is expected to carry after the pass:
   the first declaration keeps its name, the (k+1)-th becomes n.k-1 *)
Definition vname_of (n : name) (k : nat) : name :=
  match k with 0 => n | S v => with_version_suffix n v end.

(* the same as a lifted (name, suffix) pair *)
Definition lifted_of (n : name) (k : nat) : vname :=
  {| vn_name := n; vn_suffix := match k with 0 => None | S v => Some (show_nat v) end; vn_version := None |}.

(* expected renamed occurrence / expected report of a resolver output *)
Definition ren_of (r : rocc) : okind * name :=
  let '(k, n, d) := r in (k, match d with Some j => vname_of n j | None => n end).
Definition report_of (s : shadow) : report :=
  let '(n, (_, l), (_, l')) := s in Shadowing n l l'.

(* the names of the declaration occurrences of an occurrence list *)
Definition decl_names (o : list (okind * name)) : list name :=
  flat_map (fun r : okind * name => match r with (ODecl, n) => [n] | _ => [] end) o.

(* the names a statement declares *)
Fixpoint declared (s : ustmt) : list name :=
  match s with
  | UBlock ss | UInit ss => flat_map declared ss
  | UDecl _ n _ _ => [n]
  | USubst _ _ | UExpr _ _ => []
  | UWhile _ b => declared b
  | UIf _ t e => declared t ++ match e with Some e0 => declared e0 | None => [] end
  end.

Definition nodot (n : name) : Prop := ~ In dot n.
