(* Renaming of variables in the syntax trees (C18): what "up to the choice of the
   introduced names" means.  [ren_s f s] applies [f] to every name that DECLARES or
   REFERS TO a variable, signal or component of the enclosing definition: the name
   of a [Variable_] node, the assigned name of a [Substitution], the declared name
   of a [Declaration].  Template and function identifiers of calls, the signal
   names of component accesses (`c.in`: they belong to the callee) and the input
   names of anonymous components are left alone.  For an injective [f] this is
   alpha-renaming. *)
From Coq Require Import ZArith NArith List Bool String.
Require Import Model.Ast.
Import ListNotations.

Section Rename.
  Variable f : string -> string.

  Fixpoint ren_e (e : expression) : expression :=
    match e with
    | InfixOp m l o r => InfixOp m (ren_e l) o (ren_e r)
    | PrefixOp m o r => PrefixOp m o (ren_e r)
    | InlineSwitchOp m c t e' => InlineSwitchOp m (ren_e c) (ren_e t) (ren_e e')
    | ParallelOp m r => ParallelOp m (ren_e r)
    | Variable_ m n acc =>
        Variable_ m (f n)
          (map (fun a => match a with
                         | ArrayAccess i => ArrayAccess (ren_e i)
                         | ComponentAccess s => ComponentAccess s
                         end) acc)
    | Number m v => Number m v
    | Call m id args => Call m id (map ren_e args)
    | AnonymousComponent m id p ps ss names => AnonymousComponent m id p (map ren_e ps) (map ren_e ss) names
    | ArrayInLine m vs => ArrayInLine m (map ren_e vs)
    | Tuple m vs => Tuple m (map ren_e vs)
    end.

  Definition ren_a (a : access) : access :=
    match a with
    | ArrayAccess i => ArrayAccess (ren_e i)
    | ComponentAccess s => ComponentAccess s
    end.

  Definition ren_log (a : log_argument) : log_argument :=
    match a with LogStr s => LogStr s | LogExp e => LogExp (ren_e e) end.

  Fixpoint ren_s (s : statement) : statement :=
    match s with
    | IfThenElse m c i e =>
        IfThenElse m (ren_e c) (ren_s i) (match e with Some x => Some (ren_s x) | None => None end)
    | While m c b => While m (ren_e c) (ren_s b)
    | Return m v => Return m (ren_e v)
    | InitializationBlock m t l => InitializationBlock m t (map ren_s l)
    | Declaration m t n dims c => Declaration m t (f n) (map ren_e dims) c
    | Substitution m v acc o r => Substitution m (f v) (map ren_a acc) o (ren_e r)
    | MultiSubstitution m l o r => MultiSubstitution m (ren_e l) o (ren_e r)
    | ConstraintEquality m l r => ConstraintEquality m (ren_e l) (ren_e r)
    | LogCall m args => LogCall m (map ren_log args)
    | Block m l => Block m (map ren_s l)
    | Assert m a => Assert m (ren_e a)
    end.
End Rename.

(* the names a definition body uses for its own variables, signals and components *)
Fixpoint expr_names (e : expression) : list string :=
  match e with
  | InfixOp _ l _ r => expr_names l ++ expr_names r
  | PrefixOp _ _ r => expr_names r
  | InlineSwitchOp _ c t e' => expr_names c ++ expr_names t ++ expr_names e'
  | ParallelOp _ r => expr_names r
  | Variable_ _ n acc =>
      n :: flat_map (fun a => match a with ArrayAccess i => expr_names i | ComponentAccess _ => [] end) acc
  | Number _ _ => []
  | Call _ _ args => flat_map expr_names args
  | AnonymousComponent _ _ _ ps ss _ => flat_map expr_names ps ++ flat_map expr_names ss
  | ArrayInLine _ vs => flat_map expr_names vs
  | Tuple _ vs => flat_map expr_names vs
  end.

Definition access_names (acc : list access) : list string :=
  flat_map (fun a => match a with ArrayAccess i => expr_names i | ComponentAccess _ => [] end) acc.

Fixpoint stmt_names (s : statement) : list string :=
  match s with
  | IfThenElse _ c i e => expr_names c ++ stmt_names i ++ match e with Some x => stmt_names x | None => [] end
  | While _ c b => expr_names c ++ stmt_names b
  | Return _ v => expr_names v
  | InitializationBlock _ _ l => flat_map stmt_names l
  | Declaration _ _ n dims _ => n :: flat_map expr_names dims
  | Substitution _ v acc _ r => v :: access_names acc ++ expr_names r
  | MultiSubstitution _ l _ r => expr_names l ++ expr_names r
  | ConstraintEquality _ l r => expr_names l ++ expr_names r
  | LogCall _ args => flat_map (fun a => match a with LogExp e => expr_names e | LogStr _ => [] end) args
  | Block _ l => flat_map stmt_names l
  | Assert _ a => expr_names a
  end.

(* [f] renames none of the names the body itself uses *)
Definition fixes_names (f : string -> string) (body : statement) : Prop :=
  forall x, In x (stmt_names body) -> f x = x.

(* [f] identifies no two names of [l] *)
Definition inj_on (f : string -> string) (l : list string) : Prop :=
  forall x y, In x l -> In y l -> f x = f y -> x = y.
