(* C09, location faithfulness: what "the statement that defines an SSA name" means,
   independently of the taint analysis' definitions map.
   Definitions only. *)
From Coq Require Import ZArith NArith List Bool.
Require Import Model.Base Model.Ir.
Import ListNotations.

(* every statement of the graph: blocks in the order of the block list, statements in block order
   (the order in which run_taint_analysis visits them) *)
Definition cfg_stmts (g : cfg) : list stmt := flat_map b_stmts (c_blocks g).

Definition is_phi_expr (e : expr) : bool := match e with EPhi _ _ => true | _ => false end.

(* [s] is an assignment to [x] (`=`, `<--` or `<==`) that is not a phi statement and whose target has
   a known type (an assignment with unknown type knowledge writes nothing in `cache_variable_use`) *)
Definition is_def_of (x : vname) (s : stmt) : bool :=
  match s with
  | SSubst _ v _ rhe _ (Some _) => vname_eqb v x && negb (is_phi_expr rhe)
  | _ => false
  end.
