(* Specification side of C09, instance: the execution of an SSA control-flow
   graph (Model.Ir) as a program of Spec.NiSpec, and which of its steps are
   effects in the sense of the property:

     a value assigned to an input or output signal      observable assignment
     a constraint (=== or <==) mentioning such a signal  observable emit / assignment
     an assertion, a return value, the dimensions of a
     declaration                                          observable emit
     a branch decision                                    branch

   Values are abstract: the meaning of numbers, operators, calls, arrays, array
   access / update and phi nodes are parameters about which nothing is assumed
   (a phi may consult the history of program points, i.e. pick the most
   recently written of its arguments).  A name without a declared type has no
   cell: reading it yields a fixed value and assigning it is a silent step
   (Circom rejects such programs; the analysis ignores such names).

   "Mentions an input or output signal": the statement uses a name that an
   input or output signal reaches through data dependences (read -> written of
   the assignments of the cfg); the semantics takes the set of mentioning
   statements as a boolean predicate [ment] that must be sound w.r.t. that
   relation (choosing it exact gives the full set of effects). *)
From Coq Require Import ZArith NArith List Bool Relations.
Require Import Model.Base Model.Ir Model.VarUse Spec.NiSpec.
Import ListNotations.

Definition pcT := option (N * nat).

Definition vname_eq_dec (a b : vname) : {a = b} + {a <> b}.
Proof.
  decide equality.
  - decide equality. apply N.eq_dec.
  - decide equality. apply list_eq_dec, N.eq_dec.
  - apply list_eq_dec, N.eq_dec.
Defined.

Section Sem.
  Variable V : Type.
  Variable sem_num : Z -> V.
  Variable sem_infix : infix_op -> V -> V -> V.
  Variable sem_prefix : prefix_op -> V -> V.
  Variable sem_switch : V -> V -> V -> V.
  Variable sem_call : ident -> list V -> V.
  Variable sem_array : list V -> V.
  Variable sem_access : V -> list (access V) -> V.
  Variable sem_update : V -> list (access V) -> V -> V.
  Variable sem_phi : list pcT -> list (vname * V) -> V.
  Variable sem_undef : V.
  Variable truthy : V -> bool.

  Variable g : cfg.
  Variable ment : stmt -> bool.

  Notation D := (c_decls g).
  Notation store := (vname -> V).

  Definition rd (s : store) (v : vname) : V :=
    match type_of D v with Some _ => s v | None => sem_undef end.

  Fixpoint eval (h : list pcT) (s : store) (e : expr) {struct e} : V :=
    let fix eval_list (es : list expr) {struct es} : list V :=
      match es with [] => [] | x :: r => eval h s x :: eval_list r end in
    let fix eval_acc (acc : list (access expr)) {struct acc} : list (access V) :=
      match acc with
      | [] => []
      | AIdx i :: r => AIdx (eval h s i) :: eval_acc r
      | AComp n :: r => AComp n :: eval_acc r
      end in
    match e with
    | ENum z _ => sem_num z
    | EVar v _ => rd s v
    | EInfix op l r _ => sem_infix op (eval h s l) (eval h s r)
    | EPrefix op x _ => sem_prefix op (eval h s x)
    | ESwitch c t f _ => sem_switch (eval h s c) (eval h s t) (eval h s f)
    | ECall n args _ => sem_call n (eval_list args)
    | EArray vs _ => sem_array (eval_list vs)
    | EAccess v acc _ => sem_access (rd s v) (eval_acc acc)
    | EUpdate v acc rhe _ => sem_update (rd s v) (eval_acc acc) (eval h s rhe)
    | EPhi args _ => sem_phi h (map (fun a => (a, s a)) args)
    end.

  Definition is_exported_type (t : option vtype) : bool :=
    match t with Some TSigIn | Some TSigOut => true | _ => false end.

  Definition constraint_like (s : stmt) : bool :=
    match s with
    | SCeq _ _ _ => true
    | SSubst _ _ OpCSig _ _ _ => true
    | _ => false
    end.

  Definition find_block (i : N) : option block := find (fun b => N.eqb (b_index b) i) (c_blocks g).

  Definition false_target (blk : block) (t : N) (f : option N) : pcT :=
    match f with
    | Some x => Some (x, O)
    | None => match filter (fun x => negb (N.eqb x t)) (b_succs blk) with
              | [x] => Some (x, O)
              | _ => None
              end
    end.

  Definition stmt_instr (blk : block) (k : nat) (s : stmt) : instr vname V pcT :=
    let next : pcT := Some (b_index blk, S k) in
    match s with
    | SSubst _ v _ rhe _ stype =>
      match stype with
      | None => IEmit [] false next
      | Some _ =>
        IAssign v (stmt_reads D s) (fun h st => eval h st rhe)
                (is_exported_type (type_of D v) || (constraint_like s && ment s)) next
      end
    | SDecl _ _ _ _ => IEmit (stmt_reads D s) true next
    | SIf _ c t f => IBranch (stmt_reads D s) (fun h st => truthy (eval h st c)) (Some (t, O)) (false_target blk t f)
    | SRet _ _ => IEmit (stmt_reads D s) true None
    | SAssert _ _ => IEmit (stmt_reads D s) true next
    | SCeq _ _ _ => IEmit (stmt_reads D s) (ment s) next
    | SLog _ _ => IEmit [] false next
    end.

  Definition ssa_prog : prog vname V pcT :=
    fun pc =>
      match pc with
      | None => IHalt
      | Some (i, k) =>
        match find_block i with
        | None => IHalt
        | Some blk =>
          match nth_error (b_stmts blk) k with
          | Some s => stmt_instr blk k s
          | None => match b_succs blk with
                    | [x] => IEmit [] false (Some (x, O))
                    | _ => IHalt
                    end
          end
        end
      end.

  (* data dependence of the cfg: read -> written of an assignment to a declared name *)
  Definition ddep (r x : vname) : Prop :=
    exists blk s m op rhe sv st,
      In blk (c_blocks g) /\ In s (b_stmts blk) /\ s = SSubst m x op rhe sv (Some st) /\ In r (stmt_reads D s).

  Definition exported (n : vname) : Prop :=
    exists t, In (n, t) D /\ (t = TSigIn \/ t = TSigOut).

  Definition mentions (s : stmt) : Prop :=
    exists n sig, In n (stmt_used D s) /\ exported sig /\ clos_refl_trans vname ddep sig n.

  Definition ment_sound : Prop := forall s, ment s = true -> mentions s.
End Sem.
