(* C16: what Circom defines for a closed expression over literals, written
   from the language documentation and independently of the dispatch code.

   Every operator works on field elements; a literal denotes its residue;
   comparisons and boolean operators yield 0 or 1; an operator applied to an
   undefined operand, a division, integer division or remainder by zero is
   undefined (the program is rejected at compile time), here [Err].  Which
   documented operation a surface operator denotes is fixed by [doc_infix] /
   [doc_prefix]; the implementation's own table (Model.Propagate.infix_values)
   is not consulted. *)
From Coq Require Import ZArith Zpow_facts List Bool.
Require Import Model.Base Model.Field Model.Ir Model.FieldDispatch Spec.FieldSpec.
Local Open Scope Z_scope.

Definition doc_infix (op : infix_op) : fop :=
  match op with
  | IMul => OMul | IDiv => ODiv | IAdd => OAdd | ISub => OSub | IPow => OPow
  | IIntDiv => OIDiv | IMod => OMod | IShl => OShl | IShr => OShr
  | ILe => OLe | IGe => OGe | ILt => OLt | IGt => OGt | IEq => OEq | INeq => ONeq
  | IOr => OOr | IAnd => OAnd | IBor => OBor | IBand => OBand | IBxor => OBxor
  end.

Definition doc_prefix (op : prefix_op) : fop :=
  match op with PNot => ONot | PNeg => ONeg | PCompl => OCompl end.

(* value of `a op b`; division is specified relationally (the canonical c with
   c * b = a mod p), everything else by Spec.FieldSpec.spec *)
Definition doc_infix_sem (op : infix_op) (a b p v : Z) : Prop :=
  match op with
  | IDiv => b <> 0 /\ 0 <= v < p /\ (v * b) mod p = a
  | _ => spec (doc_infix op) a b p = Ok v
  end.

Definition doc_prefix_sem (op : prefix_op) (a p v : Z) : Prop :=
  spec (doc_prefix op) a 0 p = Ok v.

(* [doc_sem p e v]: the closed expression e has the value v *)
Fixpoint doc_sem (p : Z) (e : lexpr) (v : Z) : Prop :=
  match e with
  | LNum z => v = z mod p
  | LInfix op l r => exists a b, doc_sem p l a /\ doc_sem p r b /\ doc_infix_sem op a b p v
  | LPrefix op x => exists a, doc_sem p x a /\ doc_prefix_sem op a p v
  end.

(* a constant the implementation attached is right for the value v:
   booleans stand for 0 / 1 *)
Definition const_ok (c : vred) (v : Z) : Prop :=
  match c with VField z => v = z | VBool b => v = b2z b end.

(* literals are written without a sign *)
Fixpoint lits_nonneg (e : lexpr) : Prop :=
  match e with
  | LNum z => 0 <= z
  | LInfix _ l r => lits_nonneg l /\ lits_nonneg r
  | LPrefix _ x => lits_nonneg x
  end.

(* Executable variant used by the violation search: shifts without building
   the power of two (Spec.FieldSpec.spec_exec); the quotient is the candidate
   a * b^(p-2) suggested by Fermat's little theorem, CHECKED against the
   defining equation, so that its correctness does not rest on that theorem
   ([Err (EOther 1)] when the check fails, which a prime modulus never
   produces and the search reports as a fault of the machinery). *)
Definition doc_div (a b p : Z) : outcome Z :=
  if b =? 0 then Err EDivisionByZero
  else let c := (a * Zpow_mod b (p - 2) p) mod p in
       if (c * b) mod p =? a then Ok c else Err (EOther 1).

Fixpoint doc_eval (p : Z) (e : lexpr) : outcome Z :=
  match e with
  | LNum z => Ok (z mod p)
  | LInfix op l r =>
    a <- doc_eval p l ;;
    b <- doc_eval p r ;;
    match op with
    | IDiv => doc_div a b p
    | _ => spec_exec (doc_infix op) a b p
    end
  | LPrefix op x =>
    a <- doc_eval p x ;;
    spec_exec (doc_prefix op) a 0 p
  end.

(* ---- vocabulary of the pass-loop theorem (second audit) -------------------
   [annotated p e x]: x is the IR tree of the closed expression e
   (Model.FieldDispatch.to_expr e up to the knowledge slots) and EVERY node of
   x carries exactly what the bottom-up dispatch computes for the corresponding
   sub-expression: the constant, or no constant. *)
Fixpoint ann (P : lexpr -> know -> Prop) (e : lexpr) (x : expr) : Prop :=
  match e, x with
  | LNum z, ENum z' k => z' = z /\ P (LNum z) k
  | LInfix op l r, EInfix op' l' r' k => op' = op /\ ann P l l' /\ ann P r r' /\ P (LInfix op l r) k
  | LPrefix op a, EPrefix op' a' k => op' = op /\ ann P a a' /\ P (LPrefix op a) k
  | _, _ => False
  end.

Definition annotated (p : Z) : lexpr -> expr -> Prop :=
  ann (fun e k => lit_dispatch p e = Ok (kval k)).

