(* Semantics against which degree claims are judged at graph level (C07).
   Every cell holds its value AS A FUNCTION OF THE VALUATION of the
   indeterminates (signals, component ports; parameters of functions), and, for
   arrays, of the position: a cell is a FAMILY  index list -> valuation -> Z
   (a scalar is a family that ignores the index; an element that was never
   assigned is 0).  Signals and component ports are independent indeterminates
   whatever is assigned to them, template parameters are constants.
     - an inline array [e0, e1, ..] is the family  j :: rest |-> e_j at rest,
     - an access x[i1]..[ik] selects, for every valuation, the sub-family at the
       values of the index expressions (a component port c.name is selected by
       an arbitrary code of the name: nothing depends on which),
     - an element-wise update replaces the sub-family at the index values.
   WHAT KIND OF SEMANTICS THIS IS.  A LOCK-STEP SYMBOLIC relation over families: one
   step fires ONE statement of the graph for ALL valuations at once; there is no
   program counter (any statement may fire at any time, any number of times).  An
   assignment to a local stores the denotation of its right-hand side; a phi copies,
   for every valuation, one of its arguments, and the choice may depend on the
   valuation exactly when a branch condition that can decide along which edge the
   block is entered is denotable and varies with the valuation in the current store
   (signal-dependent control included: since /repo D18 the analysis accounts for it).
   There is no rule that makes a cell opaque.

   WHAT RELATES IT TO EXECUTIONS (third audit).  Spec.DegRun is the concrete semantics
   for one valuation.  PROVED (Proofs.DegRunProofs, Props.C07): every family of concrete
   runs, one per valuation, that follow the same path of blocks is represented by a
   store reachable here.  NOT PROVED: families whose paths differ (see the header of
   props/C07.v, "NOT PROVED - OPEN"); for those the relation has the room (the phi
   choice may vary under a varying decider), the graph part of the justification is
   Props.C07.C07_lifted_split_is_named_by_decides, the rest is argued below.

   WHAT IS ASSUMED OF THE TABLE.  [idom] is any table; [decides] walks it.  With the
   true immediate-dominator table of a consistent graph (Model.DegGraph, evaluated per
   graph) [decides] is [decides_dom], stated on paths alone (Proofs.DegGraphIdom). *)
From Coq Require Import ZArith List Bool.
Require Import Model.Base Model.Ir Model.Propagate Model.Justify Model.DegJustify Spec.PolyDeg Spec.SsaDomSpec.
Import ListNotations.
Local Open Scope Z_scope.

Section DegSem.
Variable V : Type.
Variable p : Z.
Variable sem2 : infix_op -> Z -> Z -> Z.      (* value of `a op b` *)
Variable sem1 : prefix_op -> Z -> Z.
Variable call_sem : ident -> list Z -> Z.     (* functions are functions of their arguments *)
Variable name_code : ident -> Z.              (* position of a component port *)

Definition fam := list Z -> V -> Z.
Definition fstore := vname -> option fam.
Definition zero_fam : fam := fun _ _ => 0.

Definition fupd (s : fstore) (x : vname) (F : option fam) : fstore :=
  fun y => if vname_eqb x y then F else s y.

(* i = a ++ rest *)
Fixpoint prefix_of (a i : list Z) : option (list Z) :=
  match a, i with
  | [], _ => Some i
  | x :: ta, y :: ti => if x =? y then prefix_of ta ti else None
  | _ :: _, [] => None
  end.

Definition array_fam (Fs : list fam) : fam :=
  fun i rho =>
    match i with
    | [] => 0
    | j :: rest => if j <? 0 then 0 else match nth_error Fs (Z.to_nat j) with Some F => F rest rho | None => 0 end
    end.

Definition access_fam (A : fam) (Is : list (V -> Z)) : fam :=
  fun i rho => A (map (fun Ix : V -> Z => Ix rho) Is ++ i) rho.

Definition update_fam (A : fam) (Is : list (V -> Z)) (R : fam) : fam :=
  fun i rho => match prefix_of (map (fun Ix : V -> Z => Ix rho) Is) i with Some rest => R rest rho | None => A i rho end.

Fixpoint den (s : fstore) (e : expr) {struct e} : option fam :=
  let fix den_list (es : list expr) : option (list fam) :=
      match es with
      | [] => Some []
      | x :: tl => match den s x, den_list tl with
                   | Some F, Some Fs => Some (F :: Fs)
                   | _, _ => None
                   end
      end in
  let fix den_acc (acc : list (access expr)) : option (list (V -> Z)) :=
      match acc with
      | [] => Some []
      | AIdx x :: tl => match den s x, den_acc tl with
                        | Some Ix, Some Is => Some (Ix [] :: Is)
                        | _, _ => None
                        end
      | AComp n :: tl => match den_acc tl with
                         | Some Is => Some ((fun _ => name_code n) :: Is)
                         | None => None
                         end
      end in
  match e with
  | ENum z _ => Some (fun _ _ => z mod p)
  | EVar v _ => s v
  | EInfix op l r _ =>
    match den s l, den s r with
    | Some F, Some G => Some (fun i rho => sem2 op (F i rho) (G i rho))
    | _, _ => None
    end
  | EPrefix op x _ =>
    match den s x with Some F => Some (fun i rho => sem1 op (F i rho)) | None => None end
  | ESwitch c t f _ =>
    match den s c, den s t, den s f with
    | Some C, Some T, Some F => Some (fun i rho => if C [] rho =? 0 then F i rho else T i rho)
    | _, _, _ => None
    end
  | ECall n args _ =>
    match den_list args with
    | Some Fs => Some (fun _ rho => call_sem n (map (fun F : fam => F [] rho) Fs))
    | None => None
    end
  | EArray vs _ =>
    match den_list vs with Some Fs => Some (array_fam Fs) | None => None end
  | EAccess v acc _ =>
    match s v, den_acc acc with
    | Some A, Some Is => Some (access_fam A Is)
    | _, _ => None
    end
  | EUpdate v acc rhe _ =>
    match s v, den_acc acc, den s rhe with
    | Some A, Some Is, Some R => Some (update_fam A Is R)
    | _, _, _ => None
    end
  | EPhi _ _ => None
  end.

Definition is_phi_e (e : expr) : bool := match e with EPhi _ _ => true | _ => false end.

(* the block that holds the phi statement defining x *)
Definition phi_block_of (c : cfg) (x : vname) (b : block) : Prop :=
  In b (c_blocks c) /\ exists m op args k sv st, In (SSubst m x op (EPhi args k) sv st) (b_stmts b).

(* CONTROL DEPENDENCE, stated here without reference to the analysis (Model.Propagate
   has its own function; Proofs.DegGraphProofs relates the two).  [idom] is the
   immediate-dominator table of the graph (C15).  Block [q] is ABOVE block [p] below
   the dominator [stop] when walking up the dominator tree from p reaches q before
   passing stop. *)
Inductive above (idom : list (option N)) (stop : option N) : N -> N -> Prop :=
| ab_here p : above idom stop p p
| ab_up p d q : Some p <> stop -> nth_error idom (N.to_nat p) = Some (Some d) -> above idom stop d q ->
                above idom stop p q.

(* the branch conditions that can decide along which edge block j is entered: those
   ending a block between the immediate dominator of j and one of its predecessors
   (that EVERY block whose decision can change the incoming edge of j is among them is
   proved for graphs with the edges of a lifted skeleton:
   Props.C07.C07_lifted_split_is_named_by_decides) *)
Definition decides (c : cfg) (idom : list (option N)) (j : block) (cond : expr) : Prop :=
  exists p q bq m t f,
    In p (b_preds j) /\
    above idom (match nth_error idom (N.to_nat (b_index j)) with Some o => o | None => None end) p q /\
    nth_error (c_blocks c) (N.to_nat q) = Some bq /\
    last (b_stmts bq) (SLog m []) = SIf m cond t f.

(* THE SAME WITHOUT ANY TABLE, over the path-based dominance of Spec.SsaDomSpec (cdom: lies
   on every walk from the entry block; cidom: the closest strict dominator): the block q
   that ends with the condition dominates a predecessor p of j and is dominated by the
   immediate dominator of j.  Proofs.DegGraphIdom.decides_iff_decides_dom: on a graph with
   Model.DegGraph.graph_consistent and a table with Model.DegGraph.idom_is_dominator_table
   (both evaluated by the check on every graph) the two notions coincide, so a wrong
   table cannot make [decides] - and with it the theorem - silently say less.  That every
   block whose decision can change the edge along which j is entered is such a q is
   proved for the skeleton graphs of lifting (Props.C07.C07_lifted_graphs_control_dependence);
   for the graph after SSA conversion it rests on SSA conversion not changing blocks or
   edges (observed by the correspondence of C14, not proved here). *)
Definition decides_dom (c : cfg) (ij : nat) (j : block) (cond : expr) : Prop :=
  exists p q bq m t f,
    In p (b_preds j) /\
    cdom c (N.to_nat q) (N.to_nat p) /\
    (exists d, cidom c d ij /\ cdom c d (N.to_nat q)) /\
    nth_error (c_blocks c) (N.to_nat q) = Some bq /\
    last (b_stmts bq) (SLog m []) = SIf m cond t f.

(* A phi copies, for every valuation, one of its arguments.  WHICH one is decided by the
   branch conditions [decides] names: the choice [pick] may depend on the valuation
   only if one of them IS DENOTABLE in the current store AND VARIES with the valuation
   there.  A decider without denotation in the current store counts as "not varying".
   This is an over-approximation only because of what "no denotation" means in the
   stores this relation is used on (see [finit_total] and [fstep] below): there is NO
   rule that makes a cell opaque, so a cell is None only as long as no statement that
   assigns it has fired, and a condition is undenotable only as long as it reads a
   local that has not been assigned yet (Proofs.DegSemTotal.den_none_reads_unassigned)
   - i.e. it has not been evaluated by any of the runs the store represents (the first
   entry of a loop, whose condition reads the header phi itself; an inner condition on
   a path that bypasses it), and a condition nobody evaluated has decided nothing.
   The variant "an undenotable decider leaves pick unconstrained" is NOT sound for
   this order-free step relation (any statement may fire at any time): a join phi
   could fire, with a valuation-dependent choice, BEFORE the local its (constant)
   condition reads is assigned (Proofs.DegSemVariant.undenotable_unconstrained_refuted).
   NOT PROVED (argued only): that the store at the time of the phi step holds the
   operands of the deciding condition's LAST evaluation (SSA: an operand is reassigned
   only by passing through its definition, which dominates the branching block).
   A block with fewer than two predecessors has nothing to decide. *)
Definition cond_fixed (s : fstore) (cond : expr) : Prop :=
  match den s cond with
  | Some C => forall r r', C [] r = C [] r'
  | None => True
  end.

Definition pick_ok (c : cfg) (idom : list (option N)) (s : fstore) (x : vname) (pick : V -> vname) : Prop :=
  forall b, phi_block_of c x b ->
    ((length (b_preds b) < 2)%nat \/ forall cond, decides c idom b cond -> cond_fixed s cond) ->
    forall r r', pick r = pick r'.

Definition phi_fam (s : fstore) (pick : V -> vname) : fam :=
  fun i rho => match s (pick rho) with Some G => G i rho | None => 0 end.

(* The steps.  There is deliberately no rule that makes a cell opaque (None): the
   third audit showed that such a rule (and partial initial stores) let an
   undenotable deciding condition FORCE a constant phi choice, i.e. exclude
   behaviour.  A statement whose right-hand side has no denotation (it reads a local
   not assigned yet) simply cannot fire yet. *)
Inductive fstep (c : cfg) (idom : list (option N)) : fstore -> fstore -> Prop :=
| fs_assign m x op rhe sv st F s :
    In (SSubst m x op rhe sv st) (all_stmts (c_blocks c)) -> decl_of c x = Some TLocal -> is_param c x = false ->
    is_phi_e rhe = false -> den s rhe = Some F -> fstep c idom s (fupd s x (Some F))
| fs_phi m x op args k sv st (pick : V -> vname) s :
    In (SSubst m x op (EPhi args k) sv st) (all_stmts (c_blocks c)) -> decl_of c x = Some TLocal -> is_param c x = false ->
    (forall rho, In (pick rho) args) -> (forall rho, s (pick rho) <> None) ->
    pick_ok c idom s x pick ->
    fstep c idom s (fupd s x (Some (phi_fam s pick))).

Inductive freachable (c : cfg) (idom : list (option N)) (s0 : fstore) : fstore -> Prop :=
| fr_init : freachable c idom s0 s0
| fr_step s s' : freachable c idom s0 s -> fstep c idom s s' -> freachable c idom s0 s'.

(* the names the step relation can assign: declared locals, not parameters, that some
   statement of the graph assigns *)
Definition assignable (c : cfg) (x : vname) : bool :=
  match decl_of c x with Some TLocal => true | _ => false end && negb (is_param c x) &&
  existsb (defines x) (all_stmts (c_blocks c)).

(* TOTAL initial stores: every name the step relation cannot assign (signals, component
   ports, parameters, never-assigned locals) has a denotation from the start.  The
   stores that represent concrete runs (Proofs.DegRunProofs) are of this kind; the
   soundness theorem holds for partial ones as well (it quantifies over all stores
   with Proofs.DegGraphProofs.finit_ok), but only for total ones does "undenotable"
   mean "reads a local not assigned yet". *)
Definition finit_total (c : cfg) (s0 : fstore) : Prop :=
  forall x, assignable c x = false -> s0 x <> None.
End DegSem.
