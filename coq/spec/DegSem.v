(* Semantics against which degree claims are judged at graph level (C07).
   Every cell holds its value AS A FUNCTION OF THE VALUATION of the
   indeterminates (signals, component ports; parameters of functions), and, for
   arrays, of the position: a cell is a FAMILY  index list -> valuation -> Z
   (a scalar is a family that ignores the index; an element that was never
   assigned is 0).  Signals and component ports are independent indeterminates
   whatever is assigned to them, template parameters are constants.
     - an inline array [e0, e1, ..] is the family  j :: rest |-> e_j at rest,
     - an access x[i1]..[ik] selects, for every valuation, the sub-family at the
       values of the index expressions (a component port c.name is selected by
       an arbitrary code of the name: nothing depends on which),
     - an element-wise update replaces the sub-family at the index values.
   The step relation over-approximates the executions: an assignment to a local
   stores the denotation of its right-hand side; a phi copies, for every
   valuation, one of its arguments, and the choice may depend on the valuation
   exactly when the branch condition that decides along which edge the block is
   entered does (signal-dependent control included: since /repo D18 the analysis
   accounts for it). *)
From Coq Require Import ZArith List Bool.
Require Import Model.Base Model.Ir Model.Propagate Model.Justify Model.DegJustify Spec.PolyDeg.
Import ListNotations.
Local Open Scope Z_scope.

Section DegSem.
Variable V : Type.
Variable p : Z.
Variable sem2 : infix_op -> Z -> Z -> Z.      (* value of `a op b` *)
Variable sem1 : prefix_op -> Z -> Z.
Variable call_sem : ident -> list Z -> Z.     (* functions are functions of their arguments *)
Variable name_code : ident -> Z.              (* position of a component port *)

Definition fam := list Z -> V -> Z.
Definition fstore := vname -> option fam.
Definition zero_fam : fam := fun _ _ => 0.

Definition fupd (s : fstore) (x : vname) (F : option fam) : fstore :=
  fun y => if vname_eqb x y then F else s y.

(* i = a ++ rest *)
Fixpoint prefix_of (a i : list Z) : option (list Z) :=
  match a, i with
  | [], _ => Some i
  | x :: ta, y :: ti => if x =? y then prefix_of ta ti else None
  | _ :: _, [] => None
  end.

Definition array_fam (Fs : list fam) : fam :=
  fun i rho =>
    match i with
    | [] => 0
    | j :: rest => if j <? 0 then 0 else match nth_error Fs (Z.to_nat j) with Some F => F rest rho | None => 0 end
    end.

Definition access_fam (A : fam) (Is : list (V -> Z)) : fam :=
  fun i rho => A (map (fun Ix : V -> Z => Ix rho) Is ++ i) rho.

Definition update_fam (A : fam) (Is : list (V -> Z)) (R : fam) : fam :=
  fun i rho => match prefix_of (map (fun Ix : V -> Z => Ix rho) Is) i with Some rest => R rest rho | None => A i rho end.

Fixpoint den (s : fstore) (e : expr) {struct e} : option fam :=
  let fix den_list (es : list expr) : option (list fam) :=
      match es with
      | [] => Some []
      | x :: tl => match den s x, den_list tl with
                   | Some F, Some Fs => Some (F :: Fs)
                   | _, _ => None
                   end
      end in
  let fix den_acc (acc : list (access expr)) : option (list (V -> Z)) :=
      match acc with
      | [] => Some []
      | AIdx x :: tl => match den s x, den_acc tl with
                        | Some Ix, Some Is => Some (Ix [] :: Is)
                        | _, _ => None
                        end
      | AComp n :: tl => match den_acc tl with
                         | Some Is => Some ((fun _ => name_code n) :: Is)
                         | None => None
                         end
      end in
  match e with
  | ENum z _ => Some (fun _ _ => z mod p)
  | EVar v _ => s v
  | EInfix op l r _ =>
    match den s l, den s r with
    | Some F, Some G => Some (fun i rho => sem2 op (F i rho) (G i rho))
    | _, _ => None
    end
  | EPrefix op x _ =>
    match den s x with Some F => Some (fun i rho => sem1 op (F i rho)) | None => None end
  | ESwitch c t f _ =>
    match den s c, den s t, den s f with
    | Some C, Some T, Some F => Some (fun i rho => if C [] rho =? 0 then F i rho else T i rho)
    | _, _, _ => None
    end
  | ECall n args _ =>
    match den_list args with
    | Some Fs => Some (fun _ rho => call_sem n (map (fun F : fam => F [] rho) Fs))
    | None => None
    end
  | EArray vs _ =>
    match den_list vs with Some Fs => Some (array_fam Fs) | None => None end
  | EAccess v acc _ =>
    match s v, den_acc acc with
    | Some A, Some Is => Some (access_fam A Is)
    | _, _ => None
    end
  | EUpdate v acc rhe _ =>
    match s v, den_acc acc, den s rhe with
    | Some A, Some Is, Some R => Some (update_fam A Is R)
    | _, _, _ => None
    end
  | EPhi _ _ => None
  end.

Definition is_phi_e (e : expr) : bool := match e with EPhi _ _ => true | _ => false end.

(* the block that holds the phi statement defining x *)
Definition phi_block_of (c : cfg) (x : vname) (b : block) : Prop :=
  In b (c_blocks c) /\ exists m op args k sv st, In (SSubst m x op (EPhi args k) sv st) (b_stmts b).

(* CONTROL DEPENDENCE, stated here without reference to the analysis (Model.Propagate
   has its own function; Proofs.DegGraphProofs relates the two).  [idom] is the
   immediate-dominator table of the graph (C15).  Block [q] is ABOVE block [p] below
   the dominator [stop] when walking up the dominator tree from p reaches q before
   passing stop. *)
Inductive above (idom : list (option N)) (stop : option N) : N -> N -> Prop :=
| ab_here p : above idom stop p p
| ab_up p d q : Some p <> stop -> nth_error idom (N.to_nat p) = Some (Some d) -> above idom stop d q ->
                above idom stop p q.

(* the branch conditions that can decide along which edge block j is entered: those
   ending a block between the immediate dominator of j and one of its predecessors
   (in the graphs lifting produces every branching block of that region dominates a
   predecessor of j; an assumption of this semantics, exercised by the path audit of
   the check) *)
Definition decides (c : cfg) (idom : list (option N)) (j : block) (cond : expr) : Prop :=
  exists p q bq m t f,
    In p (b_preds j) /\
    above idom (match nth_error idom (N.to_nat (b_index j)) with Some o => o | None => None end) p q /\
    nth_error (c_blocks c) (N.to_nat q) = Some bq /\
    last (b_stmts bq) (SLog m []) = SIf m cond t f.

(* A phi copies, for every valuation, one of its arguments.  WHICH one is decided by the
   branch conditions [decides] names: the choice [pick] may depend on the valuation
   only if one of them, as a function of the valuation in the current store, does (in
   SSA form the current store holds the operands of a condition's last evaluation,
   which is the one that decided; a condition not evaluated yet - the first entry of a
   loop, an inner condition on a path that bypasses it - does not vary).  A block
   with fewer than two predecessors has nothing to decide. *)
Definition cond_fixed (s : fstore) (cond : expr) : Prop :=
  match den s cond with
  | Some C => forall r r', C [] r = C [] r'
  | None => True
  end.

Definition pick_ok (c : cfg) (idom : list (option N)) (s : fstore) (x : vname) (pick : V -> vname) : Prop :=
  forall b, phi_block_of c x b ->
    ((length (b_preds b) < 2)%nat \/ forall cond, decides c idom b cond -> cond_fixed s cond) ->
    forall r r', pick r = pick r'.

Definition phi_fam (s : fstore) (pick : V -> vname) : fam :=
  fun i rho => match s (pick rho) with Some G => G i rho | None => 0 end.

Inductive fstep (c : cfg) (idom : list (option N)) : fstore -> fstore -> Prop :=
| fs_assign m x op rhe sv st F s :
    In (SSubst m x op rhe sv st) (all_stmts (c_blocks c)) -> decl_of c x = Some TLocal -> is_param c x = false ->
    is_phi_e rhe = false -> den s rhe = Some F -> fstep c idom s (fupd s x (Some F))
| fs_phi m x op args k sv st (pick : V -> vname) s :
    In (SSubst m x op (EPhi args k) sv st) (all_stmts (c_blocks c)) -> decl_of c x = Some TLocal -> is_param c x = false ->
    (forall rho, In (pick rho) args) -> (forall rho, s (pick rho) <> None) ->
    pick_ok c idom s x pick ->
    fstep c idom s (fupd s x (Some (phi_fam s pick)))
| fs_opaque m x op rhe sv st s :
    In (SSubst m x op rhe sv st) (all_stmts (c_blocks c)) -> decl_of c x = Some TLocal -> is_param c x = false ->
    fstep c idom s (fupd s x None).

Inductive freachable (c : cfg) (idom : list (option N)) (s0 : fstore) : fstore -> Prop :=
| fr_init : freachable c idom s0 s0
| fr_step s s' : freachable c idom s0 s -> fstep c idom s s' -> freachable c idom s0 s'.
End DegSem.
