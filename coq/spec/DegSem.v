(* Semantics against which degree claims are judged at graph level (C07).
   Every cell holds its value AS A FUNCTION OF THE VALUATION of the
   indeterminates (signals, component ports; parameters of functions); signals
   and component ports are independent indeterminates whatever is assigned to
   them, template parameters are constants.  Only scalar, array-free
   expressions denote.  The step relation over-approximates the executions
   whose control flow does not depend on the valuation: an assignment to a
   local stores the denotation of its right-hand side, a phi copies one of its
   arguments (the same one for every valuation).  Joins under signal-dependent
   control are the known finding C07-ctl-merge and are outside this relation. *)
From Coq Require Import ZArith List Bool.
Require Import Model.Base Model.Ir Model.Propagate Model.Justify Model.DegJustify Spec.PolyDeg.
Import ListNotations.
Local Open Scope Z_scope.

Section DegSem.
Variable V : Type.
Variable p : Z.
Variable sem2 : infix_op -> Z -> Z -> Z.      (* value of `a op b` *)
Variable sem1 : prefix_op -> Z -> Z.
Variable call_sem : ident -> list Z -> Z.     (* functions are functions of their arguments *)

Definition fstore := vname -> option (V -> Z).

Definition fupd (s : fstore) (x : vname) (F : option (V -> Z)) : fstore :=
  fun y => if vname_eqb x y then F else s y.

Fixpoint den (s : fstore) (e : expr) {struct e} : option (V -> Z) :=
  let fix den_list (es : list expr) : option (list (V -> Z)) :=
      match es with
      | [] => Some []
      | x :: tl => match den s x, den_list tl with
                   | Some F, Some Fs => Some (F :: Fs)
                   | _, _ => None
                   end
      end in
  match e with
  | ENum z _ => Some (fun _ => z mod p)
  | EVar v _ => s v
  | EInfix op l r _ =>
    match den s l, den s r with
    | Some F, Some G => Some (fun rho => sem2 op (F rho) (G rho))
    | _, _ => None
    end
  | EPrefix op x _ =>
    match den s x with Some F => Some (fun rho => sem1 op (F rho)) | None => None end
  | ESwitch c t f _ =>
    match den s c, den s t, den s f with
    | Some C, Some T, Some F => Some (fun rho => if C rho =? 0 then F rho else T rho)
    | _, _, _ => None
    end
  | ECall n args _ =>
    match den_list args with
    | Some Fs => Some (fun rho => call_sem n (map (fun F => F rho) Fs))
    | None => None
    end
  | EArray _ _ | EAccess _ _ _ | EUpdate _ _ _ _ | EPhi _ _ => None
  end.

Definition is_phi_e (e : expr) : bool := match e with EPhi _ _ => true | _ => false end.

Inductive fstep (c : cfg) : fstore -> fstore -> Prop :=
| fs_assign m x op rhe sv st F s :
    In (SSubst m x op rhe sv st) (all_stmts (c_blocks c)) -> decl_of c x = Some TLocal -> is_param c x = false ->
    is_phi_e rhe = false -> den s rhe = Some F -> fstep c s (fupd s x (Some F))
| fs_phi m x op args k sv st a F s :
    In (SSubst m x op (EPhi args k) sv st) (all_stmts (c_blocks c)) -> decl_of c x = Some TLocal -> is_param c x = false ->
    In a args -> s a = Some F -> fstep c s (fupd s x (Some F))
| fs_opaque m x op rhe sv st s :
    In (SSubst m x op rhe sv st) (all_stmts (c_blocks c)) -> decl_of c x = Some TLocal -> is_param c x = false ->
    fstep c s (fupd s x None).

Inductive freachable (c : cfg) (s0 : fstore) : fstore -> Prop :=
| fr_init : freachable c s0 s0
| fr_step s s' : freachable c s0 s -> fstep c s s' -> freachable c s0 s'.
End DegSem.
