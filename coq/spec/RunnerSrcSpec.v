(* RunnerSrcSpec — vocabulary of the C17 statements about Model.RunnerSrc:
   which definitions a definition references through the lookups of its
   passes, directly and transitively, and what "its findings" are. *)
From Coq Require Import ZArith List Bool Permutation.
Require Import Model.Base Gen.Category Model.Runner Model.RunnerSrc Spec.RunnerSpec.
Import ListNotations.

(* the name maps are maps: one definition per (kind, name) *)
Definition wf_sproject (sp : sproject) : Prop := NoDup (map s_key (sp_defs sp)).

(* the passes of [d] look the template [x] up *)
Definition looks_up (d x : sdef) : Prop := s_kind x = KTemplate /\ In (s_name x) (s_refs d).

(* [x] is in the transitive lookup set of [d] inside the library [ds] *)
Inductive reaches (ds : list sdef) : sdef -> sdef -> Prop :=
| reach_step : forall d x, In x ds -> looks_up d x -> reaches ds d x
| reach_trans : forall d y x, In y ds -> looks_up d y -> reaches ds y x -> reaches ds d x.

(* everything the stages produce for [d] when it lives in the library [ds] *)
Definition findings (ds : list sdef) (d : sdef) : list report := produced_def (inst ds d).

(* two libraries give the same answers to the lookups of [d] *)
Definition same_answers (ds1 ds2 : list sdef) (d : sdef) : Prop :=
  forall n, In n (s_refs d) -> answer_of ds1 n = answer_of ds2 n.

Definition s_user_defs (sp : sproject) : list sdef := filter (s_user_b (sp_user sp)) (sp_defs sp).
