(* Reference comment lexer for Circom sources (C05) — written independently of
   the code and of Model.Preprocess: a five-state automaton that reads ONE scalar
   per step and never looks ahead (a pending `/` in code and a pending `*` in a
   block comment are states).  Conventions taken from the property text:

   * in code, `//` opens a line comment that ends before the next newline (the
     newline itself is code); `/*` opens a block comment that ends with the
     first `*/` that follows the opener;
   * every scalar of a comment (openers and closers included) is replaced by as
     many blanks as it has UTF-8 bytes, everything else is copied;
   * a block comment still open at the end of the input is an error located at
     the BYTE offset of its `/*`;
   * string literals are not special (they are not in Circom's own
     pre-processor either): a `//` inside quotes opens a comment.

   The automaton is then characterised declaratively (statements in
   props/C05.v): [lex_plain], [lex_line], [lex_line_eof], [lex_block],
   [lex_unclosed], and [lex_decompose] says these five shapes cover every
   string. *)
Require Import Model.Base.
From Coq Require Import NArith Lia.
Local Open Scope N_scope.

(* UTF-8 length of a Unicode scalar value (RFC 3629 ranges) *)
Definition scalar_bytes (c : N) : nat :=
  if c <=? 127 then 1%nat            (* U+0000 .. U+007F *)
  else if c <=? 2047 then 2%nat      (* U+0080 .. U+07FF *)
  else if c <=? 65535 then 3%nat     (* U+0800 .. U+FFFF *)
  else 4%nat.

Definition text_bytes (l : list N) : nat := fold_right (fun c n => (scalar_bytes c + n)%nat) 0%nat l.

Definition spaces (n : nat) : list N := repeat 32 n.
(* a stretch of text replaced by blanks of the same byte length *)
Definition blanks (l : list N) : list N := flat_map (fun c => spaces (scalar_bytes c)) l.

Definition UnclosedAt (o : nat) : error := EOther (Z.of_nat o).

Inductive dstate :=
| DCode                    (* in code, nothing pending *)
| DSlash (at_ : nat)       (* in code, a `/` at byte offset at_ not yet emitted *)
| DLine                    (* in a line comment *)
| DBlock (opener : nat)    (* in a block comment opened at byte offset opener *)
| DStar (opener : nat).    (* in that block comment, previous scalar was `*` (already blanked) *)

(* one scalar: new state and what is appended to the output *)
Definition dstep (q : dstate) (off : nat) (c : N) : dstate * list N :=
  match q with
  | DCode => if c =? 47 then (DSlash off, []) else (DCode, [c])
  | DSlash at_ =>
      if c =? 47 then (DLine, [32; 32])
      else if c =? 42 then (DBlock at_, [32; 32])
      else (DCode, [47; c])
  | DLine => if c =? 10 then (DCode, [10]) else (DLine, spaces (scalar_bytes c))
  | DBlock o => if c =? 42 then (DStar o, [32]) else (DBlock o, spaces (scalar_bytes c))
  | DStar o =>
      if c =? 47 then (DCode, [32])
      else if c =? 42 then (DStar o, [32])
      else (DBlock o, spaces (scalar_bytes c))
  end.

Definition dfinish (q : dstate) : outcome (list N) :=
  match q with
  | DCode | DLine => Ok []
  | DSlash _ => Ok [47]
  | DBlock o | DStar o => Err (UnclosedAt o)
  end.

Definition put (out : list N) (m : outcome (list N)) : outcome (list N) :=
  match m with
  | Ok t => Ok (out ++ t)
  | other => other
  end.

Fixpoint lex_from (q : dstate) (off : nat) (l : list N) : outcome (list N) :=
  match l with
  | [] => dfinish q
  | c :: r => put (snd (dstep q off c)) (lex_from (fst (dstep q off c)) (off + scalar_bytes c) r)
  end.

Definition lex_spec (l : list N) : outcome (list N) := lex_from DCode 0 l.

(* state reached / text produced after a prefix *)
Fixpoint state_after (q : dstate) (off : nat) (l : list N) : dstate :=
  match l with
  | [] => q
  | c :: r => state_after (fst (dstep q off c)) (off + scalar_bytes c) r
  end.

Fixpoint output_after (q : dstate) (off : nat) (l : list N) : list N :=
  match l with
  | [] => []
  | c :: r => snd (dstep q off c) ++ output_after (fst (dstep q off c)) (off + scalar_bytes c) r
  end.

(* "a block comment is open at the end of the input, opened at byte offset o" *)
Definition open_block_at_end (l : list N) (o : nat) : Prop :=
  state_after DCode 0 l = DBlock o \/ state_after DCode 0 l = DStar o.

(* the file with every comment replaced by blanks (the file itself when it has
   an unclosed comment) *)
Definition blank_comments (l : list N) : list N :=
  match lex_spec l with
  | Ok t => t
  | _ => l
  end.

(* ------------------------------------------------------------------ *)
(* declarative vocabulary                                              *)
(* ------------------------------------------------------------------ *)

(* l contains the two-scalar sequence x y *)
Definition has_pair (x y : N) (l : list N) : Prop := exists u v, l = u ++ [x; y] ++ v.
Definition ends_with (x : N) (l : list N) : Prop := exists u, l = u ++ [x].

(* code without any comment opener and without a trailing `/` that could pair
   with what follows *)
Definition plain_code (l : list N) : Prop :=
  ~ has_pair 47 47 l /\ ~ has_pair 47 42 l /\ ~ ends_with 47 l.
Definition no_newline (l : list N) : Prop := ~ In 10 l.
Definition no_close (l : list N) : Prop := ~ has_pair 42 47 l.

(* result of lexing `pre ++ rest` when `pre` lexes to `out` and ends in code:
   the text of the rest follows, an error of the rest moves by the bytes of pre *)
Definition after (pre out : list N) (m : outcome (list N)) : outcome (list N) :=
  match m with
  | Ok t => Ok (out ++ t)
  | Err (EOther z) => Err (EOther (Z.of_nat (text_bytes pre) + z))
  | other => other
  end.

(* ------------------------------------------------------------------ *)
(* positions (C04): what "offsets are preserved" means                 *)
(* ------------------------------------------------------------------ *)

(* t is s with some scalars replaced by blanks of the same byte length *)
Inductive blanked : list N -> list N -> Prop :=
| blanked_nil : blanked [] []
| blanked_keep : forall c s t, blanked s t -> blanked (c :: s) (c :: t)
| blanked_blank : forall c s t, blanked s t -> blanked (c :: s) (spaces (scalar_bytes c) ++ t).

(* byte offset o is a scalar boundary of l (start of a scalar, or the end) *)
Definition boundary (l : list N) (o : nat) : Prop :=
  exists u v, l = u ++ v /\ text_bytes u = o.

(* the scalar c starts at byte offset o of l *)
Definition scalar_at (l : list N) (o : nat) (c : N) : Prop :=
  exists u v, l = u ++ c :: v /\ text_bytes u = o.

(* comments that are complete in themselves *)
Definition block_comment (c : list N) : Prop :=
  exists body, no_close body /\ c = [47; 42] ++ body ++ [42; 47].
Definition line_comment (c : list N) : Prop :=
  exists body, no_newline body /\ c = [47; 47] ++ body.

(* "the end of l lies outside every comment": l is made of complete comments
   (a line comment with the newline that ends it, a block comment with its
   first closer), each preceded by comment-free code, followed by comment-free
   code that does not end in a slash.  A `/*` that follows such a prefix is a
   comment opener; a `/*` after any other prefix is comment text (or, after a
   pending slash, the `/` of `//` followed by a star).  Declarative: the
   automaton is not mentioned. *)
Inductive ends_in_code : list N -> Prop :=
| eic_code : forall a, plain_code a -> ends_in_code a
| eic_line : forall a c b, plain_code a -> no_newline c -> ends_in_code b ->
    ends_in_code (a ++ [47; 47] ++ c ++ [10] ++ b)
| eic_block : forall a c b, plain_code a -> no_close c -> ends_in_code b ->
    ends_in_code (a ++ [47; 42] ++ c ++ [42; 47] ++ b).
