(* C12 — the control-flow graph of every definition is well formed.
   Property theorems only: each is closed by [exact] of a lemma of
   Proofs.LiftTheorems / Proofs.LiftTotal, followed by Print Assumptions.
   [lift] is the mirror of build_basic_blocks (Model.Lift); [path], [reachable],
   [dominates], [nesting], [graph_items], [parser_shaped] are Spec.CfgSpec;
   [desugared_shape] is Proofs.LiftTotalFlat. *)
From stdpp Require Import list.
Require Import Model.Lift Spec.CfgSpec Proofs.LiftTheorems Proofs.LiftTotal Proofs.LiftComplexity Proofs.LiftTotalFlat.
Require Model.Ast Model.Ir Model.LiftFull Proofs.MirrorsShape.
Import Base(outcome, Ok, Panic).

(* block 0 is the entry (a block's index is its position) and has no predecessor *)
Theorem C12_entry_no_pred : forall body g, lift body = Ok g ->
  (forall i b, g !! i = Some b -> b_index b = i) /\
  exists b0, g !! 0 = Some b0 /\ b_preds b0 = [].
Proof. exact entry_no_pred. Qed.
Print Assumptions C12_entry_no_pred.

(* every block is reachable from block 0 along successor edges *)
Theorem C12_all_reachable : forall body g, lift body = Ok g ->
  forall j, j < length g -> reachable g j.
Proof. exact all_reachable. Qed.
Print Assumptions C12_all_reachable.

(* successor and predecessor sets mirror each other (and name existing blocks) *)
Theorem C12_preds_succs_mirror : forall body g, lift body = Ok g ->
  forall i j,
    (exists bi, g !! i = Some bi /\ j ∈ b_succs bi) <-> (exists bj, g !! j = Some bj /\ i ∈ b_preds bj).
Proof. exact preds_succs_mirror. Qed.
Print Assumptions C12_preds_succs_mirror.

(* a branch statement occurs only as the last statement of a block *)
Theorem C12_branch_only_last : forall body g, lift body = Ok g ->
  forall i b k c t f,
    g !! i = Some b -> b_items b !! k = Some (IBranch c t f) -> S k = length (b_items b).
Proof. exact branch_only_last. Qed.
Print Assumptions C12_branch_only_last.

(* its targets are existing blocks contained in the successor set (the true
   target is the next block; a recorded false target differs from it) *)
Theorem C12_branch_targets_exist_and_are_succs : forall body g, lift body = Ok g ->
  forall i b c t f,
    g !! i = Some b -> last (b_items b) = Some (IBranch c t f) ->
    t = S i /\ t < length g /\ t ∈ b_succs b /\
    forall x, f = Some x -> x < length g /\ x ∈ b_succs b /\ x <> t.
Proof. exact branch_targets_exist_and_are_succs. Qed.
Print Assumptions C12_branch_targets_exist_and_are_succs.

(* no block has more than two successors, one without a branch *)
Theorem C12_at_most_two_succs : forall body g, lift body = Ok g ->
  forall i b, g !! i = Some b ->
    NoDup (b_succs b) /\ length (b_succs b) <= 2 /\ (~ ends_in_branch b -> length (b_succs b) <= 1).
Proof. exact at_most_two_succs. Qed.
Print Assumptions C12_at_most_two_succs.

(* whenever block i dominates block j (every path from the entry to j passes i), i <= j *)
Theorem C12_dom_implies_le : forall body g, lift body = Ok g ->
  forall i j, j < length g -> dominates g i j -> i <= j.
Proof. exact dom_implies_le. Qed.
Print Assumptions C12_dom_implies_le.

(* every block is reached by a path that stays below it (the fact behind the
   previous theorem and behind "2 + edges - nodes" not underflowing) *)
Theorem C12_descending_path : forall body g, lift body = Ok g ->
  forall j, j < length g -> exists l, path g 0 l j /\ forall x, x ∈ 0 :: l -> x <= j.
Proof. exact descending_path. Qed.
Print Assumptions C12_descending_path.

(* the counting step for program_analysis/src/definition_complexity.rs
   (`let complexity = 2 + edges - nodes;` on usize, edges = sum of
   `successors().len()` over the blocks, nodes = number of blocks): the blocks
   are at most one more than the edges, so (2 + edges) - nodes does not
   underflow and the complexity is at least 1.  Proved from
   C12_descending_path: every block j > 0 ends a non-empty path from block 0,
   so it is the target of an edge, and edges with different targets are
   different members of the successor lists (which are duplicate-free by
   C12_at_most_two_succs, so their lengths are the set sizes the code adds up) *)
Theorem C12_complexity_no_underflow : forall body g, lift body = Ok g ->
  length g <= 1 + list_sum (map (fun b => length (b_succs b)) g) /\
  1 <= 2 + list_sum (map (fun b => length (b_succs b)) g) - length g.
Proof. exact complexity_no_underflow. Qed.
Print Assumptions C12_complexity_no_underflow.

(* the statements of the graph in block order, each with the recorded loop
   depth of its block, are exactly the statements and conditions of the source
   in source order, each with its syntactic loop nesting (a loop condition
   counting outside its loop) *)
Theorem C12_loop_depth_is_nesting : forall body g, lift body = Ok g ->
  graph_items g = nesting 0 body.
Proof. exact loop_depth_is_nesting. Qed.
Print Assumptions C12_loop_depth_is_nesting.

(* every statement and condition of the source occurs exactly once, in source order *)
Theorem C12_every_item_exactly_once : forall body g, lift body = Ok g ->
  concat (map (fun b => map item_key (b_items b)) g) = map fst (nesting 0 body).
Proof. exact every_item_exactly_once. Qed.
Print Assumptions C12_every_item_exactly_once.

(* neither assert! of lifting.rs nor any NonEmptyVec indexing fails on a body
   the parser + desugarer can produce.
   Third audit: the hypothesis used to be Spec.CfgSpec.parser_shaped (an
   initialisation block holds only leaves), which is FALSE for real desugared
   template bodies: remove_tuples_from_statement / the anonymous-component pass put
   a Block of substitutions into an InitializationBlock (`var (a, b) = (1, 2);`,
   `var x = A()(1);`).  [desugared_shape] (Proofs.LiftTotalFlat: the body is a
   block; an entry of an initialisation block is [flat] - leaves, blocks and
   initialisation blocks of flat statements, no `while` / `if`) is the shape they do
   have; it contains parser_shaped (C12_parser_shaped_is_desugared_shape).  The
   check EVALUATES it on every real desugared body of its template stage through the
   decision of C12_desugared_shape_decided (lib/props/C12.py,
   coverage hypothesis_desugared_shape); an unmet hypothesis is a violation. *)
Theorem C12_lift_never_panics : forall body, desugared_shape body -> exists g, lift body = Ok g.
Proof. exact lift_never_panics_desugared. Qed.
Print Assumptions C12_lift_never_panics.

Theorem C12_parser_shaped_is_desugared_shape : forall body, parser_shaped body -> desugared_shape body.
Proof. exact parser_shaped_desugared_shape. Qed.
Print Assumptions C12_parser_shaped_is_desugared_shape.

(* how the hypothesis is decided on a real syntax tree: the two booleans the
   extracted model driver evaluates (Model.LiftFull.is_block, ast_init_flat) give
   desugared_shape of the skeleton, whatever function of the metas names the leaves *)
Theorem C12_desugared_shape_decided : forall (key : Model.Ir.meta -> nat) (body : Model.Ast.statement),
  Model.LiftFull.is_block body = true -> Model.LiftFull.ast_init_flat body = true ->
  desugared_shape (Model.LiftFull.skel key body).
Proof. exact Proofs.MirrorsShape.skel_desugared_shape. Qed.
Print Assumptions C12_desugared_shape_decided.

(* non-vacuity: the `while` test of the repository lifts to its four blocks; a
   body that is not a block and a loop inside an initialisation block hit the
   two assert!s *)
Example C12_witnesses :
  lift (SBlock [SInit [SLeaf 1 false; SLeaf 2 false]; SWhile 3 (SBlock [SLeaf 4 false]); SLeaf 5 true]) =
    Ok [Block 0 0 [ILeaf 1; ILeaf 2] [] [1];
        Block 1 0 [IBranch 3 2 (Some 3)] [0; 2] [2; 3];
        Block 2 1 [ILeaf 4] [1] [1];
        Block 3 0 [ILeaf 5] [1] []] /\
  lift (SLeaf 1 false) = Panic site_body_not_block /\
  lift (SBlock [SInit [SWhile 1 (SLeaf 2 false)]]) = Panic site_init_nonempty /\
  parser_shaped (SBlock [SIf 1 (SLeaf 2 false) None]).
Proof. vm_compute. repeat split; try reflexivity. by eexists. Qed.

(* `var (a, b) = (1, 2);` after the desugarer: a block inside an initialisation
   block - of desugared shape, not parser shaped, and it lifts *)
Example C12_desugared_shape_witness :
  let body := SBlock [SInit [SLeaf 1 false; SLeaf 2 false; SBlock [SLeaf 3 false; SLeaf 4 false]]; SLeaf 5 true] in
  desugared_shape body /\ ~ parser_shaped body /\
  lift body = Ok [Block 0 0 [ILeaf 1; ILeaf 2; ILeaf 3; ILeaf 4; ILeaf 5] [] []].
Proof.
  split; [split; [by eexists|reflexivity]|]. split; [|reflexivity].
  intros [_ H]. vm_compute in H. discriminate.
Qed.

(* ======================================================================== *)
(* AFTER into_ssa (proof round 4).  The theorems above are about the graph   *)
(* lifting builds; the ones below are about the graph the SSA conversion     *)
(* makes of it: Model.Ssa.into_ssa (the mirror compared with the real        *)
(* into_ssa by C14's check), for ALL dominance-frontier and children tables. *)
(* The clauses are those of Spec.IrCfgSpec (graphs WITH statements, Model.Ir) *)
(* ======================================================================== *)
Require Model.Ssa Model.SsaPre Spec.IrCfgSpec Spec.IrSkel.
Require Proofs.SsaFrame Proofs.SsaWellFormed Proofs.SsaLiftedWf Proofs.SsaWellFormedExample.

(* (1) no hypothesis: the conversion keeps the number of blocks, and block i keeps
   its index, its loop depth, its predecessor list and its successor list.
   Fourth audit: for the MIRROR this is a by-construction fact (Model.Ssa writes blocks only
   through Ir.set_stmts; Proofs.SsaFrame says a relation closed under set_stmts survives);
   that the Rust into_ssa (which holds `&mut self.basic_blocks`) keeps the frames is not
   implied by it: the check evaluates it on every REAL (before, after) pair, as the
   `same_frame` half of IrCfgSpec.ssa_shape_of (C12_ssa_shape_b_sound below). *)
Theorem C12_ssa_keeps_blocks_edges_depths : forall frontier children c c',
  Ssa.into_ssa frontier children c = Ssa.SOk c' ->
  length (Ir.c_blocks c') = length (Ir.c_blocks c) /\
  forall i b b', nth_error (Ir.c_blocks c) i = Some b -> nth_error (Ir.c_blocks c') i = Some b' ->
    Ir.b_index b' = Ir.b_index b /\ Ir.b_depth b' = Ir.b_depth b /\
    Ir.b_preds b' = Ir.b_preds b /\ Ir.b_succs b' = Ir.b_succs b.
Proof. exact Proofs.SsaFrame.into_ssa_blocks_kept. Qed.
Print Assumptions C12_ssa_keeps_blocks_edges_depths.

(* hence, still without hypothesis: the same paths along successor edges, the same
   reachable blocks, the same (path-based) dominance relation - the dominance order
   of the graph is untouched *)
Theorem C12_ssa_same_paths_and_dominance : forall frontier children c c',
  Ssa.into_ssa frontier children c = Ssa.SOk c' ->
  (forall i l j, IrCfgSpec.path c' i l j <-> IrCfgSpec.path c i l j) /\
  (forall j, IrCfgSpec.reachable c' j <-> IrCfgSpec.reachable c j) /\
  (forall i j, IrCfgSpec.dominates c' i j <-> IrCfgSpec.dominates c i j).
Proof. exact Proofs.SsaWellFormed.into_ssa_same_paths. Qed.
Print Assumptions C12_ssa_same_paths_and_dominance.

(* (2) on a graph without phi expressions (SsaPre.phi_free: decidable, evaluated per
   definition by the `ssapre` command of the ir driver; lifting never builds one,
   C12_lifted_graph_wf): every block of the output is  phis ++ body  where every
   statement of phis is a top-level phi assignment, no statement of body is one, and
   body is the statement list of the input block one for one and of the same kind
   (same constructor and location; a branch keeps both targets) *)
Theorem C12_ssa_blocks_are_phis_then_image : forall frontier children c c',
  SsaPre.phi_free c = true -> Ssa.into_ssa frontier children c = Ssa.SOk c' ->
  Forall2 (fun b b' =>
             IrCfgSpec.same_frame b b' /\
             exists phis body,
               Ir.b_stmts b' = phis ++ body /\
               Forall IrCfgSpec.is_phi phis /\
               Forall (fun s => ~ IrCfgSpec.is_phi s) body /\
               Forall2 IrCfgSpec.same_kind (Ir.b_stmts b) body)
          (Ir.c_blocks c) (Ir.c_blocks c').
Proof. exact Proofs.SsaWellFormed.into_ssa_shape. Qed.
Print Assumptions C12_ssa_blocks_are_phis_then_image.

(* the hypothesis cannot simply be dropped: the mirror copies a phi assignment that
   already stands behind another statement of the input *)
Theorem C12_ssa_shape_needs_phi_free :
  SsaPre.phi_free Proofs.SsaWellFormed.Needed.c_phi = false /\
  exists c', Ssa.into_ssa [[]] [[]] Proofs.SsaWellFormed.Needed.c_phi = Ssa.SOk c' /\
             ~ IrCfgSpec.ssa_shape_of Proofs.SsaWellFormed.Needed.c_phi c'.
Proof. exact Proofs.SsaWellFormed.Needed.phi_free_needed. Qed.
Print Assumptions C12_ssa_shape_needs_phi_free.

(* in particular a block of the output ends in a branch exactly when the block of the
   input does, with the same location and the same targets *)
Theorem C12_ssa_branch_last_iff : forall frontier children c c',
  SsaPre.phi_free c = true -> Ssa.into_ssa frontier children c = Ssa.SOk c' ->
  forall i b b', nth_error (Ir.c_blocks c) i = Some b -> nth_error (Ir.c_blocks c') i = Some b' ->
  forall m t f,
    (exists e, IrCfgSpec.last_stmt b' = Some (Ir.SIf m e t f)) <->
    (exists e, IrCfgSpec.last_stmt b = Some (Ir.SIf m e t f)).
Proof. exact Proofs.SsaWellFormed.into_ssa_last_branch. Qed.
Print Assumptions C12_ssa_branch_last_iff.

(* (3) every clause of C12 on graphs with statements (IrCfgSpec.cfg_wf: index = position,
   entry without predecessor, edges in range, predecessors mirror successors, a branch only
   last, its targets existing successors with true target = next block, at most two
   successors and one without a branch, every block reachable, dominance implies <=,
   descending paths) is carried from c to any c' of that shape - a statement about two
   graphs, no mirror involved ... *)
Theorem C12_phis_in_front_keep_wf : forall c c',
  IrCfgSpec.ssa_shape_of c c' -> IrCfgSpec.cfg_wf c -> IrCfgSpec.cfg_wf c'.
Proof. exact Proofs.SsaWellFormed.ssa_shape_keeps_wf. Qed.
Print Assumptions C12_phis_in_front_keep_wf.

(* ... hence by the SSA conversion *)
Theorem C12_ssa_keeps_wf : forall frontier children c c',
  SsaPre.phi_free c = true -> Ssa.into_ssa frontier children c = Ssa.SOk c' ->
  IrCfgSpec.cfg_wf c -> IrCfgSpec.cfg_wf c'.
Proof. exact Proofs.SsaWellFormed.into_ssa_keeps_wf. Qed.
Print Assumptions C12_ssa_keeps_wf.

(* the bridge from the theorems about Model.Lift.lift: the graph WITH statements that the
   content-carrying lifting mirror returns (Model.LiftFull.lift_to_ir, tied to the real
   try_lift_impl by C13's liftfull stage) holds no phi expression and satisfies every clause
   (through C13_liftfull_skeleton: its skeleton is the graph Model.Lift.lift builds) *)
Theorem C12_lifted_graph_wf : forall kind params pfile ploc body c,
  Model.LiftFull.lift_to_ir kind params pfile ploc body = Ok c ->
  SsaPre.phi_free c = true /\ IrCfgSpec.cfg_wf c.
Proof. exact Proofs.SsaLiftedWf.lifted_graph_wf. Qed.
Print Assumptions C12_lifted_graph_wf.

(* after into_cfg AND after into_ssa, no hypothesis left: whatever the tables, the SSA form
   of a lifted definition has the shape of (2) and satisfies every clause *)
Theorem C12_lifted_ssa_graph_wf : forall kind params pfile ploc body c frontier children c',
  Model.LiftFull.lift_to_ir kind params pfile ploc body = Ok c ->
  Ssa.into_ssa frontier children c = Ssa.SOk c' ->
  IrCfgSpec.ssa_shape_of c c' /\ IrCfgSpec.cfg_wf c'.
Proof. exact Proofs.SsaLiftedWf.lifted_ssa_cfg_wf. Qed.
Print Assumptions C12_lifted_ssa_graph_wf.

(* the skeleton of the SSA graph behind its leading phi assignments (Spec.IrSkel.ir_skel)
   IS the graph Model.Lift.lift builds from the skeleton of the body, for any naming [key]
   of statements by their location: every theorem of this file and of props/C13.v stated
   under `lift body = Ok g` speaks about the graph after into_ssa ... *)
Theorem C12_lifted_ssa_skeleton : forall key kind params pfile ploc body r frontier children c',
  Model.LiftFull.try_lift_impl kind params pfile ploc body = Ok r ->
  Ssa.into_ssa frontier children (Model.LiftFull.erase_cfg (Model.LiftFull.l_cfg r)) = Ssa.SOk c' ->
  lift (Model.LiftFull.skel key body) = Ok (IrSkel.ir_skel key c').
Proof. exact Proofs.SsaLiftedWf.lifted_ssa_skeleton. Qed.
Print Assumptions C12_lifted_ssa_skeleton.

(* ... for instance C12_loop_depth_is_nesting: the statements of the SSA graph behind the
   phis, in block order with the recorded loop depth of their block, are the statements
   and conditions of the source in source order with their syntactic loop nesting *)
Theorem C12_ssa_loop_depth_is_nesting : forall key kind params pfile ploc body r frontier children c',
  Model.LiftFull.try_lift_impl kind params pfile ploc body = Ok r ->
  Ssa.into_ssa frontier children (Model.LiftFull.erase_cfg (Model.LiftFull.l_cfg r)) = Ssa.SOk c' ->
  graph_items (IrSkel.ir_skel key c') = nesting 0 (Model.LiftFull.skel key body).
Proof. exact Proofs.SsaLiftedWf.lifted_ssa_loop_depths. Qed.
Print Assumptions C12_ssa_loop_depth_is_nesting.

(* non-vacuity:  var x = 0; while (x < 3) { x = x + 1; }  x = x + 4;  lifts to four blocks,
   the conversion (tables of its dominator tree) puts a phi assignment in front of the
   branch of the loop header - phis first, branch last -, and the theorems apply *)
Example C12_after_ssa_witness :
  let c := Proofs.SsaWellFormedExample.ex_c0 in
  let c' := Proofs.SsaWellFormedExample.ex_c1 in
  Model.LiftFull.lift_to_ir Ir.KTemplate [] (Some 0%N) (10%N, 12%N) Proofs.SsaWellFormedExample.ex_body = Ok c /\
  Ssa.into_ssa Proofs.SsaWellFormedExample.ex_frontier Proofs.SsaWellFormedExample.ex_children c = Ssa.SOk c' /\
  map (fun b => map IrSkel.is_phi_b (Ir.b_stmts b)) (Ir.c_blocks c') =
    [[false; false]; [true; false]; [false]; [false]] /\
  SsaPre.phi_free c = true /\ IrCfgSpec.ssa_shape_of c c' /\ IrCfgSpec.cfg_wf c' /\
  lift (Model.LiftFull.skel Proofs.SsaWellFormedExample.ex_key Proofs.SsaWellFormedExample.ex_body) =
    Ok (IrSkel.ir_skel Proofs.SsaWellFormedExample.ex_key c').
Proof.
  destruct Proofs.SsaWellFormedExample.ex_runs as (H1 & H2 & _ & _). cbv zeta.
  split; [exact H1|]. split; [exact H2|]. split; [vm_compute; reflexivity|].
  destruct (C12_lifted_graph_wf _ _ _ _ _ _ H1) as [Hp _]. split; [exact Hp|].
  destruct (C12_lifted_ssa_graph_wf _ _ _ _ _ _ _ _ _ H1 H2) as [Hs Hw]. split; [exact Hs|]. split; [exact Hw|].
  vm_compute. reflexivity.
Qed.

(* ======================================================================== *)
(* Fourth audit: the TIE of the theorems above inside C12's own run.         *)
(* The harness dumps the REAL graph with its statements before and after    *)
(* into_ssa for every definition of the template stage; the model driver    *)
(* evaluates on each pair  SsaPre.phi_free before  (the hypothesis of (2)), *)
(* IrCfgCheck.cfg_wf_b before / after  and  IrCfgCheck.ssa_shape_b before   *)
(* after.  These decision procedures are sound for the specification        *)
(* predicates the theorems are stated with:                                 *)
(* ======================================================================== *)
Require Model.IrCfgCheck Proofs.IrCfgCheckSound.

(* same frames; every block of c' = top-level phi assignments ++ the statements of the block of
   c one for one and of the same kind, none a phi assignment: in particular PHIS FIRST *)
Theorem C12_ssa_shape_b_sound : forall c c',
  IrCfgCheck.ssa_shape_b c c' = true -> IrCfgSpec.ssa_shape_of c c'.
Proof. exact Proofs.IrCfgCheckSound.ssa_shape_b_sound. Qed.
Print Assumptions C12_ssa_shape_b_sound.

(* the ten clauses of IrCfgSpec.cfg_wf (seven decided as they stand; reachability, "i dominates j
   implies i <= j" and the descending paths from the sufficient condition "every block but the
   first has a predecessor with a smaller index").  cfg_wf holds NEITHER "loop depth = nesting"
   (C12_loop_depth_is_nesting / C12_ssa_loop_depth_is_nesting, through the skeleton; on real
   graphs: the depth clause of lifteng.wellformed_failures, by span containment) NOR "phis first"
   (part of ssa_shape_of, above). *)
Theorem C12_cfg_wf_b_sound : forall c,
  IrCfgCheck.cfg_wf_b c = true -> IrCfgSpec.cfg_wf c.
Proof. exact Proofs.IrCfgCheckSound.cfg_wf_b_sound. Qed.
Print Assumptions C12_cfg_wf_b_sound.
