(* C12 — the control-flow graph of every definition is well formed.
   Property theorems only: each is closed by [exact] of a lemma of
   Proofs.LiftTheorems / Proofs.LiftTotal, followed by Print Assumptions.
   [lift] is the mirror of build_basic_blocks (Model.Lift); [path], [reachable],
   [dominates], [nesting], [graph_items], [parser_shaped] are Spec.CfgSpec;
   [desugared_shape] is Proofs.LiftTotalFlat. *)
From stdpp Require Import list.
Require Import Model.Lift Spec.CfgSpec Proofs.LiftTheorems Proofs.LiftTotal Proofs.LiftComplexity Proofs.LiftTotalFlat.
Require Model.Ast Model.Ir Model.LiftFull Proofs.MirrorsShape.
Import Base(outcome, Ok, Panic).

(* block 0 is the entry (a block's index is its position) and has no predecessor *)
Theorem C12_entry_no_pred : forall body g, lift body = Ok g ->
  (forall i b, g !! i = Some b -> b_index b = i) /\
  exists b0, g !! 0 = Some b0 /\ b_preds b0 = [].
Proof. exact entry_no_pred. Qed.
Print Assumptions C12_entry_no_pred.

(* every block is reachable from block 0 along successor edges *)
Theorem C12_all_reachable : forall body g, lift body = Ok g ->
  forall j, j < length g -> reachable g j.
Proof. exact all_reachable. Qed.
Print Assumptions C12_all_reachable.

(* successor and predecessor sets mirror each other (and name existing blocks) *)
Theorem C12_preds_succs_mirror : forall body g, lift body = Ok g ->
  forall i j,
    (exists bi, g !! i = Some bi /\ j ∈ b_succs bi) <-> (exists bj, g !! j = Some bj /\ i ∈ b_preds bj).
Proof. exact preds_succs_mirror. Qed.
Print Assumptions C12_preds_succs_mirror.

(* a branch statement occurs only as the last statement of a block *)
Theorem C12_branch_only_last : forall body g, lift body = Ok g ->
  forall i b k c t f,
    g !! i = Some b -> b_items b !! k = Some (IBranch c t f) -> S k = length (b_items b).
Proof. exact branch_only_last. Qed.
Print Assumptions C12_branch_only_last.

(* its targets are existing blocks contained in the successor set (the true
   target is the next block; a recorded false target differs from it) *)
Theorem C12_branch_targets_exist_and_are_succs : forall body g, lift body = Ok g ->
  forall i b c t f,
    g !! i = Some b -> last (b_items b) = Some (IBranch c t f) ->
    t = S i /\ t < length g /\ t ∈ b_succs b /\
    forall x, f = Some x -> x < length g /\ x ∈ b_succs b /\ x <> t.
Proof. exact branch_targets_exist_and_are_succs. Qed.
Print Assumptions C12_branch_targets_exist_and_are_succs.

(* no block has more than two successors, one without a branch *)
Theorem C12_at_most_two_succs : forall body g, lift body = Ok g ->
  forall i b, g !! i = Some b ->
    NoDup (b_succs b) /\ length (b_succs b) <= 2 /\ (~ ends_in_branch b -> length (b_succs b) <= 1).
Proof. exact at_most_two_succs. Qed.
Print Assumptions C12_at_most_two_succs.

(* whenever block i dominates block j (every path from the entry to j passes i), i <= j *)
Theorem C12_dom_implies_le : forall body g, lift body = Ok g ->
  forall i j, j < length g -> dominates g i j -> i <= j.
Proof. exact dom_implies_le. Qed.
Print Assumptions C12_dom_implies_le.

(* every block is reached by a path that stays below it (the fact behind the
   previous theorem and behind "2 + edges - nodes" not underflowing) *)
Theorem C12_descending_path : forall body g, lift body = Ok g ->
  forall j, j < length g -> exists l, path g 0 l j /\ forall x, x ∈ 0 :: l -> x <= j.
Proof. exact descending_path. Qed.
Print Assumptions C12_descending_path.

(* the counting step for program_analysis/src/definition_complexity.rs
   (`let complexity = 2 + edges - nodes;` on usize, edges = sum of
   `successors().len()` over the blocks, nodes = number of blocks): the blocks
   are at most one more than the edges, so (2 + edges) - nodes does not
   underflow and the complexity is at least 1.  Proved from
   C12_descending_path: every block j > 0 ends a non-empty path from block 0,
   so it is the target of an edge, and edges with different targets are
   different members of the successor lists (which are duplicate-free by
   C12_at_most_two_succs, so their lengths are the set sizes the code adds up) *)
Theorem C12_complexity_no_underflow : forall body g, lift body = Ok g ->
  length g <= 1 + list_sum (map (fun b => length (b_succs b)) g) /\
  1 <= 2 + list_sum (map (fun b => length (b_succs b)) g) - length g.
Proof. exact complexity_no_underflow. Qed.
Print Assumptions C12_complexity_no_underflow.

(* the statements of the graph in block order, each with the recorded loop
   depth of its block, are exactly the statements and conditions of the source
   in source order, each with its syntactic loop nesting (a loop condition
   counting outside its loop) *)
Theorem C12_loop_depth_is_nesting : forall body g, lift body = Ok g ->
  graph_items g = nesting 0 body.
Proof. exact loop_depth_is_nesting. Qed.
Print Assumptions C12_loop_depth_is_nesting.

(* every statement and condition of the source occurs exactly once, in source order *)
Theorem C12_every_item_exactly_once : forall body g, lift body = Ok g ->
  concat (map (fun b => map item_key (b_items b)) g) = map fst (nesting 0 body).
Proof. exact every_item_exactly_once. Qed.
Print Assumptions C12_every_item_exactly_once.

(* neither assert! of lifting.rs nor any NonEmptyVec indexing fails on a body
   the parser + desugarer can produce.
   Third audit: the hypothesis used to be Spec.CfgSpec.parser_shaped (an
   initialisation block holds only leaves), which is FALSE for real desugared
   template bodies: remove_tuples_from_statement / the anonymous-component pass put
   a Block of substitutions into an InitializationBlock (`var (a, b) = (1, 2);`,
   `var x = A()(1);`).  [desugared_shape] (Proofs.LiftTotalFlat: the body is a
   block; an entry of an initialisation block is [flat] - leaves, blocks and
   initialisation blocks of flat statements, no `while` / `if`) is the shape they do
   have; it contains parser_shaped (C12_parser_shaped_is_desugared_shape).  The
   check EVALUATES it on every real desugared body of its template stage through the
   decision of C12_desugared_shape_decided (lib/props/C12.py,
   coverage hypothesis_desugared_shape); an unmet hypothesis is a violation. *)
Theorem C12_lift_never_panics : forall body, desugared_shape body -> exists g, lift body = Ok g.
Proof. exact lift_never_panics_desugared. Qed.
Print Assumptions C12_lift_never_panics.

Theorem C12_parser_shaped_is_desugared_shape : forall body, parser_shaped body -> desugared_shape body.
Proof. exact parser_shaped_desugared_shape. Qed.
Print Assumptions C12_parser_shaped_is_desugared_shape.

(* how the hypothesis is decided on a real syntax tree: the two booleans the
   extracted model driver evaluates (Model.LiftFull.is_block, ast_init_flat) give
   desugared_shape of the skeleton, whatever function of the metas names the leaves *)
Theorem C12_desugared_shape_decided : forall (key : Model.Ir.meta -> nat) (body : Model.Ast.statement),
  Model.LiftFull.is_block body = true -> Model.LiftFull.ast_init_flat body = true ->
  desugared_shape (Model.LiftFull.skel key body).
Proof. exact Proofs.MirrorsShape.skel_desugared_shape. Qed.
Print Assumptions C12_desugared_shape_decided.

(* non-vacuity: the `while` test of the repository lifts to its four blocks; a
   body that is not a block and a loop inside an initialisation block hit the
   two assert!s *)
Example C12_witnesses :
  lift (SBlock [SInit [SLeaf 1 false; SLeaf 2 false]; SWhile 3 (SBlock [SLeaf 4 false]); SLeaf 5 true]) =
    Ok [Block 0 0 [ILeaf 1; ILeaf 2] [] [1];
        Block 1 0 [IBranch 3 2 (Some 3)] [0; 2] [2; 3];
        Block 2 1 [ILeaf 4] [1] [1];
        Block 3 0 [ILeaf 5] [1] []] /\
  lift (SLeaf 1 false) = Panic site_body_not_block /\
  lift (SBlock [SInit [SWhile 1 (SLeaf 2 false)]]) = Panic site_init_nonempty /\
  parser_shaped (SBlock [SIf 1 (SLeaf 2 false) None]).
Proof. vm_compute. repeat split; try reflexivity. by eexists. Qed.

(* `var (a, b) = (1, 2);` after the desugarer: a block inside an initialisation
   block - of desugared shape, not parser shaped, and it lifts *)
Example C12_desugared_shape_witness :
  let body := SBlock [SInit [SLeaf 1 false; SLeaf 2 false; SBlock [SLeaf 3 false; SLeaf 4 false]]; SLeaf 5 true] in
  desugared_shape body /\ ~ parser_shaped body /\
  lift body = Ok [Block 0 0 [ILeaf 1; ILeaf 2; ILeaf 3; ILeaf 4; ILeaf 5] [] []].
Proof.
  split; [split; [by eexists|reflexivity]|]. split; [|reflexivity].
  intros [_ H]. vm_compute in H. discriminate.
Qed.
