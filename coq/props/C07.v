(* C07 - degree claims are sound.  The operator tables are REGENERATED from
   /repo on every run (Gen.DegreeTable, by executing degree_meta.rs); the
   theorems below are re-checked against them, so an edited table entry breaks
   an obligation here. *)
From Coq Require Import ZArith List Bool.
Require Import Model.Base Model.Ir Model.Propagate Gen.DegreeTable Spec.PolyDeg.
Require Import Model.Justify Model.DegJustify Spec.DegSem Proofs.PolyDegProofs Proofs.DegreeProofs Proofs.DegGraphProofs.
Import ListNotations.
Local Open Scope Z_scope.

(* the calculus: degrees add under multiplication (discrete Leibniz rule) *)
Theorem C07_Deg_mul : forall (V : Type) line p m n (F G : V -> Z),
  Deg V line p m F -> Deg V line p n G -> Deg V line p (m + n) (fun r => (F r * G r) mod p).
Proof. exact Deg_mul. Qed.
Print Assumptions C07_Deg_mul.

Theorem C07_Deg_add : forall (V : Type) line p m n (F G : V -> Z),
  Deg V line p m F -> Deg V line p n G -> Deg V line p (Nat.max m n) (fun r => (F r + G r) mod p).
Proof. exact Deg_add. Qed.
Print Assumptions C07_Deg_add.

(* every entry of the regenerated table is at least the sound composition rule *)
Theorem C07_degree_table_sound : forall op a b, deg_leb (sound_deg op a b) (deg_infix op a b) = true.
Proof. exact degree_table_sound. Qed.
Print Assumptions C07_degree_table_sound.

Theorem C07_degree_prefix_table_sound : forall op a, deg_leb (sound_deg_prefix op a) (deg_prefix op a) = true.
Proof. exact degree_prefix_table_sound. Qed.
Print Assumptions C07_degree_prefix_table_sound.

(* upper bounds compose: the table is monotone *)
Theorem C07_degree_table_monotone : forall op a a' b b',
  deg_leb a' a = true -> deg_leb b' b = true ->
  deg_leb (deg_infix op a' b') (deg_infix op a b) = true.
Proof. exact degree_table_monotone. Qed.
Print Assumptions C07_degree_table_monotone.

(* the range-level functions, as executed, are the pointwise liftings of the model *)
Theorem C07_range_tables_consistent :
  forallb (fun '(op, a, b, r) => drange_eqb (range_infix op a b) r) range_infix_table = true /\
  forallb (fun '(op, a, r) => drange_eqb (range_prefix op a) r) range_prefix_table = true /\
  forallb (fun '(a, b, r) => drange_eqb (range_inf a b) r) range_inf_table = true /\
  forallb (fun '(a, (c, l, q)) =>
             Bool.eqb (range_is_constant a) c && Bool.eqb (range_is_linear a) l && Bool.eqb (range_is_quadratic a) q)
          range_pred_table = true.
Proof. exact range_tables_consistent. Qed.
Print Assumptions C07_range_tables_consistent.

Theorem C07_range_tables_complete :
  N.of_nat (length range_infix_table) = 5120%N /\ N.of_nat (length range_prefix_table) = 48%N /\
  N.of_nat (length range_inf_table) = 256%N /\ N.of_nat (length range_pred_table) = 16%N.
Proof. exact range_tables_complete. Qed.
Print Assumptions C07_range_tables_complete.

(* semantic soundness of the bound attached to `F op G`, for every operator *)
Theorem C07_infix_bound_sound : forall (V : Type) line p op a b (F G : V -> Z) h,
  op_den p op h -> SemDeg V line p a F -> SemDeg V line p b G ->
  SemDeg V line p (deg_infix op a b) (fun r => h (F r) (G r)).
Proof. exact infix_bound_sound. Qed.
Print Assumptions C07_infix_bound_sound.

Theorem C07_prefix_bound_sound : forall (V : Type) line p op a (F : V -> Z) h,
  prefix_den p op h -> SemDeg V line p a F -> SemDeg V line p (deg_prefix op a) (fun r => h (F r)).
Proof. exact prefix_bound_sound. Qed.
Print Assumptions C07_prefix_bound_sound.

(* joins selected independently of the valuation (phi, constant-condition switch, arrays) *)
Theorem C07_inf_bound_sound : forall (V : Type) line p a b (F : V -> Z),
  SemDeg V line p a F \/ SemDeg V line p b F -> SemDeg V line p (snd (range_inf (a, a) (b, b))) F.
Proof. exact inf_bound_sound. Qed.
Print Assumptions C07_inf_bound_sound.

(* GRAPH LEVEL: on an array-free graph accepted by the validator
   DegJustify.djust_cfg (which the check runs on the implementation's real
   annotated graph), in every state reachable by the step relation of
   Spec.DegSem - cells hold their value as a function of the valuation; signals
   and component ports are independent indeterminates; the control flow does not
   depend on the valuation - the upper end of every degree range attached to a
   node bounds the degree of the node's value.  For a range whose upper end is
   Quadratic this is exactly "the expression is a polynomial of total degree at
   most two in the signals", the claim behind `unnecessary signal assignment`. *)
Theorem C07_validated_graph_degrees_true :
  forall (V : Type) (line : V -> V -> Z -> V) (p : Z)
         (sem2 : infix_op -> Z -> Z -> Z) (sem1 : prefix_op -> Z -> Z) (call_sem : ident -> list Z -> Z),
  (forall op, op_den p op (sem2 op)) -> (forall op, prefix_den p op (sem1 op)) ->
  forall c, djust_cfg c = true ->
  forall s0 s e F r,
  finit_ok V line p c s0 -> freachable V p sem2 sem1 call_sem c s0 s ->
  djust_expr c e = true -> den V p sem2 sem1 call_sem s e = Some F -> expr_deg e = Some r ->
  SemDeg V line p (snd r) F.
Proof. exact justified_degrees_true. Qed.
Print Assumptions C07_validated_graph_degrees_true.

(* the step relation keeps every cell within the range its reads carry *)
Theorem C07_step_preserves :
  forall (V : Type) (line : V -> V -> Z -> V) (p : Z)
         (sem2 : infix_op -> Z -> Z -> Z) (sem1 : prefix_op -> Z -> Z) (call_sem : ident -> list Z -> Z),
  (forall op, op_den p op (sem2 op)) -> (forall op, prefix_den p op (sem1 op)) ->
  forall c, djust_cfg c = true ->
  forall s s', fstore_ok V line p c s -> fstep V p sem2 sem1 call_sem c s s' -> fstore_ok V line p c s'.
Proof. exact fstep_preserves. Qed.
Print Assumptions C07_step_preserves.

(* non-vacuity: over valuations Z with line rho delta t = rho + t*delta, the
   identity has degree 1, its square degree 2, and the square is not linear mod 7 *)
Example C07_square_is_quadratic_not_linear :
  Deg Z (fun r d t => r + t * d) 7 2 (fun r => (r * r) mod 7) /\
  ~ Deg Z (fun r d t => r + t * d) 7 1 (fun r => (r * r) mod 7).
Proof.
  split.
  - apply (Deg_mul Z (fun r d t => r + t * d) 7 1 1 (fun r => r) (fun r => r));
      intros rho delta t; cbn [Dn]; unfold Dd; replace (_ - _) with 0 by ring; reflexivity.
  - intros H. specialize (H 0 1 0). vm_compute in H. discriminate.
Qed.

(* Not reached by proof (reported as open statements in the evidence): array
   forms (excluded from the validator; since /repo 920512c their degree is the join
   over the indices and every earlier element, exercised by the mirror
   correspondence and the finite-difference oracle only), joins
   under signal-dependent control (outside the step relation: known finding
   C07-ctl-merge), and a universal theorem that Model.Propagate's degree passes
   always produce a graph accepted by djust_cfg (established per explored
   definition by running the validator on the implementation's output). *)
