(* C07 - degree claims are sound.  The operator tables are REGENERATED from
   /repo on every run (Gen.DegreeTable, by executing degree_meta.rs); the
   theorems below are re-checked against them, so an edited table entry breaks
   an obligation here. *)
From Coq Require Import ZArith List Bool Lia Sorting.Sorted.
Require Import Model.Base Model.Ir Model.Propagate Gen.DegreeTable Spec.PolyDeg.
Require Import Model.Justify Model.DegJustify Spec.DegSem Proofs.PolyDegProofs Proofs.DegreeProofs Proofs.DegGraphProofs Proofs.ValueProofs.
Require Model.Lift Spec.CfgSpec Spec.CtlSpec Proofs.CtlStructure.
Require Import Model.SsaCheck Model.DegGraph Model.DegWf Spec.SsaDomSpec Spec.DegSemDom Spec.DegRun.
Require Import Proofs.DegGraphIdom Proofs.DegGraphTableFree Proofs.DegRunProofs Proofs.DegSemTotal Proofs.DegSemVariant.
Require Proofs.MirrorsDom Proofs.CtlBridge Proofs.CtlBridgeExample.
Require Model.Ssa Model.SsaPre Model.LiftFull Proofs.CtlChain Proofs.CtlChainExample.
Require Import Proofs.DegRunBranch Proofs.DegRunDecided.
Require Import Model.DegJustifyLe Proofs.DegGraphLe.
Require Proofs.CtlChainRuns Proofs.CtlChainRunsExample.
Require Model.DegLoops Proofs.DegRunLoops Proofs.DegRunLoopsExample.
Import ListNotations.
Local Open Scope Z_scope.

(* the calculus: degrees add under multiplication (discrete Leibniz rule) *)
Theorem C07_Deg_mul : forall (V : Type) line p m n (F G : V -> Z),
  Deg V line p m F -> Deg V line p n G -> Deg V line p (m + n) (fun r => (F r * G r) mod p).
Proof. exact Deg_mul. Qed.
Print Assumptions C07_Deg_mul.

Theorem C07_Deg_add : forall (V : Type) line p m n (F G : V -> Z),
  Deg V line p m F -> Deg V line p n G -> Deg V line p (Nat.max m n) (fun r => (F r + G r) mod p).
Proof. exact Deg_add. Qed.
Print Assumptions C07_Deg_add.

(* every entry of the regenerated table is at least the sound composition rule *)
Theorem C07_degree_table_sound : forall op a b, deg_leb (sound_deg op a b) (deg_infix op a b) = true.
Proof. exact degree_table_sound. Qed.
Print Assumptions C07_degree_table_sound.

Theorem C07_degree_prefix_table_sound : forall op a, deg_leb (sound_deg_prefix op a) (deg_prefix op a) = true.
Proof. exact degree_prefix_table_sound. Qed.
Print Assumptions C07_degree_prefix_table_sound.

(* upper bounds compose: the table is monotone *)
Theorem C07_degree_table_monotone : forall op a a' b b',
  deg_leb a' a = true -> deg_leb b' b = true ->
  deg_leb (deg_infix op a' b') (deg_infix op a b) = true.
Proof. exact degree_table_monotone. Qed.
Print Assumptions C07_degree_table_monotone.

(* the range-level functions, as executed, are the pointwise liftings of the model *)
Theorem C07_range_tables_consistent :
  forallb (fun '(op, a, b, r) => drange_eqb (range_infix op a b) r) range_infix_table = true /\
  forallb (fun '(op, a, r) => drange_eqb (range_prefix op a) r) range_prefix_table = true /\
  forallb (fun '(a, b, r) => drange_eqb (range_inf a b) r) range_inf_table = true /\
  forallb (fun '(a, (c, l, q)) =>
             Bool.eqb (range_is_constant a) c && Bool.eqb (range_is_linear a) l && Bool.eqb (range_is_quadratic a) q)
          range_pred_table = true.
Proof. exact range_tables_consistent. Qed.
Print Assumptions C07_range_tables_consistent.

Theorem C07_range_tables_complete :
  N.of_nat (length range_infix_table) = 5120%N /\ N.of_nat (length range_prefix_table) = 48%N /\
  N.of_nat (length range_inf_table) = 256%N /\ N.of_nat (length range_pred_table) = 16%N.
Proof. exact range_tables_complete. Qed.
Print Assumptions C07_range_tables_complete.

(* semantic soundness of the bound attached to `F op G`, for every operator *)
Theorem C07_infix_bound_sound : forall (V : Type) line p op a b (F G : V -> Z) h,
  op_den p op h -> SemDeg V line p a F -> SemDeg V line p b G ->
  SemDeg V line p (deg_infix op a b) (fun r => h (F r) (G r)).
Proof. exact infix_bound_sound. Qed.
Print Assumptions C07_infix_bound_sound.

Theorem C07_prefix_bound_sound : forall (V : Type) line p op a (F : V -> Z) h,
  prefix_den p op h -> SemDeg V line p a F -> SemDeg V line p (deg_prefix op a) (fun r => h (F r)).
Proof. exact prefix_bound_sound. Qed.
Print Assumptions C07_prefix_bound_sound.

(* joins selected independently of the valuation (phi, constant-condition switch, arrays) *)
Theorem C07_inf_bound_sound : forall (V : Type) line p a b (F : V -> Z),
  SemDeg V line p a F \/ SemDeg V line p b F -> SemDeg V line p (snd (range_inf (a, a) (b, b))) F.
Proof. exact inf_bound_sound. Qed.
Print Assumptions C07_inf_bound_sound.

(* GRAPH LEVEL.  WHAT IS PROVED AND WHAT IS ASSUMED (third audit).

   The semantics.  Spec.DegSem is a LOCK-STEP SYMBOLIC relation: a store holds every cell
   as a function of the valuation (element by element for an array; signals and component
   ports are independent indeterminates; never-assigned locals hold zeros), and a step
   fires ONE statement of the graph for ALL valuations at once - any statement, at any
   time: the relation has no program counter.  An assignment stores the denotation of its
   right-hand side; a phi copies, for every valuation, one of its arguments, and the
   choice may depend on the valuation only if one of the branch conditions [decides] names
   is denotable and varies with the valuation in the current store (signal-dependent
   control IS covered by the relation: since /repo D18 the analysis accounts for it).

   Proved about it, for every graph accepted by the validator DegJustify.djust_cfg (which
   the check runs on the implementation's real annotated graph, array forms included):
     (1) C07_validated_graph_degrees_true - in every reachable store the upper end of every
         degree range attached to a node bounds the degree of the node's value, of EVERY
         element of it for an array.  For a range whose upper end is Quadratic this is
         exactly "polynomial of total degree at most two in the signals", the claim behind
         `unnecessary signal assignment`.  Holds for ANY table of the right shape; what the
         relation MEANS depends on the table, hence:
     (2) C07_decides_is_dominance_control_dependence / C07_validated_graph_degrees_true_table_free
         - with a consistent graph and THE immediate-dominator table (two decidable
         hypotheses, Model.DegGraph, evaluated by the check on every graph) the table walk
         [decides] is the table-free notion "ends a block q with idom(j) dom q dom p, p a
         predecessor of j" over path-based dominance, and (1) holds for the relation
         Spec.DegSemDom that never mentions a table.
     (3) C07_same_path_runs_represented / C07_concrete_runs_claims_true - CONCRETE
         EXECUTIONS (Spec.DegRun: one valuation, a store of numbers, a path of blocks that
         follows the branch conditions, phis copy the version that arrives along the edge):
         every family of concrete runs, one per valuation, that follow THE SAME path of
         blocks is represented by one reachable store of the lock-step relation; so every
         claim of a validated graph is true of the function  valuation |-> concrete value.
         Loops and branches are included as long as all valuations of the family take the
         same way (constant trip counts, conditions that do not separate the family).
     (3') C07_diverging_runs_represented / C07_diverging_runs_claims_true - families whose
         paths DIFFER between valuations, for LOOP-FREE graphs (every run visits the blocks
         in increasing order) in single-assignment form: the lock-step relation fires every
         visited block for all valuations (speculatively for those that do not visit it),
         a join phi copies for each valuation the argument that arrives along ITS path.
         ASSUMED of the family there ([picks_decided]): two runs that enter a block with
         different arriving arguments enter a join and differ on the value of a condition
         [decides] names, in the stores with which they enter it - the control-dependence
         assumption in concrete terms.  C07_picks_decided_in_validated_loop_free_graphs
         DERIVES it for graphs that pass C14's SSA validator (SsaCheck.infos_ok), have the
         lists of a lifted skeleton, are consistent and come with their true table; so
         C07_loop_free_runs_represented / C07_loop_free_runs_claims_true assume NOTHING of
         the family but that its runs start at the entry block: for such graphs every
         claim is true of  valuation |-> concrete value  whatever way the valuations go.
     (4) C07_undenotable_means_not_yet_assigned, C07_undenotable_unconstrained_variant_refuted
         - "a deciding condition without denotation does not vary" is an over-approximation
         on stores that start total (a condition is undenotable only while it reads a local
         whose assignment has not fired: nobody has evaluated it), and the variant "leaves
         the choice unconstrained" is unsound for a relation without program counter.

     (3'') C07_loops_runs_represented / C07_loops_runs_claims_true (proof round 4) - graphs WITH
         LOOPS whose runs differ inside the loop bodies but stay in step at the loop headers: the
         path of every valuation is cut into ASCENDING SEGMENTS (a new segment starts where a back
         edge is taken) and the segments of all valuations start with the same blocks (same number
         of header entries, in the same order; inside a segment every valuation goes its own
         way).  The lock-step relation fires, once per segment and in index order, every block
         some run visits in that segment, for all valuations; on the next iteration this
         OVERWRITES a cell for the valuations that skip the assignment then.  Proved harmless: the
         invariant speaks of the cells that are VALID for a run (their defining block was last
         fired at a step the run took part in), every read of a run names the running version
         (C14's validator, SsaCheck.infos_ok) and a cell holding the running version is valid.
         The last step needs that the version current at the exit of a block is never one that a
         block with a LARGER index assigns: Model.DegLoops.no_future_version, decidable on the
         validator's maps, part of Model.DegLoops.loops_ok (with single assignment, every
         assigned local carries a version, an update base read without a running version is
         assigned by no statement).
         Conclusion: ONE reachable store that holds, at every valuation, every cell of the run's
         final store that the run can still read (the running version of its variable, or a name
         the graph never assigns: [current_at]); hence every claim of a validated graph on an
         expression whose reads are current at the end of the runs is true of
         valuation |-> concrete value.
         ASSUMED of the family there (as in (3') before its derivation) - and NOT EVALUATED by the
         check on any case (the evidence counts the GRAPH hypotheses only) - : [picks_decided_sched],
         two runs that enter a block in the same segment with different arriving phi arguments
         enter a join and differ on a deciding condition whose operands are valid for both and
         are not merged by a phi of that block that stands BEFORE the phi in question.  (Fourth
         audit: the first form forbade every phi target of the block and was false for a loop
         header with two back edges whose parting condition reads the header's own phi target;
         the proof never needed more than "no EARLIER phi", and that shape now satisfies every
         hypothesis: C07_header_two_back_edges_example.)
     (3''') C07_varying_decider_phi_no_low_claim - towards loops with a valuation-dependent trip
         count: in a validated graph a phi of a join one of whose deciding conditions varies with
         the valuation in some reachable store (the loop condition of such a loop is one: it ends
         the header, which lies on the dominator chain of the back edge) carries no claim or a
         claim with upper end NonQuadratic.  This is a fact about the lock-step relation; nothing
         ties a concrete run of such a loop to such a store.

   HOW THE RUN THEOREMS (3) (3') (3'') ARE TO BE READ (fourth audit).
     - NO PROGRESS THEOREM.  Each of them ASSUMES that every valuation of the family has a
       completing run (`forall rho, cexec_path .. = Some (s rho)`); none says that a validated,
       consistent graph gives one.  A run stops (None) when it reads a cell that is not in its
       store, when a branch condition has no value, or when the path does not follow the branch;
       that reads of versioned locals name defined cells on every path is C14's statement about
       version maps (SsaCheck.infos_ok), not yet carried to the stores of Spec.DegRun.  A
       valuation whose run stops is simply not in any family the theorems speak about.
     - SUB-FAMILY READING.  The conclusion is about an expression that has a value in the FINAL
       store of EVERY valuation of the family (`forall rho, cval (s rho) e = Some (val rho)`).  A
       claim attached to an expression inside a branch is therefore covered only through the
       families V all of whose valuations take that branch (V and `line` are abstract: any set of
       valuations closed under the lines considered); the theorems do not say "for the full
       valuation space" about a node some valuations never reach.
     - WHAT TIES THE GRAPH HYPOTHESES TO THE REAL TOOL: decidable ones are evaluated per explored
       graph; `dom_graph_of c = to_dom g /\ Lift.lift body = Ok g` of (3') is established by C13's
       engine on ITS sample, not per case here; [picks_decided_sched] of (3'') on no case.

   SIGNAL-DEPENDENT TRIP COUNTS: WHAT IS ESTABLISHED FOR THE REAL TOOL (fourth audit).  No
   representation theorem (no lock-step store represents such a family: a valuation that has left
   the loop cannot keep its cells while the body fires again for the others).  Established:
   (i) the validator accepts the real annotated graph, hence (1) for the lock-step relation and
   (3''') for the phis of the header; (ii) the check's finite-difference ORACLE, which judges such
   programs per iteration context (the stack of enclosing loops with their iteration numbers): a
   claim is compared on the runs that reach the node in the same context, and a context reached by
   fewer than d + 2 of the runs of a line is discarded (evidence degree_oracle,
   discarded_signal_dependent_paths) - on the five-point lines a claim `<= quadratic` inside such a
   loop is judged in its first iteration only, `<= linear` in the first two; behind the loop all
   runs are compared again.  That is: VALIDATOR + ORACLE ONLY; "everything computed from a header
   phi inherits NonQuadratic" is an argument, not a theorem about runs.

   NOT PROVED - OPEN (reported under coverage.open_statements by the check):
     (a) families of concrete runs whose paths DIFFER: PROVED for loop-free graphs (3') and, under
         the assumption [picks_decided_sched], for graphs with loops whose runs stay in step at
         the headers (3'').  OPEN: deriving that assumption from the graph as (3') does.  Without a
         side condition it is FALSE, not merely open, for a shape real lifting produces: three
         variables merged at a header with two back edges, the parting condition reading one that
         is merged by an EARLIER phi than another (`if (a==x) {x=k; z=1;} else {x=2; z=2;}` as the
         last statement of a loop body: header phis k.1, x.1, z.1; Spec.DegSem.cond_fixed reads
         `a == x.1` for the phi of z.1 after x.1 has been overwritten).  The relation has no program
         counter and could fire the phi of z.1 first; Proofs.DegRunLoops fires the leading phis in
         block order, and no order helps when the condition reads two merged variables.  The
         restated open statement Proofs.DegRunLoops.C07_loops_picks_decided_full_statement carries
         the side condition [deciders_avoid_earlier_phis]; the analysis is not affected (every phi
         of such a header is judged with a non-constant control: no claim below NonQuadratic).
         Claims on expressions in the MIDDLE of a block whose operands are re-assigned later in
         the same block are covered by (1) for the store, but (3'') relates only the cells that
         are current at the END of the runs to concrete values.
         Loops with a valuation-dependent trip count: see the paragraph above; the full statement
         is Proofs.DegRunLoops.C07_valuation_dependent_trip_counts_full_statement.
     (b) that [decides] names EVERY block whose decision can change the incoming edge is
         PROVED for an IR graph that has, block by block, the predecessor and successor lists
         of a lifted skeleton (C07_lifted_split_is_named_by_decides, from
         C07_lifted_graphs_control_dependence through the true table), and carried along
         the chain of the mirrors - lifting (Model.LiftFull.try_lift_impl), SSA conversion
         (Model.Ssa.into_ssa), propagation - by C07_chain_split_is_named_by_decides: the
         annotated graph has the lists of the lifted skeleton of the body.  ASSUMED there:
         the two decidable hypotheses of C14_construction_is_erasure (SsaPre.phi_free,
         SsaPre.decls_ok: evaluated by C14's check), and, as everywhere, that the mirrors
         are the implementation (correspondence, per run).
   [name_code] places component ports in the family of a component; the statements hold
   for every such placement. *)
Theorem C07_validated_graph_degrees_true :
  forall (V : Type) (line : V -> V -> Z -> V) (p : Z)
         (sem2 : infix_op -> Z -> Z -> Z) (sem1 : prefix_op -> Z -> Z) (call_sem : ident -> list Z -> Z)
         (name_code : ident -> Z),
  (forall op, op_den p op (sem2 op)) -> (forall op, prefix_den p op (sem1 op)) ->
  forall c idom, djust_cfg c idom = true ->
  forall s0 s e F r,
  finit_ok V line p c s0 -> freachable V p sem2 sem1 call_sem name_code c idom s0 s ->
  djust_expr c e = true -> den V p sem2 sem1 call_sem name_code s e = Some F -> expr_deg e = Some r ->
  forall i, SemDeg V line p (snd r) (F i).
Proof. exact justified_degrees_true. Qed.
Print Assumptions C07_validated_graph_degrees_true.

(* the step relation keeps every cell within the range its reads carry *)
Theorem C07_step_preserves :
  forall (V : Type) (line : V -> V -> Z -> V) (p : Z)
         (sem2 : infix_op -> Z -> Z -> Z) (sem1 : prefix_op -> Z -> Z) (call_sem : ident -> list Z -> Z)
         (name_code : ident -> Z),
  (forall op, op_den p op (sem2 op)) -> (forall op, prefix_den p op (sem1 op)) ->
  forall c idom, djust_cfg c idom = true ->
  forall s s', fstore_ok V line p c s -> fstep V p sem2 sem1 call_sem name_code c idom s s' -> fstore_ok V line p c s'.
Proof. exact fstep_preserves. Qed.
Print Assumptions C07_step_preserves.

(* a selection by data that do not depend on the valuation (a constant condition, a
   constant array index) among functions within a bound stays within it *)
Theorem C07_selection_sound :
  forall (V : Type) (line : V -> V -> Z -> V) (p : Z) (X : Type) d (K : V -> X) (H : X -> V -> Z),
  (forall r r', K r = K r') -> (forall r, SemDeg V line p d (H (K r))) -> SemDeg V line p d (fun rho => H (K rho) rho).
Proof. exact select_general. Qed.
Print Assumptions C07_selection_sound.

(* CONTROL DEPENDENCE IN LIFTED GRAPHS: what Spec.DegSem.decides assumes of the graphs
   lifting produces, stated on paths only (Spec.CtlSpec; no immediate-dominator table) and
   proved for the skeleton graphs of Model.Lift.lift by induction over the statement
   (Proofs.CtlStructure).  A block b whose decision can change the edge along which a join
   j is entered - [can_split]: two walks from b to j that have nothing in common but their
   ends; Proofs.CtlStructure.split_exists shows for every graph that any two walks from a
   common block that enter j along different edges have such a block in common - lies on
   the dominator-tree path from some predecessor p of j up to the immediate dominator d of
   j, i.e. among the blocks Spec.DegSem.above walks - [on_dom_chain]: b dominates p, d is
   the closest strict dominator of j and dominates b ([dominates] is reflexive, so b = p
   and b = d are included).  [is_join] (at least two predecessors) follows from [can_split]
   and is kept for the correspondence with Spec.DegSem.pick_ok.  The weaker reading of
   can_split in which the two walks may meet is NOT what decides the edge and the
   implication is false for it (Proofs.CtlStructure.meeting_variant_refuted:
   `if (a) {x}  if (c) {y}  z`, block 0 and the join 4 of the second `if`). *)
Theorem C07_lifted_graphs_control_dependence :
  forall (body : Lift.sk) (g : list Lift.block), Lift.lift body = Base.Ok g ->
  forall b j : nat, CtlSpec.can_split g b j -> CtlSpec.is_join g j -> CtlSpec.on_dom_chain g j b.
Proof. exact CtlStructure.lifted_control_dependence. Qed.
Print Assumptions C07_lifted_graphs_control_dependence.

(* (2) THE TABLE WALK IS CONTROL DEPENDENCE OVER TRUE DOMINATORS.  On a consistent graph
   (b_index = position, predecessor lists exactly the inverse of the successor lists, entry
   without predecessor, every block reachable) and with the table the mirror of
   DominatorTree::new computes on it (which C15 proves to be the path-based immediate
   dominators), a condition is named by the table walk [decides] iff it ends a block q
   that dominates a predecessor p of the join and is dominated by the immediate dominator
   of the join - dominance being "lies on every walk from the entry block". *)
Theorem C07_decides_is_dominance_control_dependence :
  forall c idom, graph_consistent c = true -> idom_is_dominator_table c idom = true -> idom_shape c idom = true ->
  forall ij j cond, nth_error (c_blocks c) ij = Some j ->
  (decides c idom j cond <-> decides_dom c ij j cond).
Proof. exact decides_iff_decides_dom. Qed.
Print Assumptions C07_decides_is_dominance_control_dependence.

(* ... and the graph-level theorem for the relation that never mentions a table *)
Theorem C07_validated_graph_degrees_true_table_free :
  forall (V : Type) (line : V -> V -> Z -> V) (p : Z)
         (sem2 : infix_op -> Z -> Z -> Z) (sem1 : prefix_op -> Z -> Z) (call_sem : ident -> list Z -> Z)
         (name_code : ident -> Z),
  (forall op, op_den p op (sem2 op)) -> (forall op, prefix_den p op (sem1 op)) ->
  forall c idom,
  graph_consistent c = true -> idom_is_dominator_table c idom = true -> djust_cfg c idom = true ->
  forall s0 s e F r,
  finit_ok V line p c s0 -> freachable_dom V p sem2 sem1 call_sem name_code c s0 s ->
  djust_expr c e = true -> den V p sem2 sem1 call_sem name_code s e = Some F -> expr_deg e = Some r ->
  forall i, SemDeg V line p (snd r) (F i).
Proof. exact justified_degrees_true_table_free. Qed.
Print Assumptions C07_validated_graph_degrees_true_table_free.

(* (3) CONCRETE EXECUTIONS ARE REPRESENTED (valuation-independent control).  A family of
   concrete runs of Spec.DegRun, one per valuation rho, all along the same path pi, started
   in the stores  s0 rho = the initial family S0 taken at rho, ends in stores that are ONE
   store S reachable by the lock-step relation, taken at rho: for every name x either
   neither has a cell or  s rho x  at every position i  is  F i rho  for the family F of S. *)
Theorem C07_same_path_runs_represented :
  forall (V : Type) (p : Z) (sem2 : infix_op -> Z -> Z -> Z) (sem1 : prefix_op -> Z -> Z)
         (call_sem : ident -> list Z -> Z) (name_code : ident -> Z)
         (c : cfg) (idom : list (option N)) (S0 : fstore V) (L0 : vmap) (pi : list nat) (s0 s : V -> cstore),
  (forall rho, rel_store V rho (s0 rho) S0) ->
  (forall rho, cexec_path p sem2 sem1 call_sem name_code c L0 (s0 rho) pi = Some (s rho)) ->
  exists S, freachable V p sem2 sem1 call_sem name_code c idom S0 S /\ forall rho, rel_store V rho (s rho) S.
Proof. exact same_path_runs_represented. Qed.
Print Assumptions C07_same_path_runs_represented.

(* ... hence every claim of a validated graph is true of the concrete values: if the
   expression e (any expression the validator accepts: every expression of the graph) has
   the value  val rho  at the end of the run of valuation rho, then, position by position,
   valuation |-> val rho i  has the degree the claim says. *)
Theorem C07_concrete_runs_claims_true :
  forall (V : Type) (line : V -> V -> Z -> V) (p : Z)
         (sem2 : infix_op -> Z -> Z -> Z) (sem1 : prefix_op -> Z -> Z) (call_sem : ident -> list Z -> Z)
         (name_code : ident -> Z),
  (forall op, op_den p op (sem2 op)) -> (forall op, prefix_den p op (sem1 op)) ->
  forall (c : cfg) (idom : list (option N)), djust_cfg c idom = true ->
  forall (S0 : fstore V) (L0 : vmap) (pi : list nat) (s0 s : V -> cstore),
  finit_ok V line p c S0 ->
  (forall rho, rel_store V rho (s0 rho) S0) ->
  (forall rho, cexec_path p sem2 sem1 call_sem name_code c L0 (s0 rho) pi = Some (s rho)) ->
  forall e r (val : V -> cell),
  djust_expr c e = true -> expr_deg e = Some r ->
  (forall rho, cval p sem2 sem1 call_sem name_code (s rho) e = Some (val rho)) ->
  forall i, SemDeg V line p (snd r) (fun rho => val rho i).
Proof. exact concrete_runs_claims_true. Qed.
Print Assumptions C07_concrete_runs_claims_true.

(* (3') DIVERGING RUNS, loop-free.  A family of concrete runs, the run of valuation rho along
   its own path  pth rho : strictly increasing (no block twice: the graph is loop-free and
   its blocks are numbered along the edges), finitely many path classes each with a
   representative in [reps]; every local assigned by at most one statement
   ([single_assignment]) and not defined at the start.  If two runs that enter a block with
   different arriving phi arguments always enter a join and differ there on a deciding
   condition ([picks_decided]), the final stores are contained in ONE store reachable by the
   lock-step relation: every cell a run has holds, position by position, the family's value
   at its valuation. *)
Theorem C07_diverging_runs_represented :
  forall (V : Type) (p : Z) (sem2 : infix_op -> Z -> Z -> Z) (sem1 : prefix_op -> Z -> Z)
         (call_sem : ident -> list Z -> Z) (name_code : ident -> Z)
         (c : cfg) (idom : list (option N)) (S0 : fstore V) (L0 : vmap)
         (pth : V -> list nat) (s0 s : V -> cstore) (reps : list V),
  (forall rho, StronglySorted lt (pth rho)) ->
  (forall rho i, In i (pth rho) -> (i < length (c_blocks c))%nat) ->
  (forall rho, exists r, In r reps /\ pth r = pth rho) ->
  single_assignment c -> targets_start_undefined V c S0 ->
  (forall rho, rel_store V rho (s0 rho) S0) ->
  (forall rho, cexec_path p sem2 sem1 call_sem name_code c L0 (s0 rho) (pth rho) = Some (s rho)) ->
  picks_decided V p sem2 sem1 call_sem name_code c idom L0 pth s0 ->
  exists S, freachable V p sem2 sem1 call_sem name_code c idom S0 S /\ forall rho, sub_store V rho (s rho) S.
Proof. exact diverging_runs_represented. Qed.
Print Assumptions C07_diverging_runs_represented.

(* ... hence the claims of a validated graph are true of the concrete values of such a family *)
Theorem C07_diverging_runs_claims_true :
  forall (V : Type) (line : V -> V -> Z -> V) (p : Z)
         (sem2 : infix_op -> Z -> Z -> Z) (sem1 : prefix_op -> Z -> Z) (call_sem : ident -> list Z -> Z)
         (name_code : ident -> Z),
  (forall op, op_den p op (sem2 op)) -> (forall op, prefix_den p op (sem1 op)) ->
  forall (c : cfg) (idom : list (option N)) (S0 : fstore V) (L0 : vmap)
         (pth : V -> list nat) (s0 s : V -> cstore) (reps : list V),
  djust_cfg c idom = true -> finit_ok V line p c S0 ->
  (forall rho, StronglySorted lt (pth rho)) ->
  (forall rho i, In i (pth rho) -> (i < length (c_blocks c))%nat) ->
  (forall rho, exists r, In r reps /\ pth r = pth rho) ->
  single_assignment c -> targets_start_undefined V c S0 ->
  (forall rho, rel_store V rho (s0 rho) S0) ->
  (forall rho, cexec_path p sem2 sem1 call_sem name_code c L0 (s0 rho) (pth rho) = Some (s rho)) ->
  picks_decided V p sem2 sem1 call_sem name_code c idom L0 pth s0 ->
  forall e r (val : V -> cell),
  djust_expr c e = true -> expr_deg e = Some r ->
  (forall rho, cval p sem2 sem1 call_sem name_code (s rho) e = Some (val rho)) ->
  forall i, SemDeg V line p (snd r) (fun rho => val rho i).
Proof. exact diverging_runs_claims_true. Qed.
Print Assumptions C07_diverging_runs_claims_true.

(* THE ASSUMPTION DERIVED.  For a graph c that passes the SSA validator of C14 (infos_ok: the
   entry and exit version maps of every block, checked along every edge), is consistent,
   comes with its true table and has the predecessor / successor lists of a lifted skeleton:
   two runs from the entry block that enter a block with different arriving phi arguments
   entered it along different edges (the arriving version is the exit map of the
   predecessor); the block where they parted for the last time can split the join, so its
   condition is named by [decides] (C07_lifted_split_is_named_by_decides); they left it by
   different successors, so the condition had different values (control is deterministic);
   and in single-assignment form the stores only grow, so it still has those values in the
   stores with which the join is entered. *)
Theorem C07_picks_decided_in_validated_loop_free_graphs :
  forall (V : Type) (p : Z) (sem2 : infix_op -> Z -> Z -> Z) (sem1 : prefix_op -> Z -> Z)
         (call_sem : ident -> list Z -> Z) (name_code : ident -> Z)
         (c : cfg) (idom : list (option N)) (pth : V -> list nat) (s0 s : V -> cstore)
         (infos : list binfo) (g : list Lift.block) (body : Lift.sk),
  (forall rho, StronglySorted lt (pth rho)) ->
  (forall rho i, In i (pth rho) -> (i < length (c_blocks c))%nat) ->
  (forall rho, exists tl, pth rho = 0%nat :: tl) ->
  (forall rho, cexec_path p sem2 sem1 call_sem name_code c (params_map (c_params c)) (s0 rho) (pth rho) = Some (s rho)) ->
  NoDup (local_targets c (all_stmts (c_blocks c))) ->
  (forall rho x, In x (local_targets c (all_stmts (c_blocks c))) -> s0 rho x = None) ->
  infos_ok infos c = true ->
  graph_consistent c = true -> idom_is_dominator_table c idom = true -> idom_shape c idom = true ->
  dom_graph_of c = MirrorsDom.to_dom g -> Lift.lift body = Base.Ok g ->
  picks_decided V p sem2 sem1 call_sem name_code c idom (params_map (c_params c)) pth s0.
Proof. exact picks_decided_holds. Qed.
Print Assumptions C07_picks_decided_in_validated_loop_free_graphs.

(* LOOP-FREE GRAPHS, NO ASSUMPTION ABOUT THE FAMILY.  Every family of concrete runs from the
   entry block of a validated, consistent, single-assignment graph with the lists of a
   lifted skeleton - whatever way each valuation goes - is contained in one store reachable
   by the lock-step relation ... *)
Theorem C07_loop_free_runs_represented :
  forall (V : Type) (p : Z) (sem2 : infix_op -> Z -> Z -> Z) (sem1 : prefix_op -> Z -> Z)
         (call_sem : ident -> list Z -> Z) (name_code : ident -> Z)
         (c : cfg) (idom : list (option N)) (infos : list binfo) (g : list Lift.block) (body : Lift.sk)
         (S0 : fstore V) (pth : V -> list nat) (s0 s : V -> cstore) (reps : list V),
  infos_ok infos c = true ->
  graph_consistent c = true -> idom_is_dominator_table c idom = true -> idom_shape c idom = true ->
  dom_graph_of c = MirrorsDom.to_dom g -> Lift.lift body = Base.Ok g ->
  single_assignment c -> targets_start_undefined V c S0 ->
  (forall rho, StronglySorted lt (pth rho)) ->
  (forall rho i, In i (pth rho) -> (i < length (c_blocks c))%nat) ->
  (forall rho, exists tl, pth rho = 0%nat :: tl) ->
  (forall rho, exists r, In r reps /\ pth r = pth rho) ->
  (forall rho, rel_store V rho (s0 rho) S0) ->
  (forall rho, cexec_path p sem2 sem1 call_sem name_code c (params_map (c_params c)) (s0 rho) (pth rho) = Some (s rho)) ->
  exists S, freachable V p sem2 sem1 call_sem name_code c idom S0 S /\ forall rho, sub_store V rho (s rho) S.
Proof. exact loop_free_runs_represented. Qed.
Print Assumptions C07_loop_free_runs_represented.

(* ... and every claim of the graph is true of the function  valuation |-> concrete value *)
Theorem C07_loop_free_runs_claims_true :
  forall (V : Type) (line : V -> V -> Z -> V) (p : Z)
         (sem2 : infix_op -> Z -> Z -> Z) (sem1 : prefix_op -> Z -> Z) (call_sem : ident -> list Z -> Z)
         (name_code : ident -> Z),
  (forall op, op_den p op (sem2 op)) -> (forall op, prefix_den p op (sem1 op)) ->
  forall (c : cfg) (idom : list (option N)) (infos : list binfo) (g : list Lift.block) (body : Lift.sk)
         (S0 : fstore V) (pth : V -> list nat) (s0 s : V -> cstore) (reps : list V),
  djust_cfg c idom = true -> finit_ok V line p c S0 ->
  infos_ok infos c = true ->
  graph_consistent c = true -> idom_is_dominator_table c idom = true ->
  dom_graph_of c = MirrorsDom.to_dom g -> Lift.lift body = Base.Ok g ->
  single_assignment c -> targets_start_undefined V c S0 ->
  (forall rho, StronglySorted lt (pth rho)) ->
  (forall rho i, In i (pth rho) -> (i < length (c_blocks c))%nat) ->
  (forall rho, exists tl, pth rho = 0%nat :: tl) ->
  (forall rho, exists r, In r reps /\ pth r = pth rho) ->
  (forall rho, rel_store V rho (s0 rho) S0) ->
  (forall rho, cexec_path p sem2 sem1 call_sem name_code c (params_map (c_params c)) (s0 rho) (pth rho) = Some (s rho)) ->
  forall e r (val : V -> cell),
  djust_expr c e = true -> expr_deg e = Some r ->
  (forall rho, cval p sem2 sem1 call_sem name_code (s rho) e = Some (val rho)) ->
  forall i, SemDeg V line p (snd r) (fun rho => val rho i).
Proof. exact loop_free_runs_claims_true. Qed.
Print Assumptions C07_loop_free_runs_claims_true.

(* THE SAME WITH DECIDABLE HYPOTHESES ABOUT THE GRAPH ONLY (all evaluable per graph:
   DegJustify.djust_cfg, SsaCheck.infos_ok, DegGraph.deg_graph_ok = consistent + true table,
   DegGraph.loop_free_ok = single assignment + every successor has a larger index, the
   lists of the lifted skeleton).  Of the family it is only asked that the runs start at
   the entry block in the initial family taken at their valuation, that they complete, and
   that there are finitely many path classes. *)
Theorem C07_loop_free_graph_claims_true :
  forall (V : Type) (line : V -> V -> Z -> V) (p : Z)
         (sem2 : infix_op -> Z -> Z -> Z) (sem1 : prefix_op -> Z -> Z) (call_sem : ident -> list Z -> Z)
         (name_code : ident -> Z),
  (forall op, op_den p op (sem2 op)) -> (forall op, prefix_den p op (sem1 op)) ->
  forall (c : cfg) (idom : list (option N)) (infos : list binfo) (g : list Lift.block) (body : Lift.sk)
         (S0 : fstore V) (pth : V -> list nat) (s0 s : V -> cstore) (reps : list V),
  djust_cfg c idom = true -> infos_ok infos c = true ->
  deg_graph_ok c idom = true -> loop_free_ok c = true ->
  dom_graph_of c = MirrorsDom.to_dom g -> Lift.lift body = Base.Ok g ->
  finit_ok V line p c S0 ->
  (forall rho, exists tl, pth rho = 0%nat :: tl) ->
  (forall rho, exists r, In r reps /\ pth r = pth rho) ->
  (forall rho, rel_store V rho (s0 rho) S0) ->
  (forall rho, cexec_path p sem2 sem1 call_sem name_code c (params_map (c_params c)) (s0 rho) (pth rho) = Some (s rho)) ->
  forall e r (val : V -> cell),
  djust_expr c e = true -> expr_deg e = Some r ->
  (forall rho, cval p sem2 sem1 call_sem name_code (s rho) e = Some (val rho)) ->
  forall i, SemDeg V line p (snd r) (fun rho => val rho i).
Proof. exact loop_free_graph_claims_true. Qed.
Print Assumptions C07_loop_free_graph_claims_true.

(* END TO END, for the chain of the mirrors.  For a body lifted by Model.LiftFull.try_lift_impl,
   converted by Model.Ssa.into_ssa and annotated by Model.Propagate.propagate, the hypothesis "the
   graph has the lists of a lifted skeleton" is a theorem (C07_chain_split_is_named_by_decides'
   first half); so for every graph c' with the BLOCKS of the chain's output (the mirror of
   into_ssa leaves the declaration table empty; c' carries the implementation's table) that
   passes the decidable checks - the validator, C14's version maps, consistent graph and true
   table, single assignment and forward edges - every claim is true of the concrete values of
   every family of runs from the entry block, whatever way the valuations go. *)
Theorem C07_chain_loop_free_claims_true :
  forall (V : Type) (line : V -> V -> Z -> V) (p : Z)
         (sem2 : infix_op -> Z -> Z -> Z) (sem1 : prefix_op -> Z -> Z) (call_sem : ident -> list Z -> Z)
         (name_code : ident -> Z),
  (forall op, op_den p op (sem2 op)) -> (forall op, prefix_den p op (sem1 op)) ->
  forall (key : meta -> nat) kind params pfile ploc body (r : LiftFull.lifted) frontier children (c1 : cfg)
         (kv kd : nat) (q : Z) (idom : list (option N)) (c2 : cfg) (infos : list binfo)
         (S0 : fstore V) (pth : V -> list nat) (s0 s : V -> cstore) (reps : list V),
  LiftFull.try_lift_impl kind params pfile ploc body = Base.Ok r ->
  SsaPre.phi_free (LiftFull.erase_cfg (LiftFull.l_cfg r)) = true ->
  SsaPre.decls_ok (LiftFull.erase_cfg (LiftFull.l_cfg r)) = true ->
  Ssa.into_ssa frontier children (LiftFull.erase_cfg (LiftFull.l_cfg r)) = Ssa.SOk c1 ->
  propagate kv kd q idom c1 = Base.Ok c2 ->
  forall c' : cfg, c_blocks c' = c_blocks c2 ->
  djust_cfg c' idom = true -> infos_ok infos c' = true ->
  deg_graph_ok c' idom = true -> loop_free_ok c' = true ->
  finit_ok V line p c' S0 ->
  (forall rho, exists tl, pth rho = 0%nat :: tl) ->
  (forall rho, exists r0, In r0 reps /\ pth r0 = pth rho) ->
  (forall rho, rel_store V rho (s0 rho) S0) ->
  (forall rho, cexec_path p sem2 sem1 call_sem name_code c' (params_map (c_params c')) (s0 rho) (pth rho) = Some (s rho)) ->
  forall e rg (val : V -> cell),
  djust_expr c' e = true -> expr_deg e = Some rg ->
  (forall rho, cval p sem2 sem1 call_sem name_code (s rho) e = Some (val rho)) ->
  forall i, SemDeg V line p (snd rg) (fun rho => val rho i).
Proof. exact CtlChainRuns.chain_loop_free_claims_true. Qed.
Print Assumptions C07_chain_loop_free_claims_true.

(* its hypotheses are satisfiable END TO END (Proofs.CtlChainRunsExample): the AST of
     signal input a;  var x = 0;  if (a == 1) { x = 1; } else { x = 2; }  x = x + 4;
   through the three mirrors, the annotated graph with the declaration table read off its
   declaration statements, and the family of runs over the valuations rho of a that part at the
   signal-dependent branch (rho = 1 mod 7: then-branch; otherwise: else-branch) *)
Example C07_chain_runs_example :
  LiftFull.try_lift_impl KTemplate [] (Some 0%N) (10%N, 12%N) CtlChainRunsExample.cs_body = Base.Ok CtlChainRunsExample.cs_r /\
  SsaPre.phi_free CtlChainRunsExample.cs_c0 = true /\ SsaPre.decls_ok CtlChainRunsExample.cs_c0 = true /\
  Ssa.into_ssa CtlChainExample.cc_frontier CtlChainExample.cc_children CtlChainRunsExample.cs_c0 = Ssa.SOk CtlChainRunsExample.cs_c1 /\
  propagate 9 9 7 CtlChainExample.cc_idom CtlChainRunsExample.cs_c1 = Base.Ok CtlChainRunsExample.cs_c2 /\
  c_blocks CtlChainRunsExample.cs_c = c_blocks CtlChainRunsExample.cs_c2 /\
  djust_cfg CtlChainRunsExample.cs_c CtlChainExample.cc_idom = true /\
  infos_ok CtlChainRunsExample.cs_infos CtlChainRunsExample.cs_c = true /\
  deg_graph_ok CtlChainRunsExample.cs_c CtlChainExample.cc_idom = true /\ loop_free_ok CtlChainRunsExample.cs_c = true /\
  (forall op, op_den 7 op (CtlChainRunsExample.cs_sem2 op)) /\ (forall op, prefix_den 7 op (CtlChainRunsExample.cs_sem1 op)) /\
  finit_ok Z zline 7 CtlChainRunsExample.cs_c CtlChainRunsExample.cs_S0 /\
  (forall rho, exists tl, CtlChainRunsExample.cs_pth rho = 0%nat :: tl) /\
  (forall rho, exists r0, In r0 [1; 0] /\ CtlChainRunsExample.cs_pth r0 = CtlChainRunsExample.cs_pth rho) /\
  (forall rho, rel_store Z rho (CtlChainRunsExample.cs_s0 rho) CtlChainRunsExample.cs_S0) /\
  (forall rho, CtlChainRunsExample.cs_run rho = Some (CtlChainRunsExample.cs_s rho)).
Proof. exact CtlChainRunsExample.chain_runs_example. Qed.

(* A WEAKER VALIDATOR (third audit, "false alarms": the strict validator demands that a claimed
   range EQUAL the table's, so a sound implementation that is more conservative would be called
   unjustified).  Model.DegJustifyLe.djust_cfg_le only demands that the claimed UPPER END be at
   least the upper end the tables give for the claimed ranges of the operands (NonQuadratic is
   always accepted).  It accepts every graph the strict validator accepts, and the graph-level
   theorem holds for it, for the same step relation. *)
Theorem C07_strict_validator_implies_weaker :
  forall c idom, djust_cfg c idom = true -> djust_cfg_le c idom = true.
Proof. exact djust_cfg_implies_le. Qed.
Print Assumptions C07_strict_validator_implies_weaker.

Theorem C07_weaker_validator_degrees_true :
  forall (V : Type) (line : V -> V -> Z -> V) (p : Z)
         (sem2 : infix_op -> Z -> Z -> Z) (sem1 : prefix_op -> Z -> Z) (call_sem : ident -> list Z -> Z)
         (name_code : ident -> Z),
  (forall op, op_den p op (sem2 op)) -> (forall op, prefix_den p op (sem1 op)) ->
  forall c idom, djust_cfg_le c idom = true ->
  forall s0 s e F r,
  finit_ok V line p c s0 -> freachable V p sem2 sem1 call_sem name_code c idom s0 s ->
  djust_expr_le c e = true -> den V p sem2 sem1 call_sem name_code s e = Some F -> expr_deg e = Some r ->
  forall i, SemDeg V line p (snd r) (F i).
Proof. exact justified_degrees_true_le. Qed.
Print Assumptions C07_weaker_validator_degrees_true.

(* (4) WHAT "NO DENOTATION" MEANS.  From a total initial store (every name the steps cannot
   assign has a cell) an expression is undenotable in a reachable store only if it holds a
   phi below the top of a statement (never, in a graph handed to propagation:
   DegWf.phi_top_stmt) or reads an assignable local whose assignment has not fired. *)
Theorem C07_undenotable_means_not_yet_assigned :
  forall (V : Type) (p : Z) (sem2 : infix_op -> Z -> Z -> Z) (sem1 : prefix_op -> Z -> Z)
         (call_sem : ident -> list Z -> Z) (name_code : ident -> Z) (c : cfg) (idom : list (option N)) S0 S e,
  finit_total V c S0 -> freachable V p sem2 sem1 call_sem name_code c idom S0 S ->
  den V p sem2 sem1 call_sem name_code S e = None ->
  phi_free e = false \/ exists x, In x (expr_reads e) /\ S x = None /\ assignable c x = true.
Proof. exact den_none_reads_unassigned. Qed.
Print Assumptions C07_undenotable_means_not_yet_assigned.

(* ... and the variant of the relation in which an undenotable deciding condition leaves
   the phi choice unconstrained (asked for by the third audit) is UNSOUND, because the
   relation has no program counter: on the validated graph
     c.1 = 5; if (c.1 == 1) {x.1 = 1} else {x.2 = 2}; x.3 = phi(x.1, x.2); b <-- x.3
   the join phi may fire before `c.1 = 5`, with a valuation-dependent choice, and the
   rightly validated claim "x.3 is constant" fails - from a TOTAL initial store. *)
Theorem C07_undenotable_unconstrained_variant_refuted :
  forall (sem2 : infix_op -> Z -> Z -> Z) sem1 call_sem name_code,
  djust_cfg vgraph vidom = true /\ finit_ok Z vline 7 vgraph vS0 /\ finit_total Z vgraph vS0 /\
  exists S F,
    freachable' Z 7 sem2 sem1 call_sem name_code vgraph vidom vS0 S /\
    djust_expr vgraph (EVar (vx 3) (vk vcc)) = true /\
    den Z 7 sem2 sem1 call_sem name_code S (EVar (vx 3) (vk vcc)) = Some F /\
    expr_deg (EVar (vx 3) (vk vcc)) = Some (DConst, DConst) /\
    ~ SemDeg Z vline 7 DConst (F []).
Proof. exact undenotable_unconstrained_refuted. Qed.
Print Assumptions C07_undenotable_unconstrained_variant_refuted.

(* THE CONTROL-DEPENDENCE FACT, FOR [decides] ITSELF.  In an IR graph c that has, block by
   block, the predecessor and successor lists of the skeleton graph g lifting produces
   (dom_graph_of c = to_dom g), consistent and with the true immediate-dominator table:
   every block b whose decision can change the edge along which the join j is entered
   (CtlSpec.can_split: two walks from b to j that share nothing but their ends), if it
   ends with a condition, has that condition among those the table walk of Spec.DegSem
   names for j.  So the phi choice of Spec.DegSem may vary exactly under the conditions
   that can make two executions enter the join differently - by theorem, not by audit. *)
Theorem C07_lifted_split_is_named_by_decides :
  forall (c : cfg) (idom : list (option N)) (g : list Lift.block),
  dom_graph_of c = MirrorsDom.to_dom g ->
  graph_consistent c = true -> idom_is_dominator_table c idom = true -> idom_shape c idom = true ->
  forall body : Lift.sk, Lift.lift body = Base.Ok g ->
  forall (j : nat) (bj : block) (b : nat) (bb : block) (m : meta) (cond : expr) (t : N) (f : option N),
  nth_error (c_blocks c) j = Some bj -> nth_error (c_blocks c) b = Some bb ->
  CtlSpec.can_split g b j -> CtlSpec.is_join g j ->
  last (b_stmts bb) (SLog m []) = SIf m cond t f ->
  decides c idom bj cond.
Proof. exact CtlBridge.lifted_split_decides. Qed.
Print Assumptions C07_lifted_split_is_named_by_decides.

(* its hypotheses are satisfiable on the diamond with a phi under `if (a == 1)` (the graph
   of C07_control_dependence_matters, Proofs.CtlBridgeExample.exb_graph): it has the lists
   of the lifted skeleton of `if (c1) {s2} else {s3}; s4`, block 0 splits the join 3, and
   the theorem yields that `a == 1` is a deciding condition of the join *)
Example C07_lifted_split_example :
  Lift.lift CtlBridgeExample.exb_body = Base.Ok CtlBridgeExample.exb_skel /\
  dom_graph_of CtlBridgeExample.exb_graph = MirrorsDom.to_dom CtlBridgeExample.exb_skel /\
  graph_consistent CtlBridgeExample.exb_graph = true /\
  idom_is_dominator_table CtlBridgeExample.exb_graph CtlBridgeExample.exb_idom = true /\
  djust_cfg CtlBridgeExample.exb_graph CtlBridgeExample.exb_idom = true /\
  CtlSpec.can_split CtlBridgeExample.exb_skel 0 3 /\ CtlSpec.is_join CtlBridgeExample.exb_skel 3 /\
  decides CtlBridgeExample.exb_graph CtlBridgeExample.exb_idom CtlBridgeExample.exb_join CtlBridgeExample.exb_cond.
Proof. exact CtlBridgeExample.bridge_example. Qed.

(* ... ALONG THE WHOLE CHAIN of the mirrors.  For every body that the mirror of
   try_lift_impl lifts, whose erased graph the mirror of into_ssa converts (with ANY frontier
   and children lists) and the mirror of propagation annotates (ANY budgets): on the
   annotated graph c2, consistent and with its true table, every block whose decision can
   change the edge along which a join is entered - can_split on the skeleton graph
   Model.Lift.lift builds from the skeleton of the body - and that ends with a condition has
   that condition among those [decides] names for the join. *)
Theorem C07_chain_split_is_named_by_decides :
  forall (key : meta -> nat) kind params pfile ploc body (r : LiftFull.lifted) frontier children (c1 : cfg)
         (kv kd : nat) (q : Z) (idom : list (option N)) (c2 : cfg),
  LiftFull.try_lift_impl kind params pfile ploc body = Base.Ok r ->
  SsaPre.phi_free (LiftFull.erase_cfg (LiftFull.l_cfg r)) = true ->
  SsaPre.decls_ok (LiftFull.erase_cfg (LiftFull.l_cfg r)) = true ->
  Ssa.into_ssa frontier children (LiftFull.erase_cfg (LiftFull.l_cfg r)) = Ssa.SOk c1 ->
  propagate kv kd q idom c1 = Base.Ok c2 ->
  graph_consistent c2 = true -> idom_is_dominator_table c2 idom = true -> idom_shape c2 idom = true ->
  let g := map (LiftFull.skel_block key) (LiftFull.xc_blocks (LiftFull.l_cfg r)) in
  forall (j : nat) (bj : block) (b : nat) (bb : block) (m : meta) (cond : expr) (t : N) (f : option N),
  nth_error (c_blocks c2) j = Some bj -> nth_error (c_blocks c2) b = Some bb ->
  CtlSpec.can_split g b j -> CtlSpec.is_join g j ->
  last (b_stmts bb) (SLog m []) = SIf m cond t f ->
  decides c2 idom bj cond.
Proof. exact CtlChain.chain_split_decides. Qed.
Print Assumptions C07_chain_split_is_named_by_decides.

(* its hypotheses are satisfiable:  var x = 0; if (x < 3) { x = 1; } else { x = 2; }  x = x + 4;
   as an AST (Proofs.CtlChainExample.cc_body) goes through the three mirrors; SSA conversion
   puts a phi for x at the join (block 3); block 0 splits the join, and the theorem yields
   that `x.0 < 3` is a deciding condition of it *)
Example C07_chain_example :
  LiftFull.try_lift_impl KTemplate [] (Some 0%N) (10%N, 12%N) CtlChainExample.cc_body = Base.Ok CtlChainExample.cc_r /\
  SsaPre.phi_free CtlChainExample.cc_c0 = true /\ SsaPre.decls_ok CtlChainExample.cc_c0 = true /\
  Ssa.into_ssa CtlChainExample.cc_frontier CtlChainExample.cc_children CtlChainExample.cc_c0 = Ssa.SOk CtlChainExample.cc_c1 /\
  propagate 9 9 7 CtlChainExample.cc_idom CtlChainExample.cc_c1 = Base.Ok CtlChainExample.cc_c2 /\
  graph_consistent CtlChainExample.cc_c2 = true /\ idom_is_dominator_table CtlChainExample.cc_c2 CtlChainExample.cc_idom = true /\
  idom_shape CtlChainExample.cc_c2 CtlChainExample.cc_idom = true /\
  CtlSpec.can_split CtlChainExample.cc_g 0 3 /\ CtlSpec.is_join CtlChainExample.cc_g 3 /\
  decides CtlChainExample.cc_c2 CtlChainExample.cc_idom CtlChainExample.cc_join CtlChainExample.cc_cond.
Proof. exact CtlChainExample.chain_example. Qed.

(* non-vacuity for arrays: t.0 = [1, 2]; b <-- t.0[IDX] with a the signal. Reading at
   the literal index 0 may carry the array's constant range; reading at the signal a
   may not (it is what the repaired defect 920512c claimed), but may carry an upper end
   non-quadratic *)
Definition exa_k (d : option drange) : know := {| kval := None; kdeg := d |}.
Definition exa_t0 : vname := {| vn_name := [116%N]; vn_suffix := None; vn_version := Some 0%N |}.
Definition exa_a : vname := {| vn_name := [97%N]; vn_suffix := None; vn_version := None |}.
Definition exa_b : vname := {| vn_name := [98%N]; vn_suffix := None; vn_version := None |}.
Definition exa_m : meta := {| m_start := 0%N; m_end := 0%N; m_file := None |}.
Definition exa_cc : option drange := Some (DConst, DConst).
Definition exa_graph (idx : expr) (claim : option drange) : cfg :=
  {| c_kind := KTemplate; c_params := []; c_decls := [(exa_t0, TLocal); (exa_a, TSigIn); (exa_b, TSigOut)];
     c_blocks := [ {| b_index := 0%N; b_depth := 0%N; b_preds := []; b_succs := [];
       b_stmts := [ SSubst exa_m exa_t0 OpVar (EArray [ENum 1 (exa_k exa_cc); ENum 2 (exa_k exa_cc)] (exa_k exa_cc)) None (Some TLocal);
                    SSubst exa_m exa_b OpSig (EAccess exa_t0 [AIdx idx] (exa_k claim)) None (Some TSigOut) ] |} ] |}.
Example C07_array_index_matters :
  djust_cfg (exa_graph (ENum 0 (exa_k exa_cc)) exa_cc) [None] = true /\
  djust_cfg (exa_graph (EVar exa_a (exa_k (Some (DLin, DLin)))) exa_cc) [None] = false /\
  djust_cfg (exa_graph (EVar exa_a (exa_k (Some (DLin, DLin)))) (Some (DConst, DNonQuad))) [None] = true.
Proof. vm_compute. repeat split; reflexivity. Qed.

(* non-vacuity: over valuations Z with line rho delta t = rho + t*delta, the
   identity has degree 1, its square degree 2, and the square is not linear mod 7 *)
Example C07_square_is_quadratic_not_linear :
  Deg Z (fun r d t => r + t * d) 7 2 (fun r => (r * r) mod 7) /\
  ~ Deg Z (fun r d t => r + t * d) 7 1 (fun r => (r * r) mod 7).
Proof.
  split.
  - apply (Deg_mul Z (fun r d t => r + t * d) 7 1 1 (fun r => r) (fun r => r));
      intros rho delta t; cbn [Dn]; unfold Dd; replace (_ - _) with 0 by ring; reflexivity.
  - intros H. specialize (H 0 1 0). vm_compute in H. discriminate.
Qed.

(* non-vacuity for control dependence (the repaired defect D18): x.3 = phi(x.1, x.2)
   with x.1 = 1, x.2 = 2 at the join of `if (a == 1)`: the merged value may be claimed
   constant only when the deciding condition is; with the condition on the signal a
   the claim must have upper end non-quadratic *)
Definition exc_x (n : N) : vname := {| vn_name := [120%N]; vn_suffix := None; vn_version := Some n |}.
Definition exc_cond (d : option drange) : expr :=
  EInfix IEq (EVar exa_a (exa_k (Some (DLin, DLin)))) (ENum 1 (exa_k exa_cc)) (exa_k d).
Definition exc_graph (cond_deg phi_claim : option drange) : cfg :=
  {| c_kind := KTemplate; c_params := [];
     c_decls := [(exc_x 1, TLocal); (exc_x 2, TLocal); (exc_x 3, TLocal); (exa_a, TSigIn); (exa_b, TSigOut)];
     c_blocks :=
       [ {| b_index := 0%N; b_depth := 0%N; b_preds := []; b_succs := [1%N; 2%N];
            b_stmts := [ SIf exa_m (exc_cond cond_deg) 1%N (Some 2%N) ] |};
         {| b_index := 1%N; b_depth := 0%N; b_preds := [0%N]; b_succs := [3%N];
            b_stmts := [ SSubst exa_m (exc_x 1) OpVar (ENum 1 (exa_k exa_cc)) None (Some TLocal) ] |};
         {| b_index := 2%N; b_depth := 0%N; b_preds := [0%N]; b_succs := [3%N];
            b_stmts := [ SSubst exa_m (exc_x 2) OpVar (ENum 2 (exa_k exa_cc)) None (Some TLocal) ] |};
         {| b_index := 3%N; b_depth := 0%N; b_preds := [1%N; 2%N]; b_succs := [];
            b_stmts := [ SSubst exa_m (exc_x 3) OpVar (EPhi [exc_x 1; exc_x 2] (exa_k phi_claim)) None (Some TLocal);
                         SSubst exa_m exa_b OpSig (EVar (exc_x 3) (exa_k phi_claim)) None (Some TSigOut) ] |} ] |}.
Example C07_control_dependence_matters :
  let idom := [None; Some 0%N; Some 0%N; Some 0%N] in
  djust_cfg (exc_graph (Some (DNonQuad, DNonQuad)) exa_cc) idom = false /\
  djust_cfg (exc_graph (Some (DNonQuad, DNonQuad)) (Some (DConst, DNonQuad))) idom = true /\
  djust_cfg (exc_graph None None) idom = true /\
  djust_cfg (exc_graph None exa_cc) idom = false.
Proof. vm_compute. repeat split; reflexivity. Qed.

(* the semantic side is not vacuous either: over valuations Z (one signal a, the line
   rho + t * delta) the store that holds the identity for the signal a and nothing else is an
   initial store of the diamond graph in the sense of [finit_ok] *)
Example C07_initial_store_example :
  finit_ok Z (fun r d t => r + t * d) 7 (exc_graph (Some (DNonQuad, DNonQuad)) (Some (DConst, DNonQuad)))
           (fun x => if vname_eqb exa_a x then Some (fun _ rho => rho) else None).
Proof.
  intros x F Hx. destruct (vname_eqb exa_a x) eqn:E; [|discriminate].
  apply vname_eqb_eq in E. subst x. injection Hx as <-.
  right. left. split; [reflexivity|]. split; [exists TSigIn; split; [reflexivity|discriminate]|].
  intros i rho delta t. cbn [Dn]. unfold Dd. replace (_ - _) with 0 by ring. reflexivity.
Qed.

(* non-vacuity for the control dependence of lifted graphs:
     if (c1) { if (c2) { x } else { y } } else { z }  w
   lifts to  0 -> 1,4   1 -> 2,3   2 -> 5   3 -> 5   4 -> 5  (Proofs.CtlStructure.ex_nest_g).
   The inner `if` is the last statement of the outer branch, so the outer join (block 5)
   receives the inner branches 2 and 3 as predecessors directly: the inner branching block
   1 can change the edge along which 5 is entered, and it is on the dominator chain of 5
   (it dominates the predecessor 2; the immediate dominator of 5 is block 0). *)
Example C07_nested_if_inner_branch_decides_outer_join :
  Lift.lift (Lift.SBlock [Lift.SIf 1 (Lift.SBlock [Lift.SIf 2 (Lift.SBlock [Lift.SLeaf 3 false])
                                                             (Some (Lift.SBlock [Lift.SLeaf 4 false]))])
                                     (Some (Lift.SBlock [Lift.SLeaf 5 false]));
                          Lift.SLeaf 6 false]) = Base.Ok CtlStructure.ex_nest_g /\
  CtlSpec.can_split CtlStructure.ex_nest_g 1 5 /\ CtlSpec.is_join CtlStructure.ex_nest_g 5 /\
  CtlSpec.on_dom_chain CtlStructure.ex_nest_g 5 1.
Proof. exact CtlStructure.nested_if_example. Qed.

(* ---------- the hypotheses of the theorems of the third audit are satisfiable on the
   diamond with a phi under the signal-dependent branch `if (a == 1)` ---------- *)
Definition exr_graph : cfg := exc_graph (Some (DNonQuad, DNonQuad)) (Some (DConst, DNonQuad)).
Definition exr_idom : list (option N) := [None; Some 0%N; Some 0%N; Some 0%N].

(* the graph is consistent, the table is the computed one, the validator accepts; a table
   of the right SHAPE that is not the dominator table (block 3 under block 1) is refused by
   idom_is_dominator_table although idom_shape accepts it *)
Example C07_dominator_hypotheses_example :
  graph_consistent exr_graph = true /\ idom_is_dominator_table exr_graph exr_idom = true /\
  djust_cfg exr_graph exr_idom = true /\
  idom_is_dominator_table exr_graph [None; Some 0%N; Some 0%N; Some 1%N] = false /\
  idom_shape exr_graph [None; Some 0%N; Some 0%N; Some 1%N] = true.
Proof. vm_compute. repeat split; reflexivity. Qed.

(* a total initial store of that graph (signals hold the valuation, other names the steps
   cannot assign hold zeros, x.1 x.2 x.3 are not assigned yet) *)
Example C07_total_initial_store_example :
  finit_total Z exr_graph (total_init exr_graph) /\ finit_ok Z zline 7 exr_graph (total_init exr_graph).
Proof. split; [apply total_init_total|apply total_init_ok; vm_compute; reflexivity]. Qed.

(* a family of concrete runs through the phi: operators modulo 7 (== compares residues),
   the valuations rho |-> a = 1 + 7 rho (a line of valuation space on which the
   signal-dependent condition a == 1 holds throughout), every run follows the path
   0 -> 1 -> 3: x.1 = 1, then x.3 = phi(x.1, x.2) copies x.1, the version that arrives *)
Definition exr_sem2 (op : infix_op) (x y : Z) : Z :=
  match op with
  | IAdd => (x + y) mod 7 | ISub => (x - y) mod 7 | IMul => (x * y) mod 7
  | IDiv => (x * (y ^ 5 mod 7)) mod 7
  | IEq => if x mod 7 =? y mod 7 then 1 else 0
  | _ => 0
  end.
Definition exr_sem1 (op : prefix_op) (x : Z) : Z := match op with PNeg => (x * -1) mod 7 | _ => 0 end.
Definition exr_S0 : fstore Z := fun x => if vname_eqb exa_a x then Some (fun _ rho => 1 + rho * 7) else None.
Definition exr_s0 (rho : Z) : cstore := fun x => if vname_eqb exa_a x then Some (fun _ => 1 + rho * 7) else None.
Definition exr_s (rho : Z) : cstore :=
  cupd (cupd (exr_s0 rho) (exc_x 1) (Some (fun _ => 1 mod 7))) (exc_x 3) (Some (fun _ => 1 mod 7)).

Example C07_concrete_runs_example :
  (forall op, op_den 7 op (exr_sem2 op)) /\ (forall op, prefix_den 7 op (exr_sem1 op)) /\
  djust_cfg exr_graph exr_idom = true /\
  finit_ok Z zline 7 exr_graph exr_S0 /\
  (forall rho, rel_store Z rho (exr_s0 rho) exr_S0) /\
  (forall rho, cexec_path 7 exr_sem2 exr_sem1 (fun _ _ => 0) (fun _ => 0) exr_graph [] (exr_s0 rho) [0; 1; 3]%nat
               = Some (exr_s rho)) /\
  (* the other path is not a run of any of these valuations: the branch check refuses it *)
  (forall rho, cexec_path 7 exr_sem2 exr_sem1 (fun _ _ => 0) (fun _ => 0) exr_graph [] (exr_s0 rho) [0; 2; 3]%nat = None) /\
  djust_expr exr_graph (EVar (exc_x 3) (exa_k (Some (DConst, DNonQuad)))) = true /\
  (forall rho, cval 7 exr_sem2 exr_sem1 (fun _ _ => 0) (fun _ => 0) (exr_s rho) (EVar (exc_x 3) (exa_k (Some (DConst, DNonQuad))))
               = Some (fun _ => 1 mod 7)).
Proof.
  split; [intros []; cbn; auto; exists (fun y => y ^ 5 mod 7); reflexivity|].
  split; [intros []; cbn; auto|].
  split; [vm_compute; reflexivity|].
  split.
  { intros x F Hx. unfold exr_S0 in Hx. destruct (vname_eqb exa_a x) eqn:E; [|discriminate].
    apply vname_eqb_eq in E. subst x. injection Hx as <-.
    right. left. split; [reflexivity|]. split; [exists TSigIn; split; [reflexivity|discriminate]|].
    intros i rho delta t. cbn [Dn]. unfold Dd, zline. replace (_ - _) with 0 by ring. reflexivity. }
  split.
  { intros rho x. unfold exr_s0, exr_S0. destruct (vname_eqb exa_a x); cbn; [intros i; reflexivity|exact I]. }
  split; [intros rho; cbn; rewrite Z_mod_plus_full; reflexivity|].
  split; [intros rho; cbn; rewrite Z_mod_plus_full; reflexivity|].
  split; [vm_compute; reflexivity|].
  intros rho. reflexivity.
Qed.

(* a family that really diverges at the signal-dependent branch: the signal a holds the
   valuation rho itself; the runs with rho = 1 (mod 7) go 0 -> 1 -> 3 and their phi copies
   x.1, the others go 0 -> 2 -> 3 and copy x.2; two runs with different arriving arguments
   differ on the value of `a == 1`, the deciding condition of the join: every hypothesis of
   C07_diverging_runs_claims_true holds *)
Definition exd_S0 : fstore Z := fun x => if vname_eqb exa_a x then Some (fun _ rho => rho) else None.
Definition exd_s0 (rho : Z) : cstore := fun x => if vname_eqb exa_a x then Some (fun _ => rho) else None.
Definition exd_then (rho : Z) : bool := rho mod 7 =? 1.
Definition exd_pth (rho : Z) : list nat := if exd_then rho then [0; 1; 3]%nat else [0; 2; 3]%nat.
Definition exd_s (rho : Z) : cstore :=
  if exd_then rho then cupd (cupd (exd_s0 rho) (exc_x 1) (Some (fun _ => 1 mod 7))) (exc_x 3) (Some (fun _ => 1 mod 7))
  else cupd (cupd (exd_s0 rho) (exc_x 2) (Some (fun _ => 2 mod 7))) (exc_x 3) (Some (fun _ => 2 mod 7)).

Example C07_diverging_runs_example :
  djust_cfg exr_graph exr_idom = true /\ finit_ok Z zline 7 exr_graph exd_S0 /\
  (forall rho, StronglySorted lt (exd_pth rho)) /\
  (forall rho i, In i (exd_pth rho) -> (i < length (c_blocks exr_graph))%nat) /\
  (forall rho, exists r, In r [1; 0] /\ exd_pth r = exd_pth rho) /\
  single_assignment exr_graph /\ targets_start_undefined Z exr_graph exd_S0 /\
  (forall rho, rel_store Z rho (exd_s0 rho) exd_S0) /\
  (forall rho, cexec_path 7 exr_sem2 exr_sem1 (fun _ _ => 0) (fun _ => 0) exr_graph [] (exd_s0 rho) (exd_pth rho)
               = Some (exd_s rho)) /\
  picks_decided Z 7 exr_sem2 exr_sem1 (fun _ _ => 0) (fun _ => 0) exr_graph exr_idom [] exd_pth exd_s0 /\
  (* and the two classes of runs end with different values of x.3 *)
  (forall rho, cval 7 exr_sem2 exr_sem1 (fun _ _ => 0) (fun _ => 0) (exd_s rho) (EVar (exc_x 3) (exa_k (Some (DConst, DNonQuad))))
               = Some (fun _ => if exd_then rho then 1 mod 7 else 2 mod 7)).
Proof.
  split; [vm_compute; reflexivity|].
  split.
  { intros x F Hx. unfold exd_S0 in Hx. destruct (vname_eqb exa_a x) eqn:E; [|discriminate].
    apply vname_eqb_eq in E. subst x. injection Hx as <-.
    right. left. split; [reflexivity|]. split; [exists TSigIn; split; [reflexivity|discriminate]|].
    intros i rho delta t. cbn [Dn]. unfold Dd, zline. replace (_ - _) with 0 by ring. reflexivity. }
  split; [intros rho; unfold exd_pth; destruct (exd_then rho); repeat constructor; lia|].
  split; [intros rho i; unfold exd_pth; destruct (exd_then rho); cbn; intros [<-|[<-|[<-|[]]]]; lia|].
  split.
  { intros rho. unfold exd_pth. destruct (exd_then rho) eqn:E.
    - exists 1. split; [left; reflexivity|reflexivity].
    - exists 0. split; [right; left; reflexivity|reflexivity]. }
  split.
  { unfold single_assignment. vm_compute. repeat constructor; cbn; intuition discriminate. }
  split.
  { intros x Hx. vm_compute in Hx. destruct Hx as [<-|[<-|[<-|[]]]]; reflexivity. }
  split.
  { intros rho x. unfold exd_s0, exd_S0. destruct (vname_eqb exa_a x); cbn; [intros i; reflexivity|exact I]. }
  split.
  { intros rho. unfold exd_pth, exd_s. destruct (exd_then rho) eqn:E; unfold exd_then in E;
      cbn; change ((1 mod 7) mod 7) with 1; rewrite E; reflexivity. }
  split.
  { intros a b Hb. destruct a as [|[|[|[|a]]]]; cbn in Hb; try (destruct a; discriminate); injection Hb as <-;
      intros m x op args k sv stt Hin; cbn in Hin; try contradiction.
    destruct Hin as [Hin|[]]. injection Hin as <- <- <- <- <- <- <-.
    intros _ r1 r2 _ _ Hne.
    assert (Harg : forall r, arg_of Z (fun rho => Lat Z exr_graph [] exd_pth rho 3) (exc_x 3) [exc_x 1; exc_x 2] r =
                             if exd_then r then Some (exc_x 1) else Some (exc_x 2)).
    { intros r. unfold arg_of, Lat, exd_pth. destruct (exd_then r); reflexivity. }
    assert (Hent : forall r, exists st, ent Z 7 exr_sem2 exr_sem1 (fun _ _ => 0) (fun _ => 0) exr_graph [] exd_pth exd_s0 r 3 = st /\
                    cval 7 exr_sem2 exr_sem1 (fun _ _ => 0) (fun _ => 0) st (exc_cond (Some (DNonQuad, DNonQuad))) =
                    Some (fun _ => exr_sem2 IEq r (1 mod 7))).
    { intros r. eexists. split; [reflexivity|]. unfold ent, E, exd_pth. destruct (exd_then r); reflexivity. }
    rewrite !Harg in Hne.
    split; [cbn; lia|].
    exists (exc_cond (Some (DNonQuad, DNonQuad))), (fun _ => exr_sem2 IEq r1 (1 mod 7)), (fun _ => exr_sem2 IEq r2 (1 mod 7)).
    split.
    { exists 1%N, 0%N. eexists. exists exa_m, 1%N, (Some 2%N). split; [left; reflexivity|]. split; [|split; reflexivity].
      cbn. eapply ab_up; [discriminate|reflexivity|apply ab_here]. }
    destruct (Hent r1) as (st1 & <- & Hc1). destruct (Hent r2) as (st2 & <- & Hc2).
    split; [exact Hc1|]. split; [exact Hc2|].
    unfold exr_sem2. change ((1 mod 7) mod 7) with 1. unfold exd_then in Hne.
    destruct (r1 mod 7 =? 1), (r2 mod 7 =? 1); try discriminate; congruence. }
  intros rho. unfold exd_s. destruct (exd_then rho); reflexivity.
Qed.

(* the graph hypotheses of C07_loop_free_runs_claims_true / C07_loop_free_graph_claims_true hold of the diamond (the family
   hypotheses are those of C07_diverging_runs_example, with params_map [] = []): the version
   maps C14's validator computes for it are accepted, and it has the lists of the lifted
   skeleton of `if (c1) {s2} else {s3}; s4` *)
Example C07_loop_free_example :
  (exists infos, compute_infos (c_params exr_graph) exr_idom (c_blocks exr_graph) [] = Some infos /\
                 infos_ok infos exr_graph = true) /\
  ssa_check exr_graph exr_idom = true /\
  graph_consistent exr_graph = true /\ idom_is_dominator_table exr_graph exr_idom = true /\
  dom_graph_of exr_graph = MirrorsDom.to_dom CtlBridgeExample.exb_skel /\
  Lift.lift CtlBridgeExample.exb_body = Base.Ok CtlBridgeExample.exb_skel /\
  params_map (c_params exr_graph) = [] /\
  deg_graph_ok exr_graph exr_idom = true /\ loop_free_ok exr_graph = true /\
  (forall rho : Z, exists tl, exd_pth rho = 0%nat :: tl).
Proof.
  split; [eexists; split; vm_compute; reflexivity|].
  split; [vm_compute; reflexivity|]. split; [vm_compute; reflexivity|]. split; [vm_compute; reflexivity|].
  split; [vm_compute; reflexivity|]. split; [vm_compute; reflexivity|]. split; [reflexivity|].
  split; [vm_compute; reflexivity|]. split; [vm_compute; reflexivity|].
  intros rho. unfold exd_pth. destruct (exd_then rho); eauto.
Qed.

(* the weaker validator: reading t.0 = [1, 2] at the literal index 0 may be claimed constant
   (both validators), or - more conservatively - constant..linear or constant..non-quadratic
   (only the weaker one); reading it at the signal a may still not be claimed constant *)
Example C07_weaker_validator_example :
  djust_cfg (exa_graph (ENum 0 (exa_k exa_cc)) (Some (DConst, DLin))) [None] = false /\
  djust_cfg_le (exa_graph (ENum 0 (exa_k exa_cc)) (Some (DConst, DLin))) [None] = true /\
  djust_cfg_le (exa_graph (ENum 0 (exa_k exa_cc)) (Some (DConst, DNonQuad))) [None] = true /\
  djust_cfg_le (exa_graph (ENum 0 (exa_k exa_cc)) exa_cc) [None] = true /\
  djust_cfg_le (exa_graph (EVar exa_a (exa_k (Some (DLin, DLin)))) exa_cc) [None] = false /\
  djust_cfg_le (exr_graph) exr_idom = true /\
  djust_cfg_le (exc_graph (Some (DNonQuad, DNonQuad)) exa_cc) exr_idom = false.
Proof. vm_compute. repeat split; reflexivity. Qed.

(* (3'') GRAPHS WITH LOOPS, runs in step at the loop headers (proof round 4).  The path of the
   valuation rho is  concat (sg rho) : its ascending segments (a new segment starts where the run
   takes a back edge); all valuations have the same number of segments and their segments start
   with the same blocks [heads]; finitely many classes [reps].  For a graph that passes C14's
   validator (infos_ok), is consistent and passes the decidable Model.DegLoops.loops_ok (single
   assignment; assigned locals carry versions; an update base read without a running version is
   never assigned; the version
   current at the exit of a block is not assigned by a later block), and under the assumption
   [picks_decided_sched] about the phi choices (cf. C07_diverging_runs_represented), ONE store
   reachable by the lock-step relation holds, at every valuation, every cell of the final store of
   its run that is still CURRENT: a name the graph never assigns, or the running version of its
   variable at the end of the path. *)
Theorem C07_loops_runs_represented :
  forall (V : Type) (p : Z) (sem2 : infix_op -> Z -> Z -> Z) (sem1 : prefix_op -> Z -> Z)
         (call_sem : ident -> list Z -> Z) (name_code : ident -> Z)
         (c : cfg) (idom : list (option N)) (infos : list binfo) (S0 : fstore V)
         (sg : V -> list (list nat)) (heads : list nat) (s0 s : V -> cstore) (reps : list V),
  infos_ok infos c = true -> graph_consistent c = true -> DegLoops.loops_ok infos c = true ->
  (forall rho, map (hd 0%nat) (sg rho) = heads /\ Forall (fun seg => seg <> []) (sg rho)) ->
  (forall rho, Forall (StronglySorted lt) (sg rho)) ->
  (forall rho, exists r, In r reps /\ sg r = sg rho) ->
  (forall rho, exists tl, concat (sg rho) = 0%nat :: tl) ->
  (forall rho, rel_store V rho (s0 rho) S0) ->
  (forall rho, cexec_path p sem2 sem1 call_sem name_code c (params_map (c_params c)) (s0 rho) (concat (sg rho)) = Some (s rho)) ->
  DegRunLoops.picks_decided_sched V p sem2 sem1 call_sem name_code c idom (params_map (c_params c)) s0 reps
                      (length heads * length (c_blocks c)) (DegRunLoops.blk_s c) (DegRunLoops.vis_s V c sg) ->
  exists S, freachable V p sem2 sem1 call_sem name_code c idom S0 S /\
            forall rho x v, DegRunLoops.current_at c (concat (sg rho)) x -> s rho x = Some v ->
                            exists F, S x = Some F /\ rel_cell V rho v F.
Proof. exact DegRunLoops.loops_runs_represented. Qed.
Print Assumptions C07_loops_runs_represented.

(* ... hence every claim of the graph on an expression whose operands are current at the end of the
   runs is true of the function  valuation |-> concrete value *)
Theorem C07_loops_runs_claims_true :
  forall (V : Type) (line : V -> V -> Z -> V) (p : Z)
         (sem2 : infix_op -> Z -> Z -> Z) (sem1 : prefix_op -> Z -> Z) (call_sem : ident -> list Z -> Z)
         (name_code : ident -> Z),
  (forall op, op_den p op (sem2 op)) -> (forall op, prefix_den p op (sem1 op)) ->
  forall (c : cfg) (idom : list (option N)) (infos : list binfo) (S0 : fstore V)
         (sg : V -> list (list nat)) (heads : list nat) (s0 s : V -> cstore) (reps : list V),
  djust_cfg c idom = true -> finit_ok V line p c S0 ->
  infos_ok infos c = true -> graph_consistent c = true -> DegLoops.loops_ok infos c = true ->
  (forall rho, map (hd 0%nat) (sg rho) = heads /\ Forall (fun seg => seg <> []) (sg rho)) ->
  (forall rho, Forall (StronglySorted lt) (sg rho)) ->
  (forall rho, exists r, In r reps /\ sg r = sg rho) ->
  (forall rho, exists tl, concat (sg rho) = 0%nat :: tl) ->
  (forall rho, rel_store V rho (s0 rho) S0) ->
  (forall rho, cexec_path p sem2 sem1 call_sem name_code c (params_map (c_params c)) (s0 rho) (concat (sg rho)) = Some (s rho)) ->
  DegRunLoops.picks_decided_sched V p sem2 sem1 call_sem name_code c idom (params_map (c_params c)) s0 reps
                      (length heads * length (c_blocks c)) (DegRunLoops.blk_s c) (DegRunLoops.vis_s V c sg) ->
  forall e r (val : V -> cell),
  djust_expr c e = true -> expr_deg e = Some r ->
  (forall rho, cval p sem2 sem1 call_sem name_code (s rho) e = Some (val rho)) ->
  (forall rho y, In y (expr_reads e) -> DegRunLoops.current_at c (concat (sg rho)) y) ->
  forall i, SemDeg V line p (snd r) (fun rho => val rho i).
Proof. exact DegRunLoops.loops_runs_claims_true. Qed.
Print Assumptions C07_loops_runs_claims_true.

(* (3''') towards valuation-dependent trip counts: a phi of a join that has a deciding condition
   whose value varies with the valuation in some reachable store carries no claim, or one with
   upper end NonQuadratic *)
Theorem C07_varying_decider_phi_no_low_claim :
  forall (V : Type) (line : V -> V -> Z -> V) (p : Z)
         (sem2 : infix_op -> Z -> Z -> Z) (sem1 : prefix_op -> Z -> Z) (call_sem : ident -> list Z -> Z)
         (name_code : ident -> Z),
  (forall op, op_den p op (sem2 op)) -> (forall op, prefix_den p op (sem1 op)) ->
  forall (c : cfg) (idom : list (option N)) (S0 S : fstore V) (b : block) m x op args k sv st
         (cond : expr) (C : fam V) (r1 r2 : V),
  djust_cfg c idom = true -> finit_ok V line p c S0 ->
  freachable V p sem2 sem1 call_sem name_code c idom S0 S ->
  In b (c_blocks c) -> In (SSubst m x op (EPhi args k) sv st) (b_stmts b) -> (2 <= length (b_preds b))%nat ->
  decides c idom b cond -> den V p sem2 sem1 call_sem name_code S cond = Some C -> C [] r1 <> C [] r2 ->
  kdeg k = None \/ exists rg, kdeg k = Some rg /\ snd rg = DNonQuad.
Proof. exact DegRunLoops.varying_decider_phi_no_low_claim. Qed.
Print Assumptions C07_varying_decider_phi_no_low_claim.

(* the hypotheses of C07_loops_runs_represented are satisfiable on a graph with a loop that is not
   covered by the loop-free theorems (forward_b = false):
     i = 0;  while (i < 2) { if (a + i == 1) { b <-- i + 5; } else { b2 <-- i + 3; }  i = i + 1; }  b <-- i;
   blocks 0 -> 1 (header) -> 2 -> 3 | 4 -> 5 -> 1, 1 -> 6; two valuations of the signal a: one takes
   the then-arm in the first iteration and the else-arm in the second, the other the other way
   round; both enter the header three times (segments start at blocks 0, 1, 1) *)
Example C07_loops_example :
  compute_infos (c_params DegRunLoopsExample.lx_g) DegRunLoopsExample.lx_idom (c_blocks DegRunLoopsExample.lx_g) [] = Some DegRunLoopsExample.lx_infos /\
  infos_ok DegRunLoopsExample.lx_infos DegRunLoopsExample.lx_g = true /\ graph_consistent DegRunLoopsExample.lx_g = true /\
  idom_is_dominator_table DegRunLoopsExample.lx_g DegRunLoopsExample.lx_idom = true /\
  DegLoops.loops_ok DegRunLoopsExample.lx_infos DegRunLoopsExample.lx_g = true /\ forward_b DegRunLoopsExample.lx_g = false /\
  (forall rho, map (hd 0%nat) (DegRunLoopsExample.lx_sg rho) = DegRunLoopsExample.lx_heads /\
               Forall (fun seg => seg <> []) (DegRunLoopsExample.lx_sg rho)) /\
  (forall rho, Forall (StronglySorted lt) (DegRunLoopsExample.lx_sg rho)) /\
  (forall rho, exists r, In r [true; false] /\ DegRunLoopsExample.lx_sg r = DegRunLoopsExample.lx_sg rho) /\
  (forall rho, exists tl, concat (DegRunLoopsExample.lx_sg rho) = 0%nat :: tl) /\
  (forall rho, rel_store bool rho (DegRunLoopsExample.lx_s0 rho) DegRunLoopsExample.lx_S0) /\
  (forall rho, cexec_path 7 DegRunLoopsExample.lx_sem2 DegRunLoopsExample.lx_sem1 DegRunLoopsExample.lx_call DegRunLoopsExample.lx_code
                 DegRunLoopsExample.lx_g (params_map (c_params DegRunLoopsExample.lx_g)) (DegRunLoopsExample.lx_s0 rho)
                 (concat (DegRunLoopsExample.lx_sg rho)) = Some (DegRunLoopsExample.lx_s rho)) /\
  DegRunLoops.picks_decided_sched bool 7 DegRunLoopsExample.lx_sem2 DegRunLoopsExample.lx_sem1 DegRunLoopsExample.lx_call
     DegRunLoopsExample.lx_code DegRunLoopsExample.lx_g DegRunLoopsExample.lx_idom (params_map (c_params DegRunLoopsExample.lx_g))
     DegRunLoopsExample.lx_s0 [true; false]
     (length DegRunLoopsExample.lx_heads * length (c_blocks DegRunLoopsExample.lx_g))
     (DegRunLoops.blk_s DegRunLoopsExample.lx_g) (DegRunLoops.vis_s bool DegRunLoopsExample.lx_g DegRunLoopsExample.lx_sg) /\
  concat (DegRunLoopsExample.lx_sg true) <> concat (DegRunLoopsExample.lx_sg false) /\
  (forall rho, match DegRunLoopsExample.lx_s rho (DegRunLoopsExample.lx_i 1) with Some f => f [] | None => 0 end = 2).
Proof. exact DegRunLoopsExample.loops_example. Qed.

(* Model.DegLoops.update_bases_fresh restricts only an update base that is read WITHOUT a running
   version: on  var u[2]; u[0] = a; u[1] = 1;  (u.1 = update(u.0, ..); u.2 = update(u.1, ..)) the base
   u.1 of the second update is assigned by the first, and loops_ok holds *)
Example C07_twice_updated_array_example :
  compute_infos (c_params DegRunLoopsExample.lu_g) [None] (c_blocks DegRunLoopsExample.lu_g) [] = Some DegRunLoopsExample.lu_infos /\
  infos_ok DegRunLoopsExample.lu_infos DegRunLoopsExample.lu_g = true /\
  existsb (vname_eqb (DegRunLoopsExample.lu_u 1)) (local_targets_m DegRunLoopsExample.lu_g) = true /\
  DegLoops.update_bases_fresh DegRunLoopsExample.lu_infos DegRunLoopsExample.lu_g = true /\
  DegLoops.loops_ok DegRunLoopsExample.lu_infos DegRunLoopsExample.lu_g = true.
Proof. exact DegRunLoopsExample.twice_updated_example. Qed.

(* FOURTH AUDIT: the shape "loop header with two back edges whose deciding condition reads the
   header's own phi target" -  var k = 0; var x = 0; while (k < 3) { k = k + 1; if (a == x) { x = k; }
   else { x = 2; } }  o <-- x;  as the implementation lifts and renames it (header = block 1 with the
   predecessors 0, 3, 4 and the phis k.1, x.1; declaration statements left out) - satisfies EVERY
   hypothesis of C07_loops_runs_represented, [picks_decided_sched] included, for two valuations whose
   runs part in the first iteration and arrive at the header with different arguments for x.1 *)
Example C07_header_two_back_edges_example :
  compute_infos (c_params DegRunLoopsExample.hx_g) DegRunLoopsExample.hx_idom (c_blocks DegRunLoopsExample.hx_g) [] = Some DegRunLoopsExample.hx_infos /\
  infos_ok DegRunLoopsExample.hx_infos DegRunLoopsExample.hx_g = true /\ graph_consistent DegRunLoopsExample.hx_g = true /\
  idom_is_dominator_table DegRunLoopsExample.hx_g DegRunLoopsExample.hx_idom = true /\
  DegLoops.loops_ok DegRunLoopsExample.hx_infos DegRunLoopsExample.hx_g = true /\
  (forall rho, map (hd 0%nat) (DegRunLoopsExample.hx_sg rho) = DegRunLoopsExample.hx_heads /\
               Forall (fun seg => seg <> []) (DegRunLoopsExample.hx_sg rho)) /\
  (forall rho, Forall (StronglySorted lt) (DegRunLoopsExample.hx_sg rho)) /\
  (forall rho, exists r, In r [true; false] /\ DegRunLoopsExample.hx_sg r = DegRunLoopsExample.hx_sg rho) /\
  (forall rho, exists tl, concat (DegRunLoopsExample.hx_sg rho) = 0%nat :: tl) /\
  (forall rho, rel_store bool rho (DegRunLoopsExample.hx_s0 rho) DegRunLoopsExample.hx_S0) /\
  (forall rho, cexec_path 7 DegRunLoopsExample.lx_sem2 DegRunLoopsExample.lx_sem1 DegRunLoopsExample.lx_call DegRunLoopsExample.lx_code
                 DegRunLoopsExample.hx_g (params_map (c_params DegRunLoopsExample.hx_g)) (DegRunLoopsExample.hx_s0 rho)
                 (concat (DegRunLoopsExample.hx_sg rho)) = Some (DegRunLoopsExample.hx_s rho)) /\
  DegRunLoops.picks_decided_sched bool 7 DegRunLoopsExample.lx_sem2 DegRunLoopsExample.lx_sem1 DegRunLoopsExample.lx_call
     DegRunLoopsExample.lx_code DegRunLoopsExample.hx_g DegRunLoopsExample.hx_idom (params_map (c_params DegRunLoopsExample.hx_g))
     DegRunLoopsExample.hx_s0 [true; false]
     (length DegRunLoopsExample.hx_heads * length (c_blocks DegRunLoopsExample.hx_g))
     (DegRunLoops.blk_s DegRunLoopsExample.hx_g) (DegRunLoops.vis_s bool DegRunLoopsExample.hx_g DegRunLoopsExample.hx_sg) /\
  (exists b1, nth_error (c_blocks DegRunLoopsExample.hx_g) 1 = Some b1 /\ b_preds b1 = [0%N; 3%N; 4%N] /\
              decides DegRunLoopsExample.hx_g DegRunLoopsExample.hx_idom b1 DegRunLoopsExample.hx_cond /\
              In (DegRunLoopsExample.hx_x 1) (expr_reads DegRunLoopsExample.hx_cond) /\
              In (DegRunLoopsExample.hx_x 1) (local_targets DegRunLoopsExample.hx_g (b_stmts b1))).
Proof. exact DegRunLoopsExample.header_two_back_edges_example. Qed.
