(* C07 - degree claims are sound.  The operator tables are REGENERATED from
   /repo on every run (Gen.DegreeTable, by executing degree_meta.rs); the
   theorems below are re-checked against them, so an edited table entry breaks
   an obligation here. *)
From Coq Require Import ZArith List Bool.
Require Import Model.Base Model.Ir Model.Propagate Gen.DegreeTable Spec.PolyDeg.
Require Import Model.Justify Model.DegJustify Spec.DegSem Proofs.PolyDegProofs Proofs.DegreeProofs Proofs.DegGraphProofs Proofs.ValueProofs.
Require Model.Lift Spec.CfgSpec Spec.CtlSpec Proofs.CtlStructure.
Import ListNotations.
Local Open Scope Z_scope.

(* the calculus: degrees add under multiplication (discrete Leibniz rule) *)
Theorem C07_Deg_mul : forall (V : Type) line p m n (F G : V -> Z),
  Deg V line p m F -> Deg V line p n G -> Deg V line p (m + n) (fun r => (F r * G r) mod p).
Proof. exact Deg_mul. Qed.
Print Assumptions C07_Deg_mul.

Theorem C07_Deg_add : forall (V : Type) line p m n (F G : V -> Z),
  Deg V line p m F -> Deg V line p n G -> Deg V line p (Nat.max m n) (fun r => (F r + G r) mod p).
Proof. exact Deg_add. Qed.
Print Assumptions C07_Deg_add.

(* every entry of the regenerated table is at least the sound composition rule *)
Theorem C07_degree_table_sound : forall op a b, deg_leb (sound_deg op a b) (deg_infix op a b) = true.
Proof. exact degree_table_sound. Qed.
Print Assumptions C07_degree_table_sound.

Theorem C07_degree_prefix_table_sound : forall op a, deg_leb (sound_deg_prefix op a) (deg_prefix op a) = true.
Proof. exact degree_prefix_table_sound. Qed.
Print Assumptions C07_degree_prefix_table_sound.

(* upper bounds compose: the table is monotone *)
Theorem C07_degree_table_monotone : forall op a a' b b',
  deg_leb a' a = true -> deg_leb b' b = true ->
  deg_leb (deg_infix op a' b') (deg_infix op a b) = true.
Proof. exact degree_table_monotone. Qed.
Print Assumptions C07_degree_table_monotone.

(* the range-level functions, as executed, are the pointwise liftings of the model *)
Theorem C07_range_tables_consistent :
  forallb (fun '(op, a, b, r) => drange_eqb (range_infix op a b) r) range_infix_table = true /\
  forallb (fun '(op, a, r) => drange_eqb (range_prefix op a) r) range_prefix_table = true /\
  forallb (fun '(a, b, r) => drange_eqb (range_inf a b) r) range_inf_table = true /\
  forallb (fun '(a, (c, l, q)) =>
             Bool.eqb (range_is_constant a) c && Bool.eqb (range_is_linear a) l && Bool.eqb (range_is_quadratic a) q)
          range_pred_table = true.
Proof. exact range_tables_consistent. Qed.
Print Assumptions C07_range_tables_consistent.

Theorem C07_range_tables_complete :
  N.of_nat (length range_infix_table) = 5120%N /\ N.of_nat (length range_prefix_table) = 48%N /\
  N.of_nat (length range_inf_table) = 256%N /\ N.of_nat (length range_pred_table) = 16%N.
Proof. exact range_tables_complete. Qed.
Print Assumptions C07_range_tables_complete.

(* semantic soundness of the bound attached to `F op G`, for every operator *)
Theorem C07_infix_bound_sound : forall (V : Type) line p op a b (F G : V -> Z) h,
  op_den p op h -> SemDeg V line p a F -> SemDeg V line p b G ->
  SemDeg V line p (deg_infix op a b) (fun r => h (F r) (G r)).
Proof. exact infix_bound_sound. Qed.
Print Assumptions C07_infix_bound_sound.

Theorem C07_prefix_bound_sound : forall (V : Type) line p op a (F : V -> Z) h,
  prefix_den p op h -> SemDeg V line p a F -> SemDeg V line p (deg_prefix op a) (fun r => h (F r)).
Proof. exact prefix_bound_sound. Qed.
Print Assumptions C07_prefix_bound_sound.

(* joins selected independently of the valuation (phi, constant-condition switch, arrays) *)
Theorem C07_inf_bound_sound : forall (V : Type) line p a b (F : V -> Z),
  SemDeg V line p a F \/ SemDeg V line p b F -> SemDeg V line p (snd (range_inf (a, a) (b, b))) F.
Proof. exact inf_bound_sound. Qed.
Print Assumptions C07_inf_bound_sound.

(* GRAPH LEVEL: on a graph accepted by the validator DegJustify.djust_cfg (which
   the check runs on the implementation's real annotated graph; array forms
   included), in every state reachable by the step relation of Spec.DegSem - cells
   hold their value, element by element, as a function of the valuation; signals and
   component ports are independent indeterminates; never-assigned locals hold zeros;
   the control flow does not depend on the valuation - the upper end of every degree
   range attached to a node bounds the degree of the node's value, of EVERY element
   of it for an array.  For a range whose upper end is Quadratic this is exactly
   "the expression is a polynomial of total degree at most two in the signals", the
   claim behind `unnecessary signal assignment`.  [name_code] places component ports
   in the family of a component; the statement holds for every such placement. *)
Theorem C07_validated_graph_degrees_true :
  forall (V : Type) (line : V -> V -> Z -> V) (p : Z)
         (sem2 : infix_op -> Z -> Z -> Z) (sem1 : prefix_op -> Z -> Z) (call_sem : ident -> list Z -> Z)
         (name_code : ident -> Z),
  (forall op, op_den p op (sem2 op)) -> (forall op, prefix_den p op (sem1 op)) ->
  forall c idom, djust_cfg c idom = true ->
  forall s0 s e F r,
  finit_ok V line p c s0 -> freachable V p sem2 sem1 call_sem name_code c idom s0 s ->
  djust_expr c e = true -> den V p sem2 sem1 call_sem name_code s e = Some F -> expr_deg e = Some r ->
  forall i, SemDeg V line p (snd r) (F i).
Proof. exact justified_degrees_true. Qed.
Print Assumptions C07_validated_graph_degrees_true.

(* the step relation keeps every cell within the range its reads carry *)
Theorem C07_step_preserves :
  forall (V : Type) (line : V -> V -> Z -> V) (p : Z)
         (sem2 : infix_op -> Z -> Z -> Z) (sem1 : prefix_op -> Z -> Z) (call_sem : ident -> list Z -> Z)
         (name_code : ident -> Z),
  (forall op, op_den p op (sem2 op)) -> (forall op, prefix_den p op (sem1 op)) ->
  forall c idom, djust_cfg c idom = true ->
  forall s s', fstore_ok V line p c s -> fstep V p sem2 sem1 call_sem name_code c idom s s' -> fstore_ok V line p c s'.
Proof. exact fstep_preserves. Qed.
Print Assumptions C07_step_preserves.

(* a selection by data that do not depend on the valuation (a constant condition, a
   constant array index) among functions within a bound stays within it *)
Theorem C07_selection_sound :
  forall (V : Type) (line : V -> V -> Z -> V) (p : Z) (X : Type) d (K : V -> X) (H : X -> V -> Z),
  (forall r r', K r = K r') -> (forall r, SemDeg V line p d (H (K r))) -> SemDeg V line p d (fun rho => H (K rho) rho).
Proof. exact select_general. Qed.
Print Assumptions C07_selection_sound.

(* CONTROL DEPENDENCE IN LIFTED GRAPHS: what Spec.DegSem.decides assumes of the graphs
   lifting produces, stated on paths only (Spec.CtlSpec; no immediate-dominator table) and
   proved for the skeleton graphs of Model.Lift.lift by induction over the statement
   (Proofs.CtlStructure).  A block b whose decision can change the edge along which a join
   j is entered - [can_split]: two walks from b to j that have nothing in common but their
   ends; Proofs.CtlStructure.split_exists shows for every graph that any two walks from a
   common block that enter j along different edges have such a block in common - lies on
   the dominator-tree path from some predecessor p of j up to the immediate dominator d of
   j, i.e. among the blocks Spec.DegSem.above walks - [on_dom_chain]: b dominates p, d is
   the closest strict dominator of j and dominates b ([dominates] is reflexive, so b = p
   and b = d are included).  [is_join] (at least two predecessors) follows from [can_split]
   and is kept for the correspondence with Spec.DegSem.pick_ok.  The weaker reading of
   can_split in which the two walks may meet is NOT what decides the edge and the
   implication is false for it (Proofs.CtlStructure.meeting_variant_refuted:
   `if (a) {x}  if (c) {y}  z`, block 0 and the join 4 of the second `if`). *)
Theorem C07_lifted_graphs_control_dependence :
  forall (body : Lift.sk) (g : list Lift.block), Lift.lift body = Base.Ok g ->
  forall b j : nat, CtlSpec.can_split g b j -> CtlSpec.is_join g j -> CtlSpec.on_dom_chain g j b.
Proof. exact CtlStructure.lifted_control_dependence. Qed.
Print Assumptions C07_lifted_graphs_control_dependence.

(* non-vacuity for arrays: t.0 = [1, 2]; b <-- t.0[IDX] with a the signal. Reading at
   the literal index 0 may carry the array's constant range; reading at the signal a
   may not (it is what the repaired defect 920512c claimed), but may carry an upper end
   non-quadratic *)
Definition exa_k (d : option drange) : know := {| kval := None; kdeg := d |}.
Definition exa_t0 : vname := {| vn_name := [116%N]; vn_suffix := None; vn_version := Some 0%N |}.
Definition exa_a : vname := {| vn_name := [97%N]; vn_suffix := None; vn_version := None |}.
Definition exa_b : vname := {| vn_name := [98%N]; vn_suffix := None; vn_version := None |}.
Definition exa_m : meta := {| m_start := 0%N; m_end := 0%N; m_file := None |}.
Definition exa_cc : option drange := Some (DConst, DConst).
Definition exa_graph (idx : expr) (claim : option drange) : cfg :=
  {| c_kind := KTemplate; c_params := []; c_decls := [(exa_t0, TLocal); (exa_a, TSigIn); (exa_b, TSigOut)];
     c_blocks := [ {| b_index := 0%N; b_depth := 0%N; b_preds := []; b_succs := [];
       b_stmts := [ SSubst exa_m exa_t0 OpVar (EArray [ENum 1 (exa_k exa_cc); ENum 2 (exa_k exa_cc)] (exa_k exa_cc)) None (Some TLocal);
                    SSubst exa_m exa_b OpSig (EAccess exa_t0 [AIdx idx] (exa_k claim)) None (Some TSigOut) ] |} ] |}.
Example C07_array_index_matters :
  djust_cfg (exa_graph (ENum 0 (exa_k exa_cc)) exa_cc) [None] = true /\
  djust_cfg (exa_graph (EVar exa_a (exa_k (Some (DLin, DLin)))) exa_cc) [None] = false /\
  djust_cfg (exa_graph (EVar exa_a (exa_k (Some (DLin, DLin)))) (Some (DConst, DNonQuad))) [None] = true.
Proof. vm_compute. repeat split; reflexivity. Qed.

(* non-vacuity: over valuations Z with line rho delta t = rho + t*delta, the
   identity has degree 1, its square degree 2, and the square is not linear mod 7 *)
Example C07_square_is_quadratic_not_linear :
  Deg Z (fun r d t => r + t * d) 7 2 (fun r => (r * r) mod 7) /\
  ~ Deg Z (fun r d t => r + t * d) 7 1 (fun r => (r * r) mod 7).
Proof.
  split.
  - apply (Deg_mul Z (fun r d t => r + t * d) 7 1 1 (fun r => r) (fun r => r));
      intros rho delta t; cbn [Dn]; unfold Dd; replace (_ - _) with 0 by ring; reflexivity.
  - intros H. specialize (H 0 1 0). vm_compute in H. discriminate.
Qed.

(* non-vacuity for control dependence (the repaired defect D18): x.3 = phi(x.1, x.2)
   with x.1 = 1, x.2 = 2 at the join of `if (a == 1)`: the merged value may be claimed
   constant only when the deciding condition is; with the condition on the signal a
   the claim must have upper end non-quadratic *)
Definition exc_x (n : N) : vname := {| vn_name := [120%N]; vn_suffix := None; vn_version := Some n |}.
Definition exc_cond (d : option drange) : expr :=
  EInfix IEq (EVar exa_a (exa_k (Some (DLin, DLin)))) (ENum 1 (exa_k exa_cc)) (exa_k d).
Definition exc_graph (cond_deg phi_claim : option drange) : cfg :=
  {| c_kind := KTemplate; c_params := [];
     c_decls := [(exc_x 1, TLocal); (exc_x 2, TLocal); (exc_x 3, TLocal); (exa_a, TSigIn); (exa_b, TSigOut)];
     c_blocks :=
       [ {| b_index := 0%N; b_depth := 0%N; b_preds := []; b_succs := [1%N; 2%N];
            b_stmts := [ SIf exa_m (exc_cond cond_deg) 1%N (Some 2%N) ] |};
         {| b_index := 1%N; b_depth := 0%N; b_preds := [0%N]; b_succs := [3%N];
            b_stmts := [ SSubst exa_m (exc_x 1) OpVar (ENum 1 (exa_k exa_cc)) None (Some TLocal) ] |};
         {| b_index := 2%N; b_depth := 0%N; b_preds := [0%N]; b_succs := [3%N];
            b_stmts := [ SSubst exa_m (exc_x 2) OpVar (ENum 2 (exa_k exa_cc)) None (Some TLocal) ] |};
         {| b_index := 3%N; b_depth := 0%N; b_preds := [1%N; 2%N]; b_succs := [];
            b_stmts := [ SSubst exa_m (exc_x 3) OpVar (EPhi [exc_x 1; exc_x 2] (exa_k phi_claim)) None (Some TLocal);
                         SSubst exa_m exa_b OpSig (EVar (exc_x 3) (exa_k phi_claim)) None (Some TSigOut) ] |} ] |}.
Example C07_control_dependence_matters :
  let idom := [None; Some 0%N; Some 0%N; Some 0%N] in
  djust_cfg (exc_graph (Some (DNonQuad, DNonQuad)) exa_cc) idom = false /\
  djust_cfg (exc_graph (Some (DNonQuad, DNonQuad)) (Some (DConst, DNonQuad))) idom = true /\
  djust_cfg (exc_graph None None) idom = true /\
  djust_cfg (exc_graph None exa_cc) idom = false.
Proof. vm_compute. repeat split; reflexivity. Qed.

(* the semantic side is not vacuous either: over valuations Z (one signal a, the line
   rho + t * delta) the store that holds the identity for the signal a and nothing else is an
   initial store of the diamond graph in the sense of [finit_ok] *)
Example C07_initial_store_example :
  finit_ok Z (fun r d t => r + t * d) 7 (exc_graph (Some (DNonQuad, DNonQuad)) (Some (DConst, DNonQuad)))
           (fun x => if vname_eqb exa_a x then Some (fun _ rho => rho) else None).
Proof.
  intros x F Hx. destruct (vname_eqb exa_a x) eqn:E; [|discriminate].
  apply vname_eqb_eq in E. subst x. injection Hx as <-.
  right. left. split; [reflexivity|]. split; [exists TSigIn; split; [reflexivity|discriminate]|].
  intros i rho delta t. cbn [Dn]. unfold Dd. replace (_ - _) with 0 by ring. reflexivity.
Qed.

(* non-vacuity for the control dependence of lifted graphs:
     if (c1) { if (c2) { x } else { y } } else { z }  w
   lifts to  0 -> 1,4   1 -> 2,3   2 -> 5   3 -> 5   4 -> 5  (Proofs.CtlStructure.ex_nest_g).
   The inner `if` is the last statement of the outer branch, so the outer join (block 5)
   receives the inner branches 2 and 3 as predecessors directly: the inner branching block
   1 can change the edge along which 5 is entered, and it is on the dominator chain of 5
   (it dominates the predecessor 2; the immediate dominator of 5 is block 0). *)
Example C07_nested_if_inner_branch_decides_outer_join :
  Lift.lift (Lift.SBlock [Lift.SIf 1 (Lift.SBlock [Lift.SIf 2 (Lift.SBlock [Lift.SLeaf 3 false])
                                                             (Some (Lift.SBlock [Lift.SLeaf 4 false]))])
                                     (Some (Lift.SBlock [Lift.SLeaf 5 false]));
                          Lift.SLeaf 6 false]) = Base.Ok CtlStructure.ex_nest_g /\
  CtlSpec.can_split CtlStructure.ex_nest_g 1 5 /\ CtlSpec.is_join CtlStructure.ex_nest_g 5 /\
  CtlSpec.on_dom_chain CtlStructure.ex_nest_g 5 1.
Proof. exact CtlStructure.nested_if_example. Qed.
