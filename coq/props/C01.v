(* C01 — totality: no input makes the analyzer panic, abort or hang.
   Decided partially (DESIGN §4 C01): the panic-site inventory is regenerated
   from the current source and every site is accounted for; the literal actions
   and split_string are proved total for all tokens / all valid UTF-8 strings;
   totality of the pipeline is assembled from the per-stage facts, which are
   premises of [C01_pipeline_total] (discharged by the cited theorems of the
   other properties where they exist, observed otherwise).
   Property theorems only: each is closed by [exact] of a lemma, followed by
   Print Assumptions. *)
From Coq Require Import ZArith List Bool String.
Require Import Model.Base Model.Pipeline Proofs.PipelineProofs Proofs.PanicSiteProofs.
Require Import Gen.PanicSites Gen.PanicMap.
Import ListNotations.
Local Open Scope Z_scope.

(* every syntactic panic site of the anchored files (regenerated) has an entry in
   the validated map (regenerated): discharged by a theorem, syntactically
   guarded, outside the model, or observed only *)
Theorem C01_every_panic_site_discharged :
  forallb (fun s => existsb (fun e => String.eqb (fst e) (s_id s)) panic_map) sites = true.
Proof. exact every_panic_site_discharged. Qed.
Print Assumptions C01_every_panic_site_discharged.

Theorem C01_every_map_entry_justified : forallb justified panic_map = true.
Proof. exact every_map_entry_justified. Qed.
Print Assumptions C01_every_map_entry_justified.

Theorem C01_no_anchored_file_missing : anchored_files_missing = [].
Proof. exact no_anchored_file_missing. Qed.
Print Assumptions C01_no_anchored_file_missing.

(* DECNUMBER: on every token of r'[0-9]+' the action returns a number *)
Theorem C01_decnumber_action_total : forall tok, dec_token tok = true ->
  exists v, decnumber_action tok = Ok v /\ 0 <= v.
Proof. exact decnumber_action_total. Qed.
Print Assumptions C01_decnumber_action_total.

(* HEXNUMBER: on every token of r'0x[0-9A-Fa-f]+' the slice [2..] is in range
   and the action returns a number *)
Theorem C01_hexnumber_action_total : forall tok, hex_token tok = true ->
  exists v, hexnumber_action tok = Ok v /\ 0 <= v.
Proof. exact hexnumber_action_total. Qed.
Print Assumptions C01_hexnumber_action_total.

(* D1 (fixed by 4e93f91): the old terminal r'0x[0-9A-Fa-f]*' accepts `0x`, on
   which the action panics *)
Theorem C01_hexnumber_old_regex_refuted :
  hex_token_old d1_witness = true /\ hexnumber_action d1_witness = Panic site_parse_base16.
Proof. exact hexnumber_old_regex_refuted. Qed.
Print Assumptions C01_hexnumber_old_regex_refuted.

(* SMALL_DECNUMBER / Version since bdf3e60: never a panic, whatever the tokens *)
Theorem C01_version_action_never_panics : forall a b c s,
  version_action a b c <> Panic s /\ version_action a b c <> OutOfFuel.
Proof. exact version_action_never_panics. Qed.
Print Assumptions C01_version_action_never_panics.

(* D2: the old action panics on a 23-digit version number, the new one errs *)
Theorem C01_version_action_old_refuted :
  dec_token d2_witness = true /\ small_decnumber_action_old d2_witness = Panic site_parse_number /\
  small_decnumber_action d2_witness = Err (EOther 1).
Proof. exact small_decnumber_old_refuted. Qed.
Print Assumptions C01_version_action_old_refuted.

(* STRING: on every valid UTF-8 token of r#''[^']*''# the slice 1..len-1 is
   in range and on char boundaries *)
Theorem C01_string_action_total : forall tok, string_token tok = true -> utf8 tok ->
  exists s, string_action tok = Ok s.
Proof. exact string_action_total. Qed.
Print Assumptions C01_string_action_total.

(* split_string (since c447a1c), for every valid UTF-8 string: neither split_at
   nor the usize decrement panics, the loop ends within |s| rounds, the chunks
   concatenate to the string, and every chunk is a non-empty valid UTF-8 string
   of at most 230 bytes, i.e. no scalar is ever cut *)
Theorem C01_split_string_never_panics : forall s, utf8 s ->
  exists chunks, split_string (length s) s = Ok chunks /\ concat chunks = s /\
    Forall (fun c => utf8 c /\ c <> [] /\ (length c <= 230)%nat) chunks.
Proof. exact split_string_never_panics. Qed.
Print Assumptions C01_split_string_never_panics.

(* D26 (fixed by c447a1c): the old loop panics on 'x' followed by 125 two-byte scalars *)
Theorem C01_split_string_old_refuted :
  utf8 d26_witness /\ split_string_old (length d26_witness) d26_witness = Panic site_split_at.
Proof. exact split_string_old_refuted. Qed.
Print Assumptions C01_split_string_old_refuted.

(* the assembly: if no stage panics or runs out of fuel (an Err is allowed: it
   becomes a report and the run continues) and the output stage ends with exit
   status 0 or 1, the pipeline ends with exit status 0 or 1 for every command
   line. The premises are named after what discharges them:
     files      C19_include_terminates, C19_run_project_fuel_ok (fuel); the two
                `expect`s of include_logic.rs are observed
     parse      C05_preprocess_total, the action theorems above; the LALRPOP
                automaton is observed
     desugar    C18_pass2_unreachable_never_fires (pass 2); pass 1 observed
                (C18_desugar_never_panics_full_statement is open)
     lift       C10_pass_never_panics (renaming); lifting observed (C12 pending)
     ssa        C15_no_panic, C15_dom_fuel_suffices (dominators); construction
                observed, its output validated by C14
     propagate  C16_field_never_panics, C16_egcd_total, C16_shift_bounded_work,
                C14_unique_defs (add_variable's assert); the loop is time-boxed
     passes     C09_taint_fuel_suffices, C11_*_reports_exact; others observed
     output     C03_exit_zero_iff_nothing_displayed, C03_summary_counts_displayed *)
Theorem C01_pipeline_total :
  forall (Argv Source Ast Definition_ Cfg Ssa Report : Type)
         (stage_files : Argv -> outcome (list Source))
         (stage_parse : Source -> outcome Ast)
         (stage_desugar : list Ast -> outcome (list Definition_ * list Report))
         (stage_lift : Definition_ -> outcome Cfg)
         (stage_ssa : Cfg -> outcome Ssa)
         (stage_propagate : Ssa -> outcome Ssa)
         (stage_passes : Ssa -> outcome (list Report))
         (report_of_error : error -> Report)
         (stage_output : list Report -> outcome Z)
         (files_total : forall a, (forall s, stage_files a <> Panic s) /\ stage_files a <> OutOfFuel)
         (parse_total : forall a, (forall s, stage_parse a <> Panic s) /\ stage_parse a <> OutOfFuel)
         (desugar_total : forall a, (forall s, stage_desugar a <> Panic s) /\ stage_desugar a <> OutOfFuel)
         (lift_total : forall a, (forall s, stage_lift a <> Panic s) /\ stage_lift a <> OutOfFuel)
         (ssa_total : forall a, (forall s, stage_ssa a <> Panic s) /\ stage_ssa a <> OutOfFuel)
         (propagate_total : forall a, (forall s, stage_propagate a <> Panic s) /\ stage_propagate a <> OutOfFuel)
         (passes_total : forall a, (forall s, stage_passes a <> Panic s) /\ stage_passes a <> OutOfFuel)
         (output_exit_status : forall rs, stage_output rs = Ok 0 \/ stage_output rs = Ok 1),
  forall argv,
    run_pipeline Argv Source Ast Definition_ Cfg Ssa Report stage_files stage_parse stage_desugar
                 stage_lift stage_ssa stage_propagate stage_passes report_of_error stage_output argv = Ok 0 \/
    run_pipeline Argv Source Ast Definition_ Cfg Ssa Report stage_files stage_parse stage_desugar
                 stage_lift stage_ssa stage_propagate stage_passes report_of_error stage_output argv = Ok 1.
Proof. exact pipeline_total. Qed.
Print Assumptions C01_pipeline_total.

(* the hypotheses are satisfiable and the definitions compute: the repaired
   witnesses, and a pipeline instance in which one definition fails to lift *)
Example C01_witnesses :
  hexnumber_action [48; 120; 70; 102] = Ok 255 /\
  decnumber_action [48; 49; 50] = Ok 12 /\
  version_action [50] [49] [52] = Ok (2, 1, 4) /\
  hex_token d1_witness = false /\
  string_action [34; 195; 169; 34] = Ok [195; 169] /\
  (exists chunks, split_string (length d26_witness) d26_witness = Ok chunks /\ map (@length Z) chunks = [229; 22]%nat) /\
  run_pipeline unit Z Z Z Z Z Z (fun _ => Ok [1; 2]) (fun s => if s =? 1 then Ok s else Err (EOther 7))
    (fun asts => Ok (asts ++ [5], [])) (fun d => if d =? 5 then Err (EOther 9) else Ok d) (fun c => Ok c) (fun s => Ok s)
    (fun s => Ok [s]) (fun e => match e with EOther c => c | _ => 0 end)
    (fun rs => if (length rs =? 0)%nat then Ok 0 else Ok 1) tt = Ok 1.
Proof.
  repeat split; try (vm_compute; reflexivity).
  eexists. split; vm_compute; reflexivity.
Qed.
