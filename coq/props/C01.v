(* C01 — totality: no input makes the analyzer panic, abort or hang.
   Decided partially (DESIGN §4 C01): the panic-site inventory is regenerated
   from the current source and every site is accounted for; the literal actions
   and split_string are proved total for all tokens / all valid UTF-8 strings;
   the stages that have mirrors (include resolution, desugaring, renaming + lifting +
   IR lifting, dominator tree, SSA construction, propagation) are chained in
   Model.PipelineMirrors -- from the desugared syntax tree onwards no stage of that chain
   is a parameter; the LALRPOP parser is one -- and [C01_pipeline_mirrors_never_panic]
   composes their totality theorems, with the bridges between them proved; the remaining
   stages (parser automaton, analysis passes, output) are covered by NO theorem: observed
   by the engine, their panic sites inventoried (third audit: the generic assembly over
   abstract stages is no obligation any more).
   Property theorems only: each is closed by [exact] of a lemma, followed by
   Print Assumptions. *)
From Coq Require Import ZArith List Bool String.
Require Import Model.Base Model.Pipeline Proofs.PipelineProofs Proofs.PanicSiteProofs.
Require Import Gen.PanicSites Gen.PanicMap.
(* developments of other properties that C01 builds on, by qualified name only
   (std++ notations are not imported here) *)
Require Model.Lift Spec.CfgSpec Proofs.LiftTotalFlat Proofs.LiftEdges Model.Includes Proofs.IncludesNoPanic.
Require Model.Ir Model.Ssa Proofs.SsaNoPanic Proofs.SsaFuel Proofs.SsaClean.
(* the chain of the actual mirrors (Model.PipelineMirrors) and its bridges *)
Require Model.Ast Model.Desugar Model.Dom Model.Propagate Model.Justify Model.Clean Spec.ExpandSpec Spec.DomSpec.
Require Model.LiftFull Proofs.LiftFullTotal Proofs.LiftFullIr Proofs.SsaConstruction Proofs.SsaLocalDefs.
Require Model.PipelineMirrors Proofs.PipelineMirrorsProofs Proofs.MirrorsShape Proofs.MirrorsDom
        Proofs.MirrorsExample.
Import ListNotations.
Local Open Scope Z_scope.

(* every syntactic panic site of the anchored files (regenerated) has an entry in
   the validated map (regenerated): discharged by a theorem, syntactically
   guarded, outside the model, or observed only *)
Theorem C01_every_panic_site_discharged :
  forallb (fun s => existsb (fun e => String.eqb (fst e) (s_id s)) panic_map) sites = true.
Proof. exact every_panic_site_discharged. Qed.
Print Assumptions C01_every_panic_site_discharged.

(* (the former obligation C01_every_map_entry_justified -- every disposition string is
   non-empty -- said nothing and was removed: the citations of the map are now resolved
   by Coq itself, `Check Props.Cnn.<name>.` for every cited theorem in the generated
   file coq/gen/PanicCites.v, which ./check C01 compiles after this file; the guards are
   re-validated against the current source by lib/panicsites.py on every run) *)

Theorem C01_no_anchored_file_missing : anchored_files_missing = [].
Proof. exact no_anchored_file_missing. Qed.
Print Assumptions C01_no_anchored_file_missing.

(* DECNUMBER: on every token of r'[0-9]+' the action returns a number *)
Theorem C01_decnumber_action_total : forall tok, dec_token tok = true ->
  exists v, decnumber_action tok = Ok v /\ 0 <= v.
Proof. exact decnumber_action_total. Qed.
Print Assumptions C01_decnumber_action_total.

(* HEXNUMBER: on every token of r'0x[0-9A-Fa-f]+' the slice [2..] is in range
   and the action returns a number *)
Theorem C01_hexnumber_action_total : forall tok, hex_token tok = true ->
  exists v, hexnumber_action tok = Ok v /\ 0 <= v.
Proof. exact hexnumber_action_total. Qed.
Print Assumptions C01_hexnumber_action_total.

(* D1 (fixed by 4e93f91): the old terminal r'0x[0-9A-Fa-f]*' accepts `0x`, on
   which the action panics *)
Theorem C01_hexnumber_old_regex_refuted :
  hex_token_old d1_witness = true /\ hexnumber_action d1_witness = Panic site_parse_base16.
Proof. exact hexnumber_old_regex_refuted. Qed.
Print Assumptions C01_hexnumber_old_regex_refuted.

(* SMALL_DECNUMBER / Version since bdf3e60: never a panic, whatever the tokens *)
Theorem C01_version_action_never_panics : forall a b c s,
  version_action a b c <> Panic s /\ version_action a b c <> OutOfFuel.
Proof. exact version_action_never_panics. Qed.
Print Assumptions C01_version_action_never_panics.

(* D2: the old action panics on a 23-digit version number, the new one errs *)
Theorem C01_version_action_old_refuted :
  dec_token d2_witness = true /\ small_decnumber_action_old d2_witness = Panic site_parse_number /\
  small_decnumber_action d2_witness = Err (EOther 1).
Proof. exact small_decnumber_old_refuted. Qed.
Print Assumptions C01_version_action_old_refuted.

(* STRING: on every valid UTF-8 token of r#''[^']*''# the slice 1..len-1 is
   in range and on char boundaries *)
Theorem C01_string_action_total : forall tok, string_token tok = true -> utf8 tok ->
  exists s, string_action tok = Ok s.
Proof. exact string_action_total. Qed.
Print Assumptions C01_string_action_total.

(* split_string (since c447a1c), for every valid UTF-8 string: neither split_at
   nor the usize decrement panics, the loop ends within |s| rounds, the chunks
   concatenate to the string, and every chunk is a non-empty valid UTF-8 string
   of at most 230 bytes, i.e. no scalar is ever cut *)
Theorem C01_split_string_never_panics : forall s, utf8 s ->
  exists chunks, split_string (length s) s = Ok chunks /\ concat chunks = s /\
    Forall (fun c => utf8 c /\ c <> [] /\ (length c <= 230)%nat) chunks.
Proof. exact split_string_never_panics. Qed.
Print Assumptions C01_split_string_never_panics.

(* D26 (fixed by c447a1c): the old loop panics on 'x' followed by 125 two-byte scalars *)
Theorem C01_split_string_old_refuted :
  utf8 d26_witness /\ split_string_old (length d26_witness) d26_witness = Panic site_split_at.
Proof. exact split_string_old_refuted. Qed.
Print Assumptions C01_split_string_old_refuted.

(* lifting (control_flow_graph/lifting.rs, mirror Model.Lift of C12) never panics on
   the shape the DESUGARER hands on: the body is a block and every entry of an
   initialisation block is straight-line (a leaf, or a block / initialisation
   block of such) -- remove_tuples_from_statement turns `var (a, b) = (1, 2);`
   into a block of substitutions inside the initialisation block, which C12's
   parser_shaped (leaves only) does not admit. Both assert!s and every indexing
   of lifting.rs are Panic sites of the mirror. *)
Theorem C01_lift_never_panics_on_desugared_shape : forall body : Model.Lift.sk,
  Proofs.LiftTotalFlat.desugared_shape body -> exists g, Model.Lift.lift body = Ok g.
Proof. exact Proofs.LiftTotalFlat.lift_never_panics_desugared. Qed.
Print Assumptions C01_lift_never_panics_on_desugared_shape.

(* the class of C12_lift_never_panics is contained in it *)
Theorem C01_parser_shaped_is_desugared_shape : forall body : Model.Lift.sk,
  Spec.CfgSpec.parser_shaped body -> Proofs.LiftTotalFlat.desugared_shape body.
Proof. exact Proofs.LiftTotalFlat.parser_shaped_desugared_shape. Qed.
Print Assumptions C01_parser_shaped_is_desugared_shape.

(* neither `expect` of parser/src/include_logic.rs fires (mirror Model.Includes of
   C19, sites 1901/1902): for every file system in which a canonical path that is
   not a directory has a file name, every command line, library list and fuel,
   parse_files never returns Panic. (C19_include_terminates / C19_run_project_fuel_ok
   exclude OutOfFuel.) *)
Theorem C01_includes_never_panic :
  forall (path : Type) (EqDecision0 : stdpp.base.EqDecision path)
         (canon : path -> option path) (is_dir is_file : path -> bool)
         (read_dir : path -> option (list path)) (join : path -> path -> path)
         (parent : path -> path) (file_name : path -> option path)
         (ext_circom starts_dot has_sep : path -> bool)
         (content : path -> Model.Includes.file_content path),
    (forall p c, is_dir p = false -> canon p = Some c -> file_name c <> None) ->
    forall (d23 : bool) (dfuel fuel : nat) (paths libs : list path) (s : Z),
      Model.Includes.parse_files canon is_dir is_file read_dir join parent file_name ext_circom
                                 starts_dot has_sep content d23 dfuel fuel paths libs <> Panic s.
Proof. exact @Proofs.IncludesNoPanic.parse_files_no_panic. Qed.
Print Assumptions C01_includes_never_panic.

(* the SSA construction (mirror Model.Ssa of C14: insert_phi_statements,
   insert_ssa_variables_impl, visit_expression, Statement::insert_ssa_variables)
   never reaches an assert!/expect site, for every hash order of the dominance
   frontiers and children lists, on a graph
     - whose variables are still unversioned (IR lifting builds names with
       from_string / with_suffix only), and
     - whose dominator-tree children lists satisfy three order facts: a child is a
       block of the graph with a larger index than its parent (the parent strictly
       dominates it: C15_idom_exact, and dominance implies <=: C12_dom_implies_le),
       a children list has no duplicates, and a block is the child of at most one
       block (C15_dom_tree_children_invert_idom: children invert the idom function).
   The proof shows that the pre-order walk visits every block at most once
   (children_tree_of_order), that phi insertion and the updates of successor phis
   keep unvisited blocks unversioned, and that renaming an unversioned block never
   asserts.  SFuel (fuelled work list / recursion of the mirror) is excluded by the next
   theorem; SErrUndefined (the `used before defined` error report) is a legitimate
   answer.  That the children lists of the tree DominatorTree::new computes on a lifted
   graph satisfy the three facts is C01_lifted_children_order_facts below. *)
Theorem C01_into_ssa_never_panics :
  forall (frontier children : list (list N)) (c : Model.Ir.cfg),
    Proofs.SsaNoPanic.unversioned c -> (0 < length (Model.Ir.c_blocks c))%nat ->
    (forall j k, In k (Proofs.SsaNoPanic.kids children j) -> (j < k)%nat /\ (k < length (Model.Ir.c_blocks c))%nat) ->
    (forall j, NoDup (Proofs.SsaNoPanic.kids children j)) ->
    (forall j j' k, In k (Proofs.SsaNoPanic.kids children j) -> In k (Proofs.SsaNoPanic.kids children j') -> j = j') ->
    Model.Ssa.into_ssa frontier children c <> Model.Ssa.SPanic.
Proof. exact Proofs.SsaNoPanic.into_ssa_never_panics_tree. Qed.
Print Assumptions C01_into_ssa_never_panics.

(* ... and the fuel of the mirror suffices, so SFuel is not an outcome either (in
   particular it cannot mask a later SPanic).  Work list (insert_phi_statements):
   fuel n*n*(D+1)+n+1 for n blocks and D declarations; the measure
   |work list| + number of (block, declared name) pairs without a phi statement is at
   most n + n*D at the start, a pop costs one unit of fuel and lowers it by one, and
   every push is paid for by a phi statement inserted for a declared, unversioned
   name into a block that had none.  Tree walk: fuel n+1; a child has a larger index
   than its parent and is a block, so the depth below block cur is at most n - cur.
   One more hypothesis is needed: every local that is assigned is among the
   declarations of the definition ([written_declared], decidable) ... *)
Theorem C01_into_ssa_fuel_suffices :
  forall (frontier children : list (list N)) (c : Model.Ir.cfg),
    Proofs.SsaNoPanic.unversioned c -> Proofs.SsaFuel.written_declared c = true ->
    (0 < List.length (Model.Ir.c_blocks c))%nat ->
    (forall j k, In k (Proofs.SsaNoPanic.kids children j) -> (j < k)%nat /\ (k < List.length (Model.Ir.c_blocks c))%nat) ->
    Model.Ssa.into_ssa frontier children c <> Model.Ssa.SFuel.
Proof. exact Proofs.SsaFuel.into_ssa_never_out_of_fuel. Qed.
Print Assumptions C01_into_ssa_fuel_suffices.

(* ... and it cannot be dropped: a single block that is its own dominance frontier and
   assigns three undeclared locals meets every other hypothesis and the work list of the
   mirror runs out of its fuel 1*1*(0+1)+1+1 = 3 (the fuel of Model.Ssa is a bound for
   well-formed graphs only) *)
Theorem C01_into_ssa_fuel_needs_declared :
  Proofs.SsaNoPanic.unversioned Proofs.SsaFuel.fx_graph /\
  Proofs.SsaFuel.written_declared Proofs.SsaFuel.fx_graph = false /\
  (forall j k, In k (Proofs.SsaNoPanic.kids [[]] j) ->
               (j < k)%nat /\ (k < List.length (Model.Ir.c_blocks Proofs.SsaFuel.fx_graph))%nat) /\
  Model.Ssa.into_ssa [[0%N]] [[]] Proofs.SsaFuel.fx_graph = Model.Ssa.SFuel.
Proof. exact Proofs.SsaFuel.fuel_needs_declared. Qed.
Print Assumptions C01_into_ssa_fuel_needs_declared.

(* BRIDGE SSA -> propagation: the construction keeps a graph free of value claims
   (renaming copies the knowledge slot of every node, inserted phi statements carry none),
   so the first hypothesis of C20_propagate_completes holds for what into_ssa returns
   whenever it holds for what lifting built *)
Theorem C01_into_ssa_keeps_clean :
  forall (frontier children : list (list N)) (c c1 : Model.Ir.cfg),
    Model.Clean.clean_cfg c = true -> Model.Ssa.into_ssa frontier children c = Model.Ssa.SOk c1 ->
    Model.Clean.clean_cfg c1 = true.
Proof. exact Proofs.SsaClean.into_ssa_keeps_clean. Qed.
Print Assumptions C01_into_ssa_keeps_clean.

(* `2 + edges - nodes` of definition_complexity.rs cannot underflow: a lifted graph
   has at least (number of blocks - 1) entries in its successor lists, because every
   block but the entry is reachable (C12_all_reachable) and so is the target of an edge *)
Theorem C01_complexity_does_not_underflow : forall (body : Model.Lift.sk) (g : list Model.Lift.block),
  Model.Lift.lift body = Ok g ->
  (length g <= 2 + list_sum (map (fun b => length (Model.Lift.b_succs b)) g))%nat.
Proof. exact Proofs.LiftEdges.complexity_does_not_underflow. Qed.
Print Assumptions C01_complexity_does_not_underflow.

(* ------------------------------------------------------------------------ *)
(* THE CHAIN OF THE ACTUAL MIRRORS (Model.PipelineMirrors)                    *)
(*                                                                            *)
(*   Model.Includes.parse_files -> [parse: the LALRPOP parser, a PARAMETER --  *)
(*      the only stage of the chain that is one]                              *)
(*   -> per template Model.Desugar.desugar_template / per function            *)
(*      check_function                                                        *)
(*   -> Model.LiftFull.lift_to_ir: ensure_unique_variables (unique_vars.rs),   *)
(*      try_lift_impl / build_basic_blocks (control_flow_graph/lifting.rs),    *)
(*      every TryLift impl (intermediate_representation/lifting.rs),          *)
(*      declarations.rs, propagate_types; compared with the real into_cfg on  *)
(*      every ./check C13 (engine liftfull) and on the definitions of C01's   *)
(*      own engine                                                            *)
(*   -> Model.Dom.dominator_tree -> Model.Ssa.into_ssa                        *)
(*   -> Model.Propagate.propagate                                             *)
(*                                                                            *)
(* The analysis passes and the output stage are not part of the chain (they   *)
(* are observed by the engine only; no theorem of this file covers them).     *)
(* ------------------------------------------------------------------------ *)

(* LIFTING (renaming pass, block construction, IR lifting of every statement and
   expression, declarations).  [definition_wf] is decidable: the body is a block, free of
   sugar (C18_desugar_output_sugar_free / C18_function_kept_iff, bridged below), of the shape
   the desugarer hands on (C01_desugar_output_has_desugared_shape), and the keys handed to
   Declarations::add_declaration -- parameters and declared names after the renaming pass --
   are pairwise different (PipelineMirrors.names_distinct: evaluated on every explored
   definition, NOT derived from C10's theorem about its own mirror of the renaming pass).
   Panic sites covered (line numbers of the mirrored files): lifting.rs 192, 228, 288, 382;
   intermediate_representation/lifting.rs 119, 193 (the catch-all arms
   `panic!("failed to convert AST statement / expression to IR")`); declarations.rs 17;
   unique_vars.rs 184; environment.rs add_variable / remove_variable_block asserts. *)
Theorem C01_liftfull_never_panics : forall kind params pfile ploc body,
  Model.LiftFull.definition_wf params pfile ploc body = true ->
  (forall site, Model.LiftFull.try_lift_impl kind params pfile ploc body <> Panic site) /\
  Model.LiftFull.try_lift_impl kind params pfile ploc body <> OutOfFuel.
Proof. exact Proofs.LiftFullTotal.liftfull_never_panics'. Qed.
Print Assumptions C01_liftfull_never_panics.

(* the same for the mirror followed by the erasure onto Model.Ir (the function the chain,
   and the C04 / C08 theorems, speak about) *)
Theorem C01_lift_to_ir_never_panics : forall kind params pfile ploc body,
  Model.LiftFull.definition_wf params pfile ploc body = true ->
  (forall site, Model.LiftFull.lift_to_ir kind params pfile ploc body <> Panic site) /\
  Model.LiftFull.lift_to_ir kind params pfile ploc body <> OutOfFuel.
Proof. exact Proofs.LiftFullTotal.lift_to_ir_never_panics. Qed.
Print Assumptions C01_lift_to_ir_never_panics.

(* BRIDGE desugar -> lift (1).  The body that the desugarer hands on is a block whose
   initialisation blocks are flat -- two of the four clauses of definition_wf -- and its
   skeleton has the shape that C01_lift_never_panics_on_desugared_shape asks for, whenever
   the initialisation blocks of the parsed body hold declarations and (multi-)substitutions
   only ([ast_init_ok], decidable).  Proved through C18_desugar_refines_expand: the answer of
   the two passes is the specified expansion, which keeps that shape. *)
Theorem C01_desugar_output_has_desugared_shape :
  forall (lib : list (list N)) (ts : list (string * Model.Ast.statement)) (m : Model.Ast.meta)
         (l : list Model.Ast.statement) (body' : Model.Ast.statement),
    Forall Spec.ExpandSpec.wf_node (Spec.ExpandSpec.stmt_exprs (Model.Ast.Block m l)) ->
    Forall Spec.ExpandSpec.short_node (Spec.ExpandSpec.sub_stmts (Model.Ast.Block m l)) ->
    Model.PipelineMirrors.ast_init_ok (Model.Ast.Block m l) = true ->
    Model.Desugar.desugar_template (Model.Desugar.env_of ts) lib (Model.Ast.Block m l) = Model.Desugar.DOk body' ->
    Model.LiftFull.is_block body' = true /\ Model.LiftFull.ast_init_flat body' = true /\
    forall key : Model.Ir.meta -> nat, Proofs.LiftTotalFlat.desugared_shape (Model.LiftFull.skel key body').
Proof. exact Proofs.MirrorsShape.desugar_output_shape. Qed.
Print Assumptions C01_desugar_output_has_desugared_shape.

(* BRIDGE desugar -> lift (2).  What C18 proves of a body handed on
   (Spec.ExpandSpec.sugar_free_stmt: no tuple, no anonymous component among ALL expression
   nodes, no multi-substitution among all statements) is the sugar clause of definition_wf. *)
Theorem C01_sugar_free_spec_is_wf_clause : forall s : Model.Ast.statement,
  Spec.ExpandSpec.sugar_free_stmt s -> Model.LiftFull.stmt_sugar_free s = true.
Proof. exact Proofs.MirrorsShape.stmt_sugar_free_of_spec. Qed.
Print Assumptions C01_sugar_free_spec_is_wf_clause.

(* BRIDGE lift -> SSA.  Whatever graph the lifting mirror returns,
     - no variable occurrence carries a version (names are built by from_string and
       split('.') only): the first hypothesis of C01_into_ssa_never_panics;
     - an assignment tagged Local assigns a declared name (the tag is what propagate_types
       found in the declarations): the hypothesis [written_declared] of
       C01_into_ssa_fuel_suffices;
     - the predecessor / successor lists DominatorTree::new reads are those of the graph
       Model.Lift builds from the skeleton of the body (C13_liftfull_skeleton), so
       C01_lifted_graph_is_rooted and C01_lifted_children_order_facts speak about it.
   Until the second audit these were hypotheses (`lifted_ok`) about three parameters. *)
Theorem C01_lifted_graph_feeds_ssa : forall kind params pfile ploc body r,
  Model.LiftFull.try_lift_impl kind params pfile ploc body = Ok r ->
  let c := Model.LiftFull.erase_cfg (Model.LiftFull.l_cfg r) in
  Proofs.SsaNoPanic.unversioned c /\ Proofs.SsaFuel.written_declared c = true /\
  forall key : Model.Ir.meta -> nat,
    let g := map (Model.LiftFull.skel_block key) (Model.LiftFull.xc_blocks (Model.LiftFull.l_cfg r)) in
    Model.Lift.lift (Model.LiftFull.skel key body) = Ok g /\
    Model.PipelineMirrors.dom_of_ir c = Proofs.MirrorsDom.to_dom g /\
    List.length (Model.Ir.c_blocks c) = List.length g.
Proof. exact Proofs.LiftFullIr.lifted_feeds_ssa. Qed.
Print Assumptions C01_lifted_graph_feeds_ssa.

(* BRIDGE lift -> propagation.  The lifted graph carries no value claim, and its literals
   are non-negative when those of the body are ([stmt_lits_ok], decidable; the renaming pass
   keeps literals): with C01_into_ssa_keeps_clean, the first hypothesis of
   C20_propagate_completes. *)
Theorem C01_lifted_graph_is_clean : forall kind params pfile ploc body c,
  Model.PipelineMirrors.stmt_lits_ok body = true ->
  Model.LiftFull.lift_to_ir kind params pfile ploc body = Ok c -> Model.Clean.clean_cfg c = true.
Proof. exact Proofs.LiftFullIr.lifted_clean. Qed.
Print Assumptions C01_lifted_graph_is_clean.

(* BRIDGE lift -> dominator tree.  The predecessor / successor lists of a lifted graph
   form a rooted graph (C12_entry_no_pred, C12_preds_succs_mirror, C12_all_reachable), so
   DominatorTree::new returns (C15_no_panic) ... *)
Theorem C01_lifted_graph_is_rooted : forall (body : Model.Lift.sk) (g : list Model.Lift.block),
  Model.Lift.lift body = Ok g -> Spec.DomSpec.rooted (Proofs.MirrorsDom.to_dom g).
Proof. exact Proofs.MirrorsDom.lifted_rooted. Qed.
Print Assumptions C01_lifted_graph_is_rooted.

(* BRIDGE dominator tree -> SSA.  ... and the children sets of the tree, enumerated in
   any order, satisfy the three order facts that C01_into_ssa_never_panics and
   C01_into_ssa_fuel_suffices ask for: this is the translation from C15's bit-mask
   statements (the invariant of idom_loop, C15_idom_unique) and C12_dom_implies_le into
   the list form, which used to be prose. *)
Theorem C01_lifted_children_order_facts :
  forall (body : Model.Lift.sk) (g : list Model.Lift.block),
    Model.Lift.lift body = Ok g ->
    forall ord : nat -> list nat -> list nat, Spec.DomSpec.order_ok ord ->
    forall t : Model.Dom.dom_tree,
      Model.Dom.dominator_tree (Model.Dom.dom_fuel (Proofs.MirrorsDom.to_dom g)) ord (Proofs.MirrorsDom.to_dom g) = Ok t ->
      forall horder : list nat -> list nat, (forall l, Permutation.Permutation (horder l) l) ->
      let children := Model.PipelineMirrors.sets_of horder (Model.Dom.dt_children t) in
      (forall j k, In k (Proofs.SsaNoPanic.kids children j) -> (j < k < List.length g)%nat) /\
      (forall j, NoDup (Proofs.SsaNoPanic.kids children j)) /\
      (forall j j' k, In k (Proofs.SsaNoPanic.kids children j) -> In k (Proofs.SsaNoPanic.kids children j') -> j = j').
Proof. exact Proofs.MirrorsDom.lifted_children_facts. Qed.
Print Assumptions C01_lifted_children_order_facts.

(* BRIDGE SSA -> propagation (2): ONE DEFINING ASSIGNMENT PER LOCAL in what into_ssa returns --
   Justify.ldefs_unique, the second hypothesis of C20_propagate_completes.  Until the second
   audit this was assumed of the mirror's own output (`ssa_output_ok`).  Derived from C14's
   construction theorems: C14_construction_unique_defs (a versioned name is assigned once), the
   fact T4 of Proofs.SsaConstruction (a target of the output is versioned exactly when it is a
   declared local, when the tree walk reaches every block) and an invariant proved here
   (Proofs.SsaLocalDefs: an assignment TAGGED Local assigns a declared local -- kept by phi
   insertion, renaming and the re-issue of declarations; the tag is what ldefs_unique goes by,
   the declaration key is what the construction versions by).  For every frontier and children
   table: *)
Theorem C01_into_ssa_unique_local_definitions :
  forall (frontier children : list (list N)) (c c' : Model.Ir.cfg),
    Proofs.SsaNoPanic.unversioned c ->
    Proofs.SsaLocalDefs.tags_ok (Model.Ir.c_decls c) (Model.Ir.c_blocks c) ->
    Proofs.SsaConstruction.children_cover children (List.length (Model.Ir.c_blocks c)) ->
    Model.Ssa.into_ssa frontier children c = Model.Ssa.SOk c' ->
    Model.Justify.ldefs_unique (Model.Justify.all_stmts (Model.Ir.c_blocks c')) = true.
Proof. exact Proofs.SsaLocalDefs.into_ssa_ldefs_unique. Qed.
Print Assumptions C01_into_ssa_unique_local_definitions.

(* ... its hypothesis about the tags holds of every graph the lifting mirror returns (the tag
   of a lifted substitution is what propagate_types found in the declarations for the name) ... *)
Theorem C01_lifted_graph_tags_agree_with_declarations : forall kind params pfile ploc body c,
  Model.LiftFull.lift_to_ir kind params pfile ploc body = Ok c ->
  Proofs.SsaLocalDefs.tags_ok (Model.Ir.c_decls c) (Model.Ir.c_blocks c).
Proof. exact Proofs.LiftFullIr.lifted_tags_ok. Qed.
Print Assumptions C01_lifted_graph_tags_agree_with_declarations.

(* ... and the tree walk over the children table the dominator-tree mirror computes reaches
   every block (Proofs.SsaDomBridge.c15_children_tree, from C15), so in the chain the former
   hypothesis is a theorem: for EVERY definition and body, whatever lifting makes of it *)
Theorem C01_chain_ssa_output_unique_local_defs :
  forall (ord : nat -> list nat -> list nat) (horder : list nat -> list nat),
    Spec.DomSpec.order_ok ord -> (forall l : list nat, Permutation.Permutation (horder l) l) ->
    forall (d : Model.PipelineMirrors.definition) (body : Model.Ast.statement),
      Model.PipelineMirrors.ssa_output_ok ord horder d body = true.
Proof. exact Proofs.PipelineMirrorsProofs.lifted_ssa_output_ok. Qed.
Print Assumptions C01_chain_ssa_output_unique_local_defs.

(* THE COMPOSITION.  For every file system in which a canonical non-directory path has a
   file name, every command line, every hash order, every prime and every pair of pass
   budgets: if the program the parser returns meets [program_ok], then the chain ends with
   a list of per-definition outcomes each of which is a graph handed to the analysis
   passes (DROk) or an error report (DRReport) -- never DRPanic, never DRFuel -- or with
   an error of the file stage; it does not end with Panic, and the only way to end with
   OutOfFuel is the fuel of the include loop (excluded by C19_include_terminates under
   its own hypotheses).
   [parse] -- the LALRPOP parser -- is the one stage that is a parameter: a panic inside the
   parser cannot be expressed here (its actions: C01_decnumber_action_total .. above; the
   automaton is observed by the engine).  Every later stage is a mirror, with its panic sites.
   Proofs.PipelineMirrorsProofs.program_ok spells out what REMAINS A HYPOTHESIS, all of it
   decidable on the concrete program:
     per template  wf_template (C18: metas belong to a file of the library, log strings
                   <= 230 bytes, named inputs one per argument, the body is a block);
                   ast_init_ok (initialisation blocks hold declarations and
                   (multi-)substitutions);
     per function  metas known, the body is a block, ast_init_ok;
     per body handed to lifting, PipelineMirrors.body_ok (extracted; evaluated by ./check C01
     on every definition the real parser + desugarer produce for its inputs, coverage key
     `chain`):
       names_distinct  the declaration keys after the renaming pass are pairwise different
                       (what C10 proves of ITS mirror of the renaming pass; evaluated here);
       stmt_lits_ok    number literals are non-negative.
     (`ssa_output_ok` -- one defining assignment per local in the graph into_ssa returns, the
     second hypothesis of C20_propagate_completes -- was a third clause until the second audit;
     it is now proved: C01_chain_ssa_output_unique_local_defs.)
   Proved, not assumed: the desugarer does not crash (C18), its output is free of sugar and
   has the shape lifting accepts, renaming / lifting / IR lifting return a graph or one of
   the two error reports (C01_lift_to_ir_never_panics), that graph is unversioned, assigns
   declared locals only and is clean, the dominator tree is computed (C15) and its children
   lists are a tree with growing indices, into_ssa returns SOk or the `used before defined`
   error (no SPanic, no SFuel), what it returns carries no value claim and has one defining
   assignment per local (the two hypotheses of C20_propagate_completes), propagation completes
   at every budget (C20). *)
Theorem C01_pipeline_mirrors_never_panic :
  forall (ord : nat -> list nat -> list nat) (horder : list nat -> list nat) (p : Z) (kv kd : nat),
    Spec.DomSpec.order_ok ord ->
    (forall l : list nat, Permutation.Permutation (horder l) l) ->
    Znumtheory.prime p -> 2 < p -> Z.log2 p < 2 ^ 64 ->
    forall (path : Type) (EqDecision0 : stdpp.base.EqDecision path)
           (canon : path -> option path) (is_dir is_file : path -> bool)
           (read_dir : path -> option (list path)) (join : path -> path -> path)
           (parent : path -> path) (file_name : path -> option path)
           (ext_circom starts_dot has_sep : path -> bool)
           (content : path -> Model.Includes.file_content path)
           (parse : Model.Includes.parse_state -> Model.PipelineMirrors.program),
      (forall q c, is_dir q = false -> canon q = Some c -> file_name c <> None) ->
      forall (d23 : bool) (dfuel fuel : nat) (paths libs : list path),
        (forall st, Model.Includes.parse_files canon is_dir is_file read_dir join parent file_name ext_circom
                                               starts_dot has_sep content d23 dfuel fuel paths libs = Ok st ->
                    Proofs.PipelineMirrorsProofs.program_ok (parse st)) ->
        match Model.PipelineMirrors.run_pipeline_mirrors ord horder p kv kd canon is_dir is_file
                read_dir join parent file_name ext_circom starts_dot has_sep content parse d23 dfuel fuel paths libs with
        | Ok ds => Forall Proofs.PipelineMirrorsProofs.fine ds
        | Err _ => True
        | Panic _ => False
        | OutOfFuel => Model.Includes.parse_files canon is_dir is_file read_dir join parent file_name ext_circom
                                                  starts_dot has_sep content d23 dfuel fuel paths libs = OutOfFuel
        end.
Proof. exact @Proofs.PipelineMirrorsProofs.run_pipeline_mirrors_never_panics. Qed.
Print Assumptions C01_pipeline_mirrors_never_panic.

(* the per-definition core of the composition, in the form the driver evaluates it: a body
   that is a block, free of sugar, with flat initialisation blocks and [body_ok] ends DROk or
   DRReport -- for every hash order, prime and budget *)
Theorem C01_definition_chain_never_panics :
  forall (ord : nat -> list nat -> list nat) (horder : list nat -> list nat) (p : Z) (kv kd : nat),
    Spec.DomSpec.order_ok ord ->
    (forall l : list nat, Permutation.Permutation (horder l) l) ->
    Znumtheory.prime p -> 2 < p -> Z.log2 p < 2 ^ 64 ->
    forall (d : Model.PipelineMirrors.definition) (body : Model.Ast.statement),
      Model.LiftFull.is_block body = true -> Model.LiftFull.stmt_sugar_free body = true ->
      Model.LiftFull.ast_init_flat body = true ->
      Model.PipelineMirrors.body_ok d body = true ->
      Proofs.PipelineMirrorsProofs.fine (Model.PipelineMirrors.analyse_body ord horder p kv kd d body).
Proof. exact Proofs.PipelineMirrorsProofs.analyse_body_fine. Qed.
Print Assumptions C01_definition_chain_never_panics.

(* the hypotheses of the composition are satisfiable and the chain computes: the template
     template T() { var x = 0; while (x < 3) { x = x + 1; } }
   meets program_ok, the identity orders are orders, 3 is a prime, and the chain (desugarer,
   renaming + lifting + IR lifting, dominator tree, SSA construction, propagation) ends with
   DROk on an SSA graph that has a two-argument phi statement at the loop header *)
Example C01_pipeline_mirrors_example :
  Proofs.PipelineMirrorsProofs.program_ok Proofs.MirrorsExample.ex_program /\
  (Spec.DomSpec.order_ok Model.Dom.id_order /\ (forall l : list nat, Permutation.Permutation ((fun l => l) l) l)) /\
  Znumtheory.prime 3 /\
  match Proofs.MirrorsExample.ex_run with
  | Ok [d] => Proofs.MirrorsExample.is_drok d && Proofs.MirrorsExample.has_phi_in_block_1 d
  | _ => false
  end = true.
Proof.
  exact (conj Proofs.MirrorsExample.ex_program_ok
          (conj Proofs.MirrorsExample.ex_orders_ok (conj Znumtheory.prime_3 Proofs.MirrorsExample.ex_run_ok))).
Qed.

(* the hypotheses of C01_into_ssa_never_panics and C01_into_ssa_fuel_suffices are met by
   the pre-SSA graph of that template (what Model.LiftFull.lift_to_ir returns for the
   desugared body: three blocks, a loop) with the children and frontier lists that the
   dominator-tree mirror computes for it, and into_ssa returns a graph *)
Example C01_into_ssa_example :
  match Model.Dom.dominator_tree (Model.Dom.dom_fuel (Model.PipelineMirrors.dom_of_ir Proofs.MirrorsExample.ex_pre))
          Model.Dom.id_order (Model.PipelineMirrors.dom_of_ir Proofs.MirrorsExample.ex_pre) with
  | Ok t => Model.PipelineMirrors.sets_of (fun l => l) (Model.Dom.dt_children t) = Proofs.MirrorsExample.ex_children /\
            Model.PipelineMirrors.sets_of (fun l => l) (Model.Dom.dt_frontier t) = Proofs.MirrorsExample.ex_frontier
  | _ => False
  end /\
  Proofs.SsaNoPanic.unversioned Proofs.MirrorsExample.ex_pre /\
  Proofs.SsaFuel.written_declared Proofs.MirrorsExample.ex_pre = true /\
  (0 < List.length (Model.Ir.c_blocks Proofs.MirrorsExample.ex_pre))%nat /\
  (forall j k, In k (Proofs.SsaNoPanic.kids Proofs.MirrorsExample.ex_children j) ->
               (j < k)%nat /\ (k < List.length (Model.Ir.c_blocks Proofs.MirrorsExample.ex_pre))%nat) /\
  (forall j, NoDup (Proofs.SsaNoPanic.kids Proofs.MirrorsExample.ex_children j)) /\
  (forall j j' k, In k (Proofs.SsaNoPanic.kids Proofs.MirrorsExample.ex_children j) ->
                  In k (Proofs.SsaNoPanic.kids Proofs.MirrorsExample.ex_children j') -> j = j') /\
  exists c1, Model.Ssa.into_ssa Proofs.MirrorsExample.ex_frontier Proofs.MirrorsExample.ex_children
                                Proofs.MirrorsExample.ex_pre = Model.Ssa.SOk c1.
Proof. exact (conj Proofs.MirrorsExample.ex_tree_is_computed Proofs.MirrorsExample.ex_pre_hypotheses). Qed.

(* the hypothesis of C01_includes_never_panic is met by the file system of C19's example
   (a main file including one library file under two spellings, a directory library on
   the command line): every canonical path of the table has a file name -- decided by
   Proofs.MirrorsExample.canon_named_b -- and the run reads both files *)
Example C01_includes_example :
  (forall q c, Model.Includes.d_is_dir Proofs.IncludesProofs.d23_fs q = false ->
               Model.Includes.d_canon Proofs.IncludesProofs.d23_fs q = Some c -> Model.Includes.s_file_name c <> None) /\
  exists s, Model.Includes.run_project false Proofs.IncludesProofs.d23_fs Proofs.IncludesProofs.d23_argv
                                       Proofs.IncludesProofs.d23_libs = Ok s /\
            List.length (Model.Includes.ps_read s) = 2%nat.
Proof. exact Proofs.MirrorsExample.ex_fs_hypothesis. Qed.

(* Third audit: the former obligation C01_pipeline_total (the generic assembly over ABSTRACT stage functions:
   "if no stage panics or runs out of fuel and the output stage ends with 0 or 1, run_pipeline ends with 0 or 1")
   is NO LONGER AN OBLIGATION.  Every premise of it was an abstract function with an assumed totality; for the
   stages files / desugar / lift / ssa / propagate the premises are discharged, with the mirrors, in
   C01_pipeline_mirrors_never_panic above; for the parser automaton, the 13 analysis passes and the output stage
   nothing instantiates them (those stages are OBSERVED by the engine, and their syntactic panic sites are in the
   inventory).  The statement stays available as the lemma Proofs.PipelineProofs.pipeline_total; it is not counted
   as proved coverage of C01. *)

(* the hypotheses are satisfiable and the definitions compute: the repaired
   witnesses, and a pipeline instance in which one definition fails to lift *)
Example C01_witnesses :
  hexnumber_action [48; 120; 70; 102] = Ok 255 /\
  decnumber_action [48; 49; 50] = Ok 12 /\
  version_action [50] [49] [52] = Ok (2, 1, 4) /\
  hex_token d1_witness = false /\
  string_action [34; 195; 169; 34] = Ok [195; 169] /\
  (exists chunks, split_string (length d26_witness) d26_witness = Ok chunks /\ map (@length Z) chunks = [229; 22]%nat) /\
  run_pipeline unit Z Z Z Z Z Z (fun _ => Ok [1; 2]) (fun s => if s =? 1 then Ok s else Err (EOther 7))
    (fun asts => Ok (asts ++ [5], [])) (fun d => if d =? 5 then Err (EOther 9) else Ok d) (fun c => Ok c) (fun s => Ok s)
    (fun s => Ok [s]) (fun e => match e with EOther c => c | _ => 0 end)
    (fun rs => if (length rs =? 0)%nat then Ok 0 else Ok 1) tt = Ok 1.
Proof.
  repeat split; try (vm_compute; reflexivity).
  eexists. split; vm_compute; reflexivity.
Qed.

(* the hypothesis of C01_liftfull_never_panics is satisfiable, and it is needed: the same
   body with a tuple in it is not well-formed and lifting panics at the site of
   `panic!("failed to convert AST expression to IR")`;
   `function f(x) { var y = x; while (y) { y = 1; } return y; }` *)
Local Open Scope string_scope.
Local Open Scope N_scope.
Example C01_liftfull_example :
  let m (a b : N) := Model.Ast.Meta a b (Some 0%N) in
  let v n a b := Model.Ast.Variable_ (m a b) n [] in
  let body rhs := Model.Ast.Block (m 14 60)
    [Model.Ast.InitializationBlock (m 16 26) Model.Ast.VVar
       [Model.Ast.Declaration (m 16 26) Model.Ast.VVar "y" [] false;
        Model.Ast.Substitution (m 16 26) "y" [] Model.Ast.AssignVar (v "x" 24 25)];
     Model.Ast.While (m 27 48) (v "y" 34 35)
       (Model.Ast.Block (m 37 48) [Model.Ast.Substitution (m 39 45) "y" [] Model.Ast.AssignVar rhs]);
     Model.Ast.Return (m 49 58) (v "y" 56 57)] in
  let good := body (Model.Ast.Number (m 43 44) 1) in
  let bad := body (Model.Ast.Tuple (m 43 44) []) in
  Model.LiftFull.definition_wf ["x"] (Some 0%N) (11, 12)%N good = true /\
  is_ok (Model.LiftFull.try_lift_impl Model.Ir.KFunction ["x"] (Some 0%N) (11, 12)%N good) = true /\
  Model.LiftFull.definition_wf ["x"] (Some 0%N) (11, 12)%N bad = false /\
  Model.LiftFull.try_lift_impl Model.Ir.KFunction ["x"] (Some 0%N) (11, 12)%N bad
    = Panic Model.LiftFull.site_expr_not_liftable.
Proof. vm_compute. repeat split; reflexivity. Qed.
