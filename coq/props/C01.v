(* C01 — totality: no input makes the analyzer panic, abort or hang.
   Decided partially (DESIGN §4 C01): the panic-site inventory is regenerated
   from the current source and every site is accounted for; the literal actions
   and split_string are proved total for all tokens / all valid UTF-8 strings;
   totality of the pipeline is assembled from the per-stage facts, which are
   premises of [C01_pipeline_total] (discharged by the cited theorems of the
   other properties where they exist, observed otherwise).
   Property theorems only: each is closed by [exact] of a lemma, followed by
   Print Assumptions. *)
From Coq Require Import ZArith List Bool String.
Require Import Model.Base Model.Pipeline Proofs.PipelineProofs Proofs.PanicSiteProofs.
Require Import Gen.PanicSites Gen.PanicMap.
(* developments of other properties that C01 builds on, by qualified name only
   (std++ notations are not imported here) *)
Require Model.Lift Spec.CfgSpec Proofs.LiftTotalFlat Proofs.LiftEdges Model.Includes Proofs.IncludesNoPanic.
Require Model.Ir Model.Ssa Proofs.SsaNoPanic.
Import ListNotations.
Local Open Scope Z_scope.

(* every syntactic panic site of the anchored files (regenerated) has an entry in
   the validated map (regenerated): discharged by a theorem, syntactically
   guarded, outside the model, or observed only *)
Theorem C01_every_panic_site_discharged :
  forallb (fun s => existsb (fun e => String.eqb (fst e) (s_id s)) panic_map) sites = true.
Proof. exact every_panic_site_discharged. Qed.
Print Assumptions C01_every_panic_site_discharged.

Theorem C01_every_map_entry_justified : forallb justified panic_map = true.
Proof. exact every_map_entry_justified. Qed.
Print Assumptions C01_every_map_entry_justified.

Theorem C01_no_anchored_file_missing : anchored_files_missing = [].
Proof. exact no_anchored_file_missing. Qed.
Print Assumptions C01_no_anchored_file_missing.

(* DECNUMBER: on every token of r'[0-9]+' the action returns a number *)
Theorem C01_decnumber_action_total : forall tok, dec_token tok = true ->
  exists v, decnumber_action tok = Ok v /\ 0 <= v.
Proof. exact decnumber_action_total. Qed.
Print Assumptions C01_decnumber_action_total.

(* HEXNUMBER: on every token of r'0x[0-9A-Fa-f]+' the slice [2..] is in range
   and the action returns a number *)
Theorem C01_hexnumber_action_total : forall tok, hex_token tok = true ->
  exists v, hexnumber_action tok = Ok v /\ 0 <= v.
Proof. exact hexnumber_action_total. Qed.
Print Assumptions C01_hexnumber_action_total.

(* D1 (fixed by 4e93f91): the old terminal r'0x[0-9A-Fa-f]*' accepts `0x`, on
   which the action panics *)
Theorem C01_hexnumber_old_regex_refuted :
  hex_token_old d1_witness = true /\ hexnumber_action d1_witness = Panic site_parse_base16.
Proof. exact hexnumber_old_regex_refuted. Qed.
Print Assumptions C01_hexnumber_old_regex_refuted.

(* SMALL_DECNUMBER / Version since bdf3e60: never a panic, whatever the tokens *)
Theorem C01_version_action_never_panics : forall a b c s,
  version_action a b c <> Panic s /\ version_action a b c <> OutOfFuel.
Proof. exact version_action_never_panics. Qed.
Print Assumptions C01_version_action_never_panics.

(* D2: the old action panics on a 23-digit version number, the new one errs *)
Theorem C01_version_action_old_refuted :
  dec_token d2_witness = true /\ small_decnumber_action_old d2_witness = Panic site_parse_number /\
  small_decnumber_action d2_witness = Err (EOther 1).
Proof. exact small_decnumber_old_refuted. Qed.
Print Assumptions C01_version_action_old_refuted.

(* STRING: on every valid UTF-8 token of r#''[^']*''# the slice 1..len-1 is
   in range and on char boundaries *)
Theorem C01_string_action_total : forall tok, string_token tok = true -> utf8 tok ->
  exists s, string_action tok = Ok s.
Proof. exact string_action_total. Qed.
Print Assumptions C01_string_action_total.

(* split_string (since c447a1c), for every valid UTF-8 string: neither split_at
   nor the usize decrement panics, the loop ends within |s| rounds, the chunks
   concatenate to the string, and every chunk is a non-empty valid UTF-8 string
   of at most 230 bytes, i.e. no scalar is ever cut *)
Theorem C01_split_string_never_panics : forall s, utf8 s ->
  exists chunks, split_string (length s) s = Ok chunks /\ concat chunks = s /\
    Forall (fun c => utf8 c /\ c <> [] /\ (length c <= 230)%nat) chunks.
Proof. exact split_string_never_panics. Qed.
Print Assumptions C01_split_string_never_panics.

(* D26 (fixed by c447a1c): the old loop panics on 'x' followed by 125 two-byte scalars *)
Theorem C01_split_string_old_refuted :
  utf8 d26_witness /\ split_string_old (length d26_witness) d26_witness = Panic site_split_at.
Proof. exact split_string_old_refuted. Qed.
Print Assumptions C01_split_string_old_refuted.

(* lifting (control_flow_graph/lifting.rs, mirror Model.Lift of C12) never panics on
   the shape the DESUGARER hands on: the body is a block and every entry of an
   initialisation block is straight-line (a leaf, or a block / initialisation
   block of such) -- remove_tuples_from_statement turns `var (a, b) = (1, 2);`
   into a block of substitutions inside the initialisation block, which C12's
   parser_shaped (leaves only) does not admit. Both assert!s and every indexing
   of lifting.rs are Panic sites of the mirror. *)
Theorem C01_lift_never_panics_on_desugared_shape : forall body : Model.Lift.sk,
  Proofs.LiftTotalFlat.desugared_shape body -> exists g, Model.Lift.lift body = Ok g.
Proof. exact Proofs.LiftTotalFlat.lift_never_panics_desugared. Qed.
Print Assumptions C01_lift_never_panics_on_desugared_shape.

(* the class of C12_lift_never_panics is contained in it *)
Theorem C01_parser_shaped_is_desugared_shape : forall body : Model.Lift.sk,
  Spec.CfgSpec.parser_shaped body -> Proofs.LiftTotalFlat.desugared_shape body.
Proof. exact Proofs.LiftTotalFlat.parser_shaped_desugared_shape. Qed.
Print Assumptions C01_parser_shaped_is_desugared_shape.

(* neither `expect` of parser/src/include_logic.rs fires (mirror Model.Includes of
   C19, sites 1901/1902): for every file system in which a canonical path that is
   not a directory has a file name, every command line, library list and fuel,
   parse_files never returns Panic. (C19_include_terminates / C19_run_project_fuel_ok
   exclude OutOfFuel.) *)
Theorem C01_includes_never_panic :
  forall (path : Type) (EqDecision0 : stdpp.base.EqDecision path)
         (canon : path -> option path) (is_dir is_file : path -> bool)
         (read_dir : path -> option (list path)) (join : path -> path -> path)
         (parent : path -> path) (file_name : path -> option path)
         (ext_circom starts_dot has_sep : path -> bool)
         (content : path -> Model.Includes.file_content path),
    (forall p c, is_dir p = false -> canon p = Some c -> file_name c <> None) ->
    forall (d23 : bool) (dfuel fuel : nat) (paths libs : list path) (s : Z),
      Model.Includes.parse_files canon is_dir is_file read_dir join parent file_name ext_circom
                                 starts_dot has_sep content d23 dfuel fuel paths libs <> Panic s.
Proof. exact @Proofs.IncludesNoPanic.parse_files_no_panic. Qed.
Print Assumptions C01_includes_never_panic.

(* the SSA construction (mirror Model.Ssa of C14: insert_phi_statements,
   insert_ssa_variables_impl, visit_expression, Statement::insert_ssa_variables)
   never reaches an assert!/expect site, for every hash order of the dominance
   frontiers and children lists, on a graph
     - whose variables are still unversioned (IR lifting builds names with
       from_string / with_suffix only), and
     - whose dominator-tree children lists satisfy three order facts: a child is a
       block of the graph with a larger index than its parent (the parent strictly
       dominates it: C15_idom_exact, and dominance implies <=: C12_dom_implies_le),
       a children list has no duplicates, and a block is the child of at most one
       block (C15_dom_tree_children_invert_idom: children invert the idom function).
   The proof shows that the pre-order walk visits every block at most once
   (children_tree_of_order), that phi insertion and the updates of successor phis
   keep unvisited blocks unversioned, and that renaming an unversioned block never
   asserts.  SFuel (fuelled work list / recursion of the mirror) and SErrUndefined
   (the `used before defined` error report) are not excluded. *)
Theorem C01_into_ssa_never_panics :
  forall (frontier children : list (list N)) (c : Model.Ir.cfg),
    Proofs.SsaNoPanic.unversioned c -> (0 < length (Model.Ir.c_blocks c))%nat ->
    (forall j k, In k (Proofs.SsaNoPanic.kids children j) -> (j < k)%nat /\ (k < length (Model.Ir.c_blocks c))%nat) ->
    (forall j, NoDup (Proofs.SsaNoPanic.kids children j)) ->
    (forall j j' k, In k (Proofs.SsaNoPanic.kids children j) -> In k (Proofs.SsaNoPanic.kids children j') -> j = j') ->
    Model.Ssa.into_ssa frontier children c <> Model.Ssa.SPanic.
Proof. exact Proofs.SsaNoPanic.into_ssa_never_panics_tree. Qed.
Print Assumptions C01_into_ssa_never_panics.

(* `2 + edges - nodes` of definition_complexity.rs cannot underflow: a lifted graph
   has at least (number of blocks - 1) entries in its successor lists, because every
   block but the entry is reachable (C12_all_reachable) and so is the target of an edge *)
Theorem C01_complexity_does_not_underflow : forall (body : Model.Lift.sk) (g : list Model.Lift.block),
  Model.Lift.lift body = Ok g ->
  (length g <= 2 + list_sum (map (fun b => length (Model.Lift.b_succs b)) g))%nat.
Proof. exact Proofs.LiftEdges.complexity_does_not_underflow. Qed.
Print Assumptions C01_complexity_does_not_underflow.

(* the assembly: if no stage panics or runs out of fuel (an Err is allowed: it
   becomes a report and the run continues) and the output stage ends with exit
   status 0 or 1, the pipeline ends with exit status 0 or 1 for every command
   line. The premises are named after what discharges them for the mirrors:
     files      C01_includes_never_panic (no Panic, both `expect`s) +
                C19_include_terminates, C19_run_project_fuel_ok (no OutOfFuel)
     parse      C05_preprocess_total, the action theorems above (C01_decnumber_,
                hexnumber_, string_action_total, C01_version_action_never_panics);
                build_log_call -> C01_split_string_never_panics; the LALRPOP
                automaton and lexer are observed
     desugar    C18_desugar_never_panics: remove_syntactic_sugar as a whole returns
                DOk on parser output (wf_template: metas belong to a file of the
                library, log strings <= 230 bytes -- which is the chunk bound of
                C01_split_string_never_panics --, named inputs one per argument,
                bodies are blocks); C18_desugar_output_sugar_free +
                C18_functions_with_sugar_rejected keep the catch-all panic!s of IR
                lifting unreachable
     lift       C10_pass_never_panics (renaming; environment.rs asserts),
                C10_renaming_injective_on_declarations (Declarations::add_declaration),
                C01_lift_never_panics_on_desugared_shape (extends C12_lift_never_panics);
                that the desugared body has this shape follows from the grammar and
                the two rewriting arms of the desugarer and is observed (C12/C13
                correspondence on the real into_cfg)
     ssa        C15_no_panic, C15_dom_fuel_suffices (DominatorTree::new on a rooted
                graph; C12_all_reachable: every lifted graph is rooted);
                C01_into_ssa_never_panics (no assert!/expect of the construction);
                termination of the work list and of the tree walk (SFuel of the
                mirror) is observed; the output is validated by C14
     propagate  C16_field_never_panics, C16_egcd_total, C16_shift_bounded_work (field
                operations); C14_unique_defs + fix 79353f9 (add_variable's
                assert_eq!); C20_propagate_validated_at_every_budget covers every
                cut of the time-boxed loop but is conditional on the mirror
                returning Ok: absence of Panic in the loop is observed
     passes     C12_branch_only_last, C12_branch_targets_exist_and_are_succs,
                C12_preds_succs_mirror, C15_*_exact (the cfg.rs accessors the taint
                analysis uses), C09_taint_fuel_suffices, C11_*_reports_exact,
                C01_complexity_does_not_underflow, C04_label_start_le_end (label
                ranges); the other passes are observed
     output     C03_exit_zero_iff_nothing_displayed, C03_summary_counts_displayed,
                C04_label_construction_panics_only_on_unwrap *)
Theorem C01_pipeline_total :
  forall (Argv Source Ast Definition_ Cfg Ssa Report : Type)
         (stage_files : Argv -> outcome (list Source))
         (stage_parse : Source -> outcome Ast)
         (stage_desugar : list Ast -> outcome (list Definition_ * list Report))
         (stage_lift : Definition_ -> outcome Cfg)
         (stage_ssa : Cfg -> outcome Ssa)
         (stage_propagate : Ssa -> outcome Ssa)
         (stage_passes : Ssa -> outcome (list Report))
         (report_of_error : error -> Report)
         (stage_output : list Report -> outcome Z)
         (files_total : forall a, (forall s, stage_files a <> Panic s) /\ stage_files a <> OutOfFuel)
         (parse_total : forall a, (forall s, stage_parse a <> Panic s) /\ stage_parse a <> OutOfFuel)
         (desugar_total : forall a, (forall s, stage_desugar a <> Panic s) /\ stage_desugar a <> OutOfFuel)
         (lift_total : forall a, (forall s, stage_lift a <> Panic s) /\ stage_lift a <> OutOfFuel)
         (ssa_total : forall a, (forall s, stage_ssa a <> Panic s) /\ stage_ssa a <> OutOfFuel)
         (propagate_total : forall a, (forall s, stage_propagate a <> Panic s) /\ stage_propagate a <> OutOfFuel)
         (passes_total : forall a, (forall s, stage_passes a <> Panic s) /\ stage_passes a <> OutOfFuel)
         (output_exit_status : forall rs, stage_output rs = Ok 0 \/ stage_output rs = Ok 1),
  forall argv,
    run_pipeline Argv Source Ast Definition_ Cfg Ssa Report stage_files stage_parse stage_desugar
                 stage_lift stage_ssa stage_propagate stage_passes report_of_error stage_output argv = Ok 0 \/
    run_pipeline Argv Source Ast Definition_ Cfg Ssa Report stage_files stage_parse stage_desugar
                 stage_lift stage_ssa stage_propagate stage_passes report_of_error stage_output argv = Ok 1.
Proof. exact pipeline_total. Qed.
Print Assumptions C01_pipeline_total.

(* the hypotheses are satisfiable and the definitions compute: the repaired
   witnesses, and a pipeline instance in which one definition fails to lift *)
Example C01_witnesses :
  hexnumber_action [48; 120; 70; 102] = Ok 255 /\
  decnumber_action [48; 49; 50] = Ok 12 /\
  version_action [50] [49] [52] = Ok (2, 1, 4) /\
  hex_token d1_witness = false /\
  string_action [34; 195; 169; 34] = Ok [195; 169] /\
  (exists chunks, split_string (length d26_witness) d26_witness = Ok chunks /\ map (@length Z) chunks = [229; 22]%nat) /\
  run_pipeline unit Z Z Z Z Z Z (fun _ => Ok [1; 2]) (fun s => if s =? 1 then Ok s else Err (EOther 7))
    (fun asts => Ok (asts ++ [5], [])) (fun d => if d =? 5 then Err (EOther 9) else Ok d) (fun c => Ok c) (fun s => Ok s)
    (fun s => Ok [s]) (fun e => match e with EOther c => c | _ => 0 end)
    (fun rs => if (length rs =? 0)%nat then Ok 0 else Ok 1) tt = Ok 1.
Proof.
  repeat split; try (vm_compute; reflexivity).
  eexists. split; vm_compute; reflexivity.
Qed.
