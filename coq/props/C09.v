(* Property C09 — `value never read` / `no side effect` claims about variables are true.
   Only statements; the proofs are in Proofs.TaintProofs and Proofs.SideEffectProofs. *)
From Coq Require Import ZArith NArith List Bool Relations.
Require Import Model.Base Model.Ir Model.VarUse Model.Taint Model.SideEffect Spec.NiSpec
  Proofs.TaintProofs.
Import ListNotations.

(* Non-interference over an abstract labelled transition system (names N, values V, program
   points P): if the relation T contains every read -> written pair of the program and S every
   name whose value is observed (read by a branch or by an observable instruction, or written by
   an observable assignment), then for every name x from which no element of S is reachable in T,
   replacing the values assigned to x (at every assignment, by anything) and the initial value of
   x changes no event of any execution prefix. *)
Theorem C09_ni_generic :
  forall (N V P : Type) (N_eq_dec : forall a b : N, {a = b} + {a <> b})
         (T : N -> N -> Prop) (S : N -> Prop) (pr : prog N V P),
    wf N V P pr ->
    (forall r y, data_edge N V P pr r y -> T r y) ->
    (forall s, required_sink N V P pr s -> S s) ->
    forall x, ~ Rel N T S x ->
    forall pr', perturbed N V P x pr pr' ->
    forall s s', (forall y, y <> x -> s y = s' y) ->
    forall h pc n, run N V P N_eq_dec pr n (h, pc, s) = run N V P N_eq_dec pr' n (h, pc, s').
Proof. exact ni_generic. Qed.
Print Assumptions C09_ni_generic.

(* The mirror of multi_step_taint returns exactly the reflexive-transitive closure of the
   single-step taint relation ... *)
Theorem C09_taint_closure_exact :
  forall (m : list (vname * vname)) (x : vname) (r : list vname),
    multi_step_taint m x = Ok r ->
    forall y, In y r <-> clos_refl_trans vname (fun a b => In (a, b) m) x y.
Proof. exact taint_closure_exact. Qed.
Print Assumptions C09_taint_closure_exact.

(* ... and the mirror of multi_step_constraint the transitive closure of the constraint relation. *)
Theorem C09_constraint_closure_exact :
  forall (m : list (vname * vname)) (x : vname) (r : list vname),
    multi_step_constraint m x = Ok r ->
    forall y, In y r <-> clos_trans vname (fun a b => In (a, b) m) x y.
Proof. exact constraint_closure_exact. Qed.
Print Assumptions C09_constraint_closure_exact.

(* The `while` loops of both closures terminate within the fuel the model gives them. *)
Theorem C09_taint_fuel_suffices :
  forall (m : list (vname * vname)) (x : vname),
    (exists r, multi_step_taint m x = Ok r) /\ (exists r, multi_step_constraint m x = Ok r).
Proof. exact taint_fuel_suffices. Qed.
Print Assumptions C09_taint_fuel_suffices.
