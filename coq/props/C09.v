(* Property C09 — `value never read` / `no side effect` claims about variables are true.
   Only statements; the proofs are in Proofs.TaintProofs and Proofs.SideEffectProofs. *)
From Coq Require Import ZArith NArith List Bool Relations.
Require Import Model.Base Model.Ir Model.VarUse Model.Taint Model.SideEffect Spec.NiSpec
  Proofs.TaintProofs.
Import ListNotations.

(* Non-interference over an abstract labelled transition system (names N, values V, program
   points P): if the relation T contains every read -> written pair of the program and S every
   name whose value is observed (read by a branch or by an observable instruction, or written by
   an observable assignment), then for every name x from which no element of S is reachable in T,
   replacing the values assigned to x (at every assignment, by anything) and the initial value of
   x changes no event of any execution prefix. *)
Theorem C09_ni_generic :
  forall (N V P : Type) (N_eq_dec : forall a b : N, {a = b} + {a <> b})
         (T : N -> N -> Prop) (S : N -> Prop) (pr : prog N V P),
    wf N V P pr ->
    (forall r y, data_edge N V P pr r y -> T r y) ->
    (forall s, required_sink N V P pr s -> S s) ->
    forall x, ~ Rel N T S x ->
    forall pr', perturbed N V P x pr pr' ->
    forall s s', (forall y, y <> x -> s y = s' y) ->
    forall h pc n, run N V P N_eq_dec pr n (h, pc, s) = run N V P N_eq_dec pr' n (h, pc, s').
Proof. exact ni_generic. Qed.
Print Assumptions C09_ni_generic.

(* The mirror of multi_step_taint returns exactly the reflexive-transitive closure of the
   single-step taint relation ... *)
Theorem C09_taint_closure_exact :
  forall (m : list (vname * vname)) (x : vname) (r : list vname),
    multi_step_taint m x = Ok r ->
    forall y, In y r <-> clos_refl_trans vname (fun a b => In (a, b) m) x y.
Proof. exact taint_closure_exact. Qed.
Print Assumptions C09_taint_closure_exact.

(* ... and the mirror of multi_step_constraint the transitive closure of the constraint relation. *)
Theorem C09_constraint_closure_exact :
  forall (m : list (vname * vname)) (x : vname) (r : list vname),
    multi_step_constraint m x = Ok r ->
    forall y, In y r <-> clos_trans vname (fun a b => In (a, b) m) x y.
Proof. exact constraint_closure_exact. Qed.
Print Assumptions C09_constraint_closure_exact.

(* The `while` loops of both closures terminate within the fuel the model gives them. *)
Theorem C09_taint_fuel_suffices :
  forall (m : list (vname * vname)) (x : vname),
    (exists r, multi_step_taint m x = Ok r) /\ (exists r, multi_step_constraint m x = Ok r).
Proof. exact taint_fuel_suffices. Qed.
Print Assumptions C09_taint_fuel_suffices.

(* ---------------------------------------------------------------------------
   Instance: the mirror of the analysis over the SSA execution semantics of Spec.SsaEffects.
   --------------------------------------------------------------------------- *)
Require Import Spec.SsaEffects Proofs.SideEffectProofs.

(* Every read -> written pair of an executed assignment is a single taint step of the mirror
   of run_taint_analysis (whatever the branch regions [br] are). *)
Theorem C09_model_taint_has_data_edges :
  forall (V : Type) (sem_num : Z -> V) (sem_infix : infix_op -> V -> V -> V) (sem_prefix : prefix_op -> V -> V)
    (sem_switch : V -> V -> V -> V) (sem_call : ident -> list V -> V) (sem_array : list V -> V)
    (sem_access : V -> list (access V) -> V) (sem_update : V -> list (access V) -> V -> V)
    (sem_phi : list pcT -> list (vname * V) -> V) (sem_undef : V) (truthy : V -> bool)
    (g : cfg) (ment : stmt -> bool) (br : list (N * (list N * list N))) (r x : vname),
    data_edge vname V pcT
      (ssa_prog V sem_num sem_infix sem_prefix sem_switch sem_call sem_array sem_access sem_update sem_phi
                sem_undef truthy g ment) r x ->
    In (r, x) (t_edges (run_taint_analysis g br)).
Proof. exact model_taint_has_data_edges. Qed.
Print Assumptions C09_model_taint_has_data_edges.

(* Every name whose value is observed by an effect (branch decisions; dimensions, returns, asserts;
   constraints mentioning an input/output signal; values assigned to input/output signals) is in the
   sink set of the mirror of run_side_effect_analysis.  "Mentions" is relative to a dependence relation
   [dep] (Spec.CtlDep.mentions_by); all that is needed of it is that the set of names the mirror finds
   tainted by an input/output signal is closed under it.  dep = data dependence: C09_noninterference;
   dep = data + control dependence: C09_noninterference_with_implicit_flows. *)
Theorem C09_model_sinks_cover_required :
  forall (V : Type) (sem_num : Z -> V) (sem_infix : infix_op -> V -> V -> V) (sem_prefix : prefix_op -> V -> V)
    (sem_switch : V -> V -> V -> V) (sem_call : ident -> list V -> V) (sem_array : list V -> V)
    (sem_access : V -> list (access V) -> V) (sem_update : V -> list (access V) -> V -> V)
    (sem_phi : list pcT -> list (vname * V) -> V) (sem_undef : V) (truthy : V -> bool)
    (g : cfg) (ment : stmt -> bool) (br : list (N * (list N * list N))) (dep : vname -> vname -> Prop),
    (forall es, exported_sinks g (t_edges (run_taint_analysis g br)) = Ok es ->
                forall a b, In a es -> dep a b -> In b es) ->
    Spec.CtlDep.ment_sound_by g dep ment ->
    exported_targets_declared g = true ->
    forall snk : list vname,
    sinks g (t_edges (run_taint_analysis g br)) (run_constraint_analysis g) = Ok snk ->
    forall n : vname,
    required_sink vname V pcT
      (ssa_prog V sem_num sem_infix sem_prefix sem_switch sem_call sem_array sem_access sem_update sem_phi
                sem_undef truthy g ment) n ->
    In n snk.
Proof. exact model_sinks_cover_required. Qed.
Print Assumptions C09_model_sinks_cover_required.

(* CS0008: a `no side effect` claim of the mirror about a variable or a parameter is true: in every
   execution (all operator/call/array/phi meanings, all initial stores, all histories, all prefixes),
   replacing every value assigned to the flagged SSA name, and its initial value, changes no effect. *)
Theorem C09_noninterference :
  forall (V : Type) (sem_num : Z -> V) (sem_infix : infix_op -> V -> V -> V) (sem_prefix : prefix_op -> V -> V)
    (sem_switch : V -> V -> V -> V) (sem_call : ident -> list V -> V) (sem_array : list V -> V)
    (sem_access : V -> list (access V) -> V) (sem_update : V -> list (access V) -> V -> V)
    (sem_phi : list pcT -> list (vname * V) -> V) (sem_undef : V) (truthy : V -> bool)
    (g : cfg) (br : list (N * (list N * list N))) (ment : stmt -> bool) (res : result) (f : finding),
    ment_sound g ment ->
    exported_targets_declared g = true ->
    run_side_effect_analysis g br = Ok res ->
    In f (r_findings res) ->
    f_kind f = FVarNoSideEffect \/ f_kind f = FParamNoSideEffect ->
    forall pr',
      perturbed vname V pcT (f_var f)
        (ssa_prog V sem_num sem_infix sem_prefix sem_switch sem_call sem_array sem_access sem_update sem_phi
                  sem_undef truthy g ment) pr' ->
    forall s s' : vname -> V, (forall y, y <> f_var f -> s y = s' y) ->
    forall h pc n,
      run vname V pcT vname_eq_dec
        (ssa_prog V sem_num sem_infix sem_prefix sem_switch sem_call sem_array sem_access sem_update sem_phi
                  sem_undef truthy g ment) n (h, pc, s)
      = run vname V pcT vname_eq_dec pr' n (h, pc, s').
Proof. exact noninterference_of_claims. Qed.
Print Assumptions C09_noninterference.

(* CS0006 / CS0007: a `value never read` / `parameter never read` claim about a name that is not an
   input or output signal is true in the same sense. *)
Theorem C09_noninterference_never_read :
  forall (V : Type) (sem_num : Z -> V) (sem_infix : infix_op -> V -> V -> V) (sem_prefix : prefix_op -> V -> V)
    (sem_switch : V -> V -> V -> V) (sem_call : ident -> list V -> V) (sem_array : list V -> V)
    (sem_access : V -> list (access V) -> V) (sem_update : V -> list (access V) -> V -> V)
    (sem_phi : list pcT -> list (vname * V) -> V) (sem_undef : V) (truthy : V -> bool)
    (g : cfg) (br : list (N * (list N * list N))) (ment : stmt -> bool) (res : result) (f : finding),
    exported_targets_declared g = true ->
    csig_on_signals g = true ->
    run_side_effect_analysis g br = Ok res ->
    In f (r_findings res) ->
    f_kind f = FUnusedVar \/ f_kind f = FUnusedParam ->
    ~ In (f_var f) (exported_signals g) ->
    forall pr',
      perturbed vname V pcT (f_var f)
        (ssa_prog V sem_num sem_infix sem_prefix sem_switch sem_call sem_array sem_access sem_update sem_phi
                  sem_undef truthy g ment) pr' ->
    forall s s' : vname -> V, (forall y, y <> f_var f -> s y = s' y) ->
    forall h pc n,
      run vname V pcT vname_eq_dec
        (ssa_prog V sem_num sem_infix sem_prefix sem_switch sem_call sem_array sem_access sem_update sem_phi
                  sem_undef truthy g ment) n (h, pc, s)
      = run vname V pcT vname_eq_dec pr' n (h, pc, s').
Proof. exact noninterference_of_unused_claims. Qed.
Print Assumptions C09_noninterference_never_read.

(* ---------------------------------------------------------------------------
   Implicit flows and the branch regions (third audit).
   Spec.CtlDep defines, with paths only, when block y is control dependent on branch block b
   (y post-dominates a successor of b and does not strictly post-dominate b), the implicit flow
   [cdep r x] (r read by a non-constant condition at b, x written in a block control dependent on b) and
   information flow [idep] = data dependence \/ cdep.
   --------------------------------------------------------------------------- *)
Require Import Spec.CtlDep Proofs.CtlDepProofs.
Require Model.BranchRegion.

(* the decidable form evaluated by the model driver decides control dependence *)
Theorem C09_ctl_dependent_b_decides :
  forall (g : cfg) (b y : N), ctl_dependent_b g b y = true <-> ctl_dependent g b y.
Proof. exact ctl_dependent_b_spec. Qed.
Print Assumptions C09_ctl_dependent_b_decides.

(* ... and [ctl_closed_b g B] (evaluated on every dumped graph, on the mirror's and on the REAL set of names
   tainted by an input/output signal) holds exactly when B is closed under implicit flows: a branch region that
   misses a control-dependent block whose writes nothing else taints makes it false. *)
Theorem C09_ctl_closed_b_exact :
  forall (g : cfg) (B : list vname), ctl_closed_b g B = true <-> ctl_closed g B.
Proof. intros g B. split; [apply ctl_closed_b_sound | apply ctl_closed_b_complete]. Qed.
Print Assumptions C09_ctl_closed_b_exact.

(* CS0008 with implicit flows: every `no side effect` claim of the mirror is true when "a constraint
   mentions an input or output signal" means: it uses a name that an input/output signal reaches by data OR
   control dependence - provided the set of names the mirror finds tainted by an input/output signal is closed
   under control dependence.  This is the one place where the branch regions [br] matter: with regions
   computed too small the hypothesis fails (C09_region_too_small_is_visible). *)
Theorem C09_noninterference_with_implicit_flows :
  forall (V : Type) (sem_num : Z -> V) (sem_infix : infix_op -> V -> V -> V) (sem_prefix : prefix_op -> V -> V)
    (sem_switch : V -> V -> V -> V) (sem_call : ident -> list V -> V) (sem_array : list V -> V)
    (sem_access : V -> list (access V) -> V) (sem_update : V -> list (access V) -> V -> V)
    (sem_phi : list pcT -> list (vname * V) -> V) (sem_undef : V) (truthy : V -> bool)
    (g : cfg) (br : list (N * (list N * list N))) (ment : stmt -> bool) (res : result) (f : finding)
    (es : list vname),
    exported_sinks g (t_edges (run_taint_analysis g br)) = Ok es ->
    ctl_closed_b g es = true ->
    ment_sound_by g (idep g) ment ->
    exported_targets_declared g = true ->
    run_side_effect_analysis g br = Ok res ->
    In f (r_findings res) ->
    f_kind f = FVarNoSideEffect \/ f_kind f = FParamNoSideEffect ->
    forall pr',
      perturbed vname V pcT (f_var f)
        (ssa_prog V sem_num sem_infix sem_prefix sem_switch sem_call sem_array sem_access sem_update sem_phi
                  sem_undef truthy g ment) pr' ->
    forall s s' : vname -> V, (forall y, y <> f_var f -> s y = s' y) ->
    forall h pc n,
      run vname V pcT vname_eq_dec
        (ssa_prog V sem_num sem_infix sem_prefix sem_switch sem_call sem_array sem_access sem_update sem_phi
                  sem_undef truthy g ment) n (h, pc, s)
      = run vname V pcT vname_eq_dec pr' n (h, pc, s').
Proof. exact noninterference_with_implicit_flows. Qed.
Print Assumptions C09_noninterference_with_implicit_flows.

(* ---------------------------------------------------------------------------
   Location faithfulness: from a finding to the statement that defines the flagged SSA name.
   [cfg_stmts g] lists every statement of the graph in visiting order; [is_def_of x s] says that s is
   a non-phi assignment to x (Spec.DefSite).
   --------------------------------------------------------------------------- *)
Require Import Spec.DefSite Proofs.DefSiteProofs.
Require Model.SsaCheck.

(* No hypothesis on the graph: the location of a claim about a variable or parameter is the location
   of the LAST non-phi assignment to the flagged name in visiting order (`HashMap::insert` replaces);
   only a parameter that no statement assigns carries [meta0] (the parameter list, which the IR dump
   does not carry; the engine compares no location for it). *)
Theorem C09_location_is_last_definition :
  forall (g : cfg) (br : list (N * (list N * list N))) (res : result) (f : finding),
    run_side_effect_analysis g br = Ok res ->
    In f (r_findings res) ->
    is_variable_claim f = true ->
    (exists pre post op rhe sv t,
        cfg_stmts g = pre ++ SSubst (f_meta f) (f_var f) op rhe sv (Some t) :: post /\
        is_phi_expr rhe = false /\
        forall s', In s' post -> is_def_of (f_var f) s' = false)
    \/ (In (f_var f) (c_params g) /\ f_meta f = meta0 /\
        forall s', In s' (cfg_stmts g) -> is_def_of (f_var f) s' = false).
Proof. exact finding_location_last_definition. Qed.
Print Assumptions C09_location_is_last_definition.

(* On a graph accepted by the verified SSA validator (unique definitions: Proofs.SsaProofs.
   ssa_check_unique_defs = C14_unique_defs) the statement at the reported location is the ONLY
   statement of the graph, phi statements included, that assigns the flagged versioned name. *)
Theorem C09_location_is_unique_definition :
  forall (g : cfg) (idom : list (option N)) (br : list (N * (list N * list N))) (res : result) (f : finding),
    SsaCheck.ssa_check g idom = true ->
    run_side_effect_analysis g br = Ok res ->
    In f (r_findings res) ->
    is_variable_claim f = true ->
    vn_version (f_var f) <> None ->
    (exists pre post op rhe sv t,
        cfg_stmts g = pre ++ SSubst (f_meta f) (f_var f) op rhe sv (Some t) :: post /\
        is_phi_expr rhe = false /\
        forall s', In s' (pre ++ post) -> SsaCheck.stmt_def s' <> Some (f_var f))
    \/ (In (f_var f) (c_params g) /\ f_meta f = meta0 /\
        forall s', In s' (cfg_stmts g) -> is_def_of (f_var f) s' = false).
Proof. exact finding_location_unique_definition. Qed.
Print Assumptions C09_location_is_unique_definition.

(* The same from the one conjunct of the validator that is needed; [nodup_v (all_defs g)] is
   evaluated by the model driver on every dumped graph (field `ud` of its output). *)
Theorem C09_location_is_unique_definition_nodup :
  forall (g : cfg) (br : list (N * (list N * list N))) (res : result) (f : finding),
    SsaCheck.nodup_v (SsaCheck.all_defs g) = true ->
    run_side_effect_analysis g br = Ok res ->
    In f (r_findings res) ->
    is_variable_claim f = true ->
    vn_version (f_var f) <> None ->
    (exists pre post op rhe sv t,
        cfg_stmts g = pre ++ SSubst (f_meta f) (f_var f) op rhe sv (Some t) :: post /\
        is_phi_expr rhe = false /\
        forall s', In s' (pre ++ post) -> SsaCheck.stmt_def s' <> Some (f_var f))
    \/ (In (f_var f) (c_params g) /\ f_meta f = meta0 /\
        forall s', In s' (cfg_stmts g) -> is_def_of (f_var f) s' = false).
Proof. exact finding_location_unique_definition_nodup_b. Qed.
Print Assumptions C09_location_is_unique_definition_nodup.

(* The definitions loop makes at most one claim per name: the keys of the definitions map are distinct. *)
Theorem C09_one_definition_entry_per_name :
  forall (g : cfg) (br : list (N * (list N * list N))),
    NoDup (map d_name (t_defs (run_taint_analysis g br))).
Proof. exact definitions_keys_distinct. Qed.
Print Assumptions C09_one_definition_entry_per_name.

(* ---------------------------------------------------------------------------
   The hypotheses are satisfiable, and the repaired defect: `var x = in0 + 1; x === 5;`
   --------------------------------------------------------------------------- *)
Definition w_in0 : vname := {| vn_name := [105; 110; 48]%N; vn_suffix := None; vn_version := None |}.
Definition w_x0 : vname := {| vn_name := [120]%N; vn_suffix := None; vn_version := Some 0%N |}.
Definition w_m (a b : N) : meta := {| m_start := a; m_end := b; m_file := Some 0%N |}.
Definition w_cfg : cfg :=
  {| c_kind := KTemplate; c_params := [];
     c_decls := [(w_in0, TSigIn); (w_x0, TLocal)];
     c_blocks := [ {| b_index := 0; b_depth := 0;
                      b_stmts := [ SDecl (w_m 17 33) [w_in0] TSigIn [];
                                   SDecl (w_m 37 52) [w_x0] TLocal [];
                                   SSubst (w_m 37 52) w_x0 OpVar
                                     (EInfix IAdd (EVar w_in0 know0) (ENum 1 know0) know0) None (Some TLocal);
                                   SCeq (w_m 56 63) (EVar w_x0 know0) (ENum 5 know0) ];
                      b_preds := []; b_succs := [] |} ] |}.

Example C09_wf_satisfiable : ssa_wf_b w_cfg = true.
Proof. vm_compute. reflexivity. Qed.

(* the mirror of the code before commit 7b80e23 claimed that x has no side effect; the current one does not *)
Example C09_single_name_constraint_old_claimed :
  omap (fun r => map (fun f => (f_kind f, f_var f)) (filter is_variable_claim (r_findings r)))
       (run_side_effect_analysis_old w_cfg []) = Ok [(FVarNoSideEffect, w_x0)].
Proof. vm_compute. reflexivity. Qed.
Example C09_single_name_constraint_repaired :
  omap (fun r => filter is_variable_claim (r_findings r)) (run_side_effect_analysis w_cfg []) = Ok [].
Proof. vm_compute. reflexivity. Qed.

(* location faithfulness is not vacuous: `var x = in0 + 1;` (x never read) passes the SSA validator,
   and the mirror reports x.0 at the span of that statement *)
Definition w_cfg_dead : cfg :=
  {| c_kind := KTemplate; c_params := [];
     c_decls := [(w_in0, TSigIn); (w_x0, TLocal)];
     c_blocks := [ {| b_index := 0; b_depth := 0;
                      b_stmts := [ SDecl (w_m 17 33) [w_in0] TSigIn [];
                                   SDecl (w_m 37 52) [w_x0] TLocal [];
                                   SSubst (w_m 37 52) w_x0 OpVar
                                     (EInfix IAdd (EVar w_in0 know0) (ENum 1 know0) know0) None (Some TLocal) ];
                      b_preds := []; b_succs := [] |} ] |}.
Example C09_location_hypotheses_satisfiable :
  SsaCheck.ssa_check w_cfg_dead [None] = true /\
  SsaCheck.nodup_v (SsaCheck.all_defs w_cfg_dead) = true /\
  omap (fun r => map (fun f => (f_kind f, f_var f, f_meta f)) (filter is_variable_claim (r_findings r)))
       (run_side_effect_analysis w_cfg_dead []) = Ok [(FUnusedVar, w_x0, w_m 37 52)].
Proof. vm_compute. repeat split; reflexivity. Qed.

(* `var y = 0; if (in0 == 0) { y = 1; }` : block 0 branches on the input, block 1 (the true branch) writes y.1,
   block 2 is the join with y.2 = phi(y.0, y.1). *)
Definition w_y (k : N) : vname := {| vn_name := [121]%N; vn_suffix := None; vn_version := Some k |}.
Definition w_cfg_if : cfg :=
  {| c_kind := KTemplate; c_params := [];
     c_decls := [(w_in0, TSigIn); (w_y 0, TLocal); (w_y 1, TLocal); (w_y 2, TLocal)];
     c_blocks := [ {| b_index := 0; b_depth := 0;
                      b_stmts := [ SDecl (w_m 17 33) [w_in0] TSigIn [];
                                   SSubst (w_m 37 46) (w_y 0) OpVar (ENum 0 know0) None (Some TLocal);
                                   SIf (w_m 50 80) (EInfix IEq (EVar w_in0 know0) (ENum 0 know0) know0) 1 None ];
                      b_preds := []; b_succs := [1; 2]%N |};
                   {| b_index := 1; b_depth := 0;
                      b_stmts := [ SSubst (w_m 66 71) (w_y 1) OpVar (ENum 1 know0) None (Some TLocal) ];
                      b_preds := [0%N]; b_succs := [2%N] |};
                   {| b_index := 2; b_depth := 0;
                      b_stmts := [ SSubst (w_m 0 0) (w_y 2) OpVar (EPhi [w_y 0; w_y 1] know0) None (Some TLocal) ];
                      b_preds := [0; 1]%N; b_succs := [] |} ] |}.

(* the mirror of get_true_branch / get_false_branch computes the region {1} for the branch at block 0;
   block 1 is control dependent on block 0 and the join block 2 is not; with that region the hypothesis of
   C09_noninterference_with_implicit_flows holds (it is satisfiable) ... *)
Example C09_region_example :
  Model.BranchRegion.branches_of w_cfg_if = Ok [(0%N, ([1%N], []))] /\
  ctl_dependent_b w_cfg_if 0 1 = true /\ ctl_dependent_b w_cfg_if 0 2 = false /\
  omap (ctl_closed_b w_cfg_if) (exported_sinks w_cfg_if (t_edges (run_taint_analysis w_cfg_if [(0%N, ([1%N], []))]))) = Ok true.
Proof. vm_compute. repeat split; reflexivity. Qed.

(* ... and with a region computed too small (empty) it is false: the hypothesis is what a too small region breaks *)
Example C09_region_too_small_is_visible :
  omap (ctl_closed_b w_cfg_if) (exported_sinks w_cfg_if (t_edges (run_taint_analysis w_cfg_if [(0%N, ([], []))]))) = Ok false.
Proof. vm_compute. reflexivity. Qed.

(* ---------------------------------------------------------------------------
   The branch regions and the closure under control dependence (fourth proof round).
   Spec.CtlRegion: [region_covers g br] - every block control dependent on a block b with a non-constant branch,
   other than b itself, is listed in the region the table br gives for b; [self_closed g B] - the pairs (b, b):
   the names written in a branch block that is control dependent on itself (the phis of a loop header, which
   cfg.rs leaves out of the header's own region) are in B when a name read by its condition is.
   --------------------------------------------------------------------------- *)
Require Import Spec.CtlRegion Proofs.CtlRegionProofs Proofs.BranchRegionProofs.

(* ALL graphs with distinct block indices, ALL region tables: if the table covers control dependence then the set
   of names the mirror (run with that table) finds tainted by an input/output signal is closed under control
   dependence, up to the pairs (b, b).  Pure taint propagation: a taint step is recorded from every name read by
   the condition of b to every name written in a block of the region of b. *)
Theorem C09_regions_give_ctl_closed :
  forall (g : cfg) (br : list (N * (list N * list N))) (es : list vname),
    NoDup (map b_index (c_blocks g)) ->
    region_covers g br ->
    exported_sinks g (t_edges (run_taint_analysis g br)) = Ok es ->
    self_closed g es ->
    ctl_closed g es.
Proof. exact regions_give_ctl_closed. Qed.
Print Assumptions C09_regions_give_ctl_closed.

(* the three conditions are decidable (the boolean forms are what the model driver `ctlregion` evaluates on every
   dumped graph), and self_closed is a part of ctl_closed *)
Theorem C09_region_hypotheses_decidable :
  forall (g : cfg) (br : list (N * (list N * list N))) (B : list vname),
    (indices_distinct_b g = true <-> NoDup (map b_index (c_blocks g))) /\
    (region_covers_b g br = true <-> region_covers g br) /\
    (self_closed_b g B = true <-> self_closed g B) /\
    (ctl_closed g B -> self_closed g B).
Proof.
  intros g br B. split; [apply indices_distinct_b_spec|]. split; [apply region_covers_b_spec|].
  split; [apply self_closed_b_spec | apply ctl_closed_self_closed].
Qed.
Print Assumptions C09_region_hypotheses_decidable.

(* the fuel question: the tainted set exists for every relation (the closure loops stay within their fuel) *)
Theorem C09_tainted_set_exists :
  forall (g : cfg) (tm : list (vname * vname)), exists es, exported_sinks g tm = Ok es.
Proof. exact exported_sinks_total. Qed.
Print Assumptions C09_tainted_set_exists.

(* CS0008 with implicit flows, from hypotheses about the regions: the closure of the tainted set is no longer
   assumed but derived; what is evaluated per graph is the cover of the table and the pairs (b, b). *)
Theorem C09_noninterference_with_region_cover :
  forall (V : Type) (sem_num : Z -> V) (sem_infix : infix_op -> V -> V -> V) (sem_prefix : prefix_op -> V -> V)
    (sem_switch : V -> V -> V -> V) (sem_call : ident -> list V -> V) (sem_array : list V -> V)
    (sem_access : V -> list (access V) -> V) (sem_update : V -> list (access V) -> V -> V)
    (sem_phi : list pcT -> list (vname * V) -> V) (sem_undef : V) (truthy : V -> bool)
    (g : cfg) (br : list (N * (list N * list N))) (ment : stmt -> bool) (res : result) (f : finding)
    (es : list vname),
    indices_distinct_b g = true ->
    region_covers_b g br = true ->
    exported_sinks g (t_edges (run_taint_analysis g br)) = Ok es ->
    self_closed_b g es = true ->
    ment_sound_by g (idep g) ment ->
    exported_targets_declared g = true ->
    run_side_effect_analysis g br = Ok res ->
    In f (r_findings res) ->
    f_kind f = FVarNoSideEffect \/ f_kind f = FParamNoSideEffect ->
    forall pr',
      perturbed vname V pcT (f_var f)
        (ssa_prog V sem_num sem_infix sem_prefix sem_switch sem_call sem_array sem_access sem_update sem_phi
                  sem_undef truthy g ment) pr' ->
    forall s s' : vname -> V, (forall y, y <> f_var f -> s y = s' y) ->
    forall h pc n,
      run vname V pcT vname_eq_dec
        (ssa_prog V sem_num sem_infix sem_prefix sem_switch sem_call sem_array sem_access sem_update sem_phi
                  sem_undef truthy g ment) n (h, pc, s)
      = run vname V pcT vname_eq_dec pr' n (h, pc, s').
Proof. exact noninterference_with_region_cover. Qed.
Print Assumptions C09_noninterference_with_region_cover.

(* The mirror of get_successors / get_interval / get_true_branch / get_false_branch (Model.BranchRegion):
   its `while !update.is_subset(&result)` loops stay within the fuel of the model on EVERY block list ... *)
Theorem C09_region_loops_terminate :
  forall (bs : list block) (t : Dom.dom_tree) (x s e : N) (fi : option N),
    (exists r, BranchRegion.get_successors bs x = Ok r) /\
    (exists r, BranchRegion.get_interval bs s e = Ok r) /\
    (exists r, BranchRegion.true_branch bs t x = Ok r) /\
    (exists r, BranchRegion.false_branch bs t x fi = Ok r).
Proof.
  intros bs t x s e fi. split; [apply get_successors_total|]. split; [apply get_interval_total|].
  split; [apply true_branch_total | apply false_branch_total].
Qed.
Print Assumptions C09_region_loops_terminate.

(* ... and they return, with paths only: the blocks reachable from s that reach e along the predecessor lists,
   e removed (get_interval); over the blocks of the dominance frontier of the start block, or everything
   reachable when that frontier is empty (get_true_branch / get_false_branch from their start block on). *)
Theorem C09_get_interval_exact :
  forall (bs : list block) (s e : N) (r : list N),
    BranchRegion.get_interval bs s e = Ok r ->
    forall y, In y r <-> clos_refl_trans N (sedge bs) s y /\ clos_refl_trans N (pedge bs) e y /\ y <> e.
Proof. exact get_interval_exact. Qed.
Print Assumptions C09_get_interval_exact.

Theorem C09_branch_from_exact :
  forall (bs : list block) (t : Dom.dom_tree) (start : N) (r : list N),
    BranchRegion.branch_from bs t start = Ok r ->
    forall y, In y r <->
      (BranchRegion.frontier_of t start = [] /\ clos_refl_trans N (sedge bs) start y) \/
      (exists e, In e (BranchRegion.frontier_of t start) /\
                 clos_refl_trans N (sedge bs) start y /\ clos_refl_trans N (pedge bs) e y /\ y <> e).
Proof. exact branch_from_exact. Qed.
Print Assumptions C09_branch_from_exact.

(* the table of the mirror: for a block that ends in a branch, the union of the two sides *)
Theorem C09_branches_of_entry :
  forall (g : cfg) (br : list (N * (list N * list N))),
    BranchRegion.branches_of g = Ok br ->
    exists t, Dom.dominator_tree (Dom.dom_fuel (BranchRegion.dom_graph (c_blocks g))) Dom.id_order
                                 (BranchRegion.dom_graph (c_blocks g)) = Ok t /\
    forall b ti fi, In b (c_blocks g) -> BranchRegion.last_if b = Some (ti, fi) ->
      exists tb fb, BranchRegion.true_branch (c_blocks g) t ti = Ok tb /\
                    BranchRegion.false_branch (c_blocks g) t ti fi = Ok fb /\
                    forall y, In y (branch_blocks br (b_index b)) <-> In y tb \/ In y fb.
Proof. exact branches_of_entry. Qed.
Print Assumptions C09_branches_of_entry.

(* On an IR graph with the predecessor and successor lists of a skeleton graph that Model.Lift.lift returns
   (Proofs.CtlChain.chain_keeps_skeleton_edges: the output of lifting -> SSA -> propagation is one), in which
   every listed index is a block, the table exists - no panic site, no fuel exhausted - and the frontier lists
   the mirror reads are the path-based dominance frontiers (C15). *)
Require Model.Lift Model.DegGraph Spec.DomSpec Proofs.MirrorsDom Proofs.CtlRegionLifted.
Theorem C09_lifted_branches_total :
  forall (body : Lift.sk) (sg : list Lift.block) (g : cfg),
    Lift.lift body = Ok sg ->
    DegGraph.dom_graph_of g = MirrorsDom.to_dom sg ->
    BranchRegion.graph_closed (c_blocks g) = true ->
    exists br, BranchRegion.branches_of g = Ok br.
Proof. exact CtlRegionLifted.lifted_branches_total. Qed.
Print Assumptions C09_lifted_branches_total.

Theorem C09_lifted_frontier_exact :
  forall (body : Lift.sk) (sg : list Lift.block) (g : cfg) (t : Dom.dom_tree) (i j : N),
    Lift.lift body = Ok sg ->
    DegGraph.dom_graph_of g = MirrorsDom.to_dom sg ->
    Dom.dominator_tree (Dom.dom_fuel (BranchRegion.dom_graph (c_blocks g))) Dom.id_order
                       (BranchRegion.dom_graph (c_blocks g)) = Ok t ->
    N.to_nat i < length sg ->
    (In j (BranchRegion.frontier_of t i) <->
     exists j', j = N.of_nat j' /\ DomSpec.df_spec (MirrorsDom.to_dom sg) (N.to_nat i) j').
Proof. intros body sg g t i j Hl Hsame. exact (CtlRegionLifted.lifted_frontier_exact body sg g Hl Hsame t i j). Qed.
Print Assumptions C09_lifted_frontier_exact.

(* ---- the hypotheses are satisfiable; a region computed too small is visible in the cover itself ---- *)
Example C09_region_cover_example :
  indices_distinct_b w_cfg_if = true /\
  region_covers_b w_cfg_if [(0%N, ([1%N], []))] = true /\
  omap (self_closed_b w_cfg_if) (exported_sinks w_cfg_if (t_edges (run_taint_analysis w_cfg_if [(0%N, ([1%N], []))]))) = Ok true /\
  region_covers_b w_cfg_if [(0%N, ([], []))] = false.
Proof. vm_compute. repeat split; reflexivity. Qed.

(* `var k = 0; while (k < in0) { k = k + 1; }` as the LAST statement of a template: block 1 is the loop header
   (k.1 = phi(k.0, k.2), the condition has no false target: execution can end there), block 2 the body.
   No block is without successor.  The header is control dependent on itself and is not in its own region {2};
   its phi is tainted through k.2, written in the region: self_closed holds and is not vacuous. *)
Definition w_k (n : N) : vname := {| vn_name := [107]%N; vn_suffix := None; vn_version := Some n |}.
Definition w_cfg_loop : cfg :=
  {| c_kind := KTemplate; c_params := [];
     c_decls := [(w_in0, TSigIn); (w_k 0, TLocal); (w_k 1, TLocal); (w_k 2, TLocal)];
     c_blocks := [ {| b_index := 0; b_depth := 0;
                      b_stmts := [ SDecl (w_m 17 33) [w_in0] TSigIn [];
                                   SSubst (w_m 37 46) (w_k 0) OpVar (ENum 0 know0) None (Some TLocal) ];
                      b_preds := []; b_succs := [1%N] |};
                   {| b_index := 1; b_depth := 0;
                      b_stmts := [ SSubst (w_m 0 0) (w_k 1) OpVar (EPhi [w_k 0; w_k 2] know0) None (Some TLocal);
                                   SIf (w_m 50 90) (EInfix ILt (EVar (w_k 1) know0) (EVar w_in0 know0) know0) 2 None ];
                      b_preds := [0; 2]%N; b_succs := [2%N] |};
                   {| b_index := 2; b_depth := 1;
                      b_stmts := [ SSubst (w_m 70 80) (w_k 2) OpVar
                                     (EInfix IAdd (EVar (w_k 1) know0) (ENum 1 know0) know0) None (Some TLocal) ];
                      b_preds := [1%N]; b_succs := [1%N] |} ] |}.

Example C09_trailing_loop_example :
  Model.BranchRegion.branches_of w_cfg_loop = Ok [(1%N, ([2%N], []))] /\
  is_exit_b w_cfg_loop 1 = true /\ is_exit_b w_cfg_loop 0 = false /\ is_exit_b w_cfg_loop 2 = false /\
  ctl_dependent_b w_cfg_loop 1 1 = true /\ ctl_dependent_b w_cfg_loop 1 2 = true /\ ctl_dependent_b w_cfg_loop 0 0 = false /\
  indices_distinct_b w_cfg_loop = true /\ all_reach_exit_b w_cfg_loop = true /\
  region_covers_b w_cfg_loop [(1%N, ([2%N], []))] = true /\
  omap (fun es => (vmem (w_k 1) es, self_closed_b w_cfg_loop es, ctl_closed_b w_cfg_loop es))
       (exported_sinks w_cfg_loop (t_edges (run_taint_analysis w_cfg_loop [(1%N, ([2%N], []))]))) = Ok (true, true, true) /\
  (* without the data edge k.2 -> k.1 the pair (1, 1) would fail: the empty set of tainted names plus in0, k.2 *)
  self_closed_b w_cfg_loop [w_in0; w_k 2] = false.
Proof. vm_compute. repeat split; reflexivity. Qed.

(* ---------------------------------------------------------------------------
   Fourth audit: "this condition is constant" is not taken from the implementation on trust.
   The taint pass, cdep, region_covers and ctl_closed skip a branch whose condition node carries a value claim
   ([expr_val c = Some k]) - in the dump that is the implementation's own verdict.  On a graph accepted by the
   verified validator of value claims (Model.Justify.vjust_cfg; evaluated on every dumped graph, field `vj` of the
   model driver ctlregion) such a condition takes the claimed value in every reachable state of the value semantics
   (Spec.ValueSem), so the branch decision cannot carry information.  (Instance of C06_validated_graph_claims_true.)
   --------------------------------------------------------------------------- *)
Require Proofs.CondConstProofs.
Theorem C09_skipped_conditions_are_constant :
  forall (p : Z) (c : cfg) (blk : block) (m : meta) (e : expr) (t : N) (f : option N) (k : vred)
         (s0 s : Spec.ValueSem.store) (v : Z),
    Znumtheory.prime p -> (2 < p)%Z -> (Z.log2 p < 2 ^ 64)%Z ->
    Model.Justify.vjust_cfg p c = true ->
    In blk (c_blocks c) -> In (SIf m e t f) (b_stmts blk) -> expr_val e = Some k ->
    Spec.ValueSem.init_ok (Model.Justify.all_stmts (c_blocks c)) p s0 ->
    Spec.ValueSem.reachable (Model.Justify.all_stmts (c_blocks c)) p s0 s ->
    Spec.ValueSem.evalR p s e v -> Spec.ValueSem.claim_ok k v.
Proof. exact Proofs.CondConstProofs.skipped_conditions_are_constant. Qed.
Print Assumptions C09_skipped_conditions_are_constant.
