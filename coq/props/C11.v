(* C11 — curve-dependent checks follow the documented table and thresholds
   exactly.  Property theorems only: each is closed by [exact] of a lemma of
   Proofs.CurvesProofs and followed by Print Assumptions.  The model
   (Model.Curves) is written over tables regenerated from the current tree on
   every run (Gen.CurveTables: the two const arrays, the curve dispatch, the
   guard comparisons and offsets, the template literals, the arms of
   Curve::from_str, all parsed from the Rust sources; Gen.DocTable: the table
   of doc/analysis_passes.md and the CLI help; Gen.Primes and Gen.CurveNames:
   obtained by executing UsefulConstants::new and Curve::from_str), so every
   theorem below is re-checked against the current code and documentation. *)
From Coq Require Import ZArith List Bool String Ascii NArith.
Require Import Model.Base Model.Curves Spec.CurvesSpec Proofs.CurvesProofs.
Require Import Gen.CurveTables Gen.DocTable Gen.Primes Gen.CurveNames.
Import ListNotations.
Local Open Scope Z_scope.

(* no default of the model's table look-ups is ever used *)
Theorem C11_tables_total : forall c,
  stored_curve c = Some c /\
  (exists p s, constants c = Some (variant_name c, (p, s)) /\ 2 < p /\ 2 <= s) /\
  (exists d, assoc (variant_name c) bn254_dispatch = Some d /\
             match d with Some arr => assoc arr const_arrays <> None | None => True end) /\
  bn254_exact_match = true /\
  from_str_normaliser = "to_ascii_uppercase"%string /\
  Forall (fun e => Z.of_nat (length (snd (snd e))) = fst (snd e)) const_arrays.
Proof. exact tables_total. Qed.
Print Assumptions C11_tables_total.

(* Third / fourth audit: the former obligations C11_sources_recognised and
   C11_prime_literals_are_executed_primes compared outputs of the Python source
   reader (booleans; decimal literals) with each other and with executed values -
   checks of the reader, not statements about the code.  They are the lemmas
   Proofs.CurvesProofs.reader_matched_every_item and
   .prime_literals_are_executed_primes now, no obligations; an unmatched item or
   a literal that is not the executed prime stops the build of the proofs and is
   reported as a broken correspondence by the run. *)

(* for every curve and EVERY name: the code's membership test answers exactly
   what the documentation table (with Circomlib's spelling) marks *)
Theorem C11_bn254_table_exact : forall c name, flagged c name = doc_marks c name.
Proof. exact bn254_table_exact. Qed.
Print Assumptions C11_bn254_table_exact.

(* never under BN254 *)
Theorem C11_bn254_never_flagged_by_default : forall name,
  flagged Bn254 name = false /\ doc_marks Bn254 name = false.
Proof. exact bn254_never_flagged_by_default. Qed.
Print Assumptions C11_bn254_never_flagged_by_default.

(* the documentation table has its documented shape (26 distinct rows, all
   marked for Goldilocks, 13 for BLS12-381) *)
Theorem C11_doc_table_shape :
  length doc_table = 26%nat /\ length (doc_list Goldilocks) = 26%nat /\ length (doc_list Bls12_381) = 13%nat /\
  NoDup (doc_list Goldilocks).
Proof. exact doc_table_shape. Qed.
Print Assumptions C11_doc_table_shape.

(* the pass over a whole definition: a report is pushed for statement i exactly
   when it instantiates a component from a template the table marks *)
Theorem C11_bn254_reports_exact : forall c prog i,
  In i (bn254_reports c prog) <->
  exists k var acc cl, nth_error prog i = Some (SAssign k var acc (RCall cl)) /\
                       tk_exits k = false /\ doc_marks c (cname cl) = true.
Proof. exact bn254_reports_exact. Qed.
Print Assumptions C11_bn254_reports_exact.

(* the executed constants are the documented primes, and their sizes are the
   bit sizes the documentation states (254 / 255 / 64) *)
Theorem C11_primes_are_documented : forall c,
  prime c = doc_prime c /\ prime_size c = bit_size (doc_prime c) /\ doc_bits c = Some (prime_size c).
Proof. exact primes_are_documented. Qed.
Print Assumptions C11_primes_are_documented.

(* Num2Bits(n) / Bits2Num(n) under the default curve: safe iff n < 254, for
   every integer n (prime_size Bn254 = 254 is computed from the regenerated
   prime); third audit: no hypothesis on n is left *)
Theorem C11_num2bits_guard_exact : forall tname n,
  In tname ["Num2Bits"; "Bits2Num"]%string ->
  (num2bits_flagged Bn254 tname (VField n) = Some false <-> n < 254).
Proof. exact num2bits_guard_exact. Qed.
Print Assumptions C11_num2bits_guard_exact.

(* a size that is not a known field element is always flagged *)
Theorem C11_non_constant_size_flagged : forall tname a,
  In tname ["Num2Bits"; "Bits2Num"]%string -> (forall v, a <> VField v) ->
  num2bits_flagged Bn254 tname a = Some true.
Proof. exact non_constant_size_flagged. Qed.
Print Assumptions C11_non_constant_size_flagged.

(* the pass over a whole template under the default curve never panics and
   pushes, statement by statement, exactly one report for a component
   instantiated from Num2Bits / Bits2Num with a single argument that is not a
   known field element below 254 (matching is by exact template name) *)
Theorem C11_nonstrict_reports_exact : forall prog,
  nonstrict_reports Bn254 DTemplate prog =
  Ok (map (fun s =>
    match s with
    | SAssign k _ _ (RCall cl) =>
      if negb (tk_exits k)
         && ((String.eqb (cname cl) "Num2Bits" || String.eqb (cname cl) "Bits2Num") && Nat.eqb (length (cargs cl)) 1)
         && negb (match cargs cl with [VField v] => v <? 254 | _ => false end)
      then 1%nat else 0%nat
    | _ => 0%nat
    end) prog).
Proof. exact nonstrict_reports_exact. Qed.
Print Assumptions C11_nonstrict_reports_exact.

(* the pass reports nothing under the other curves, in functions and in
   custom templates *)
Theorem C11_nonstrict_only_default_curve : forall c d prog,
  (c <> Bn254 \/ d <> DTemplate) -> nonstrict_reports c d prog = Ok (map (fun _ => 0%nat) prog).
Proof. exact nonstrict_only_default_curve. Qed.
Print Assumptions C11_nonstrict_only_default_curve.

(* LessThan: Num2Bits(k) counts as a range check exactly when every k-bit value
   is non-negative in the documented field, for every curve and EVERY integer k
   (third audit: the hypothesis 0 <= k is gone - for a negative k both sides hold,
   2^k being 0 in Z; a value of the tool is a field element and never negative) *)
Theorem C11_lessthan_guard_exact : forall c k,
  (lessthan_range_checked c k = true <-> 2 ^ k - 1 <= doc_prime c / 2).
Proof. exact lessthan_guard_exact. Qed.
Print Assumptions C11_lessthan_guard_exact.

Theorem C11_lessthan_non_constant_not_checked : forall c size,
  (forall k, size <> VField k) -> lt_guard c size = false.
Proof. exact lessthan_non_constant_not_checked. Qed.
Print Assumptions C11_lessthan_non_constant_not_checked.

(* the pass over a whole definition never panics and reports exactly the
   LessThan inputs that no Num2Bits(k) with 2^k - 1 <= p/2 is also fed with *)
Theorem C11_lessthan_reports_exact : forall c prog,
  exists vs, lessthan_reports c prog = Ok vs /\
  forall v, In v vs <->
    (In (ILessThan v) (collected_inputs prog) /\
     forall k, In (INum2Bits v (VField k)) (collected_inputs prog) -> ~ (2 ^ k - 1 <= doc_prime c / 2)).
Proof. exact lessthan_reports_exact. Qed.
Print Assumptions C11_lessthan_reports_exact.

(* curve names: for EVERY string (a Coq string is the byte sequence of the Rust
   &str, bytes >= 128 included; no hypothesis on the string), accepted as curve
   c exactly when it equals the documented name of c up to the case of ASCII
   letters.  parse_curve models the normaliser the strict reader finds in
   Curve::from_str: `to_ascii_uppercase` on the current tree (third audit:
   repaired in /repo), and `to_uppercase` (Unicode) faithfully as well - under
   that one this theorem is false and its proof breaks: the Example
   C11_witnesses has three accepted spellings that are no case variants *)
Theorem C11_curve_names_case_insensitive : forall s c,
  parse_curve s = Accepted c <-> same_ignoring_case s (curve_doc_name c) = true.
Proof. exact curve_names_case_insensitive. Qed.
Print Assumptions C11_curve_names_case_insensitive.

(* ... and nothing else is accepted (in particular the model never answers
   Unmodelled) *)
Theorem C11_nothing_else_accepted : forall s,
  parse_curve s = Rejected <-> forall c, same_ignoring_case s (curve_doc_name c) = false.
Proof. exact nothing_else_accepted. Qed.
Print Assumptions C11_nothing_else_accepted.

(* no spelling with a byte outside ASCII is accepted *)
Theorem C11_non_ascii_rejected : forall s, ascii_only s = false -> parse_curve s = Rejected.
Proof. exact non_ascii_rejected. Qed.
Print Assumptions C11_non_ascii_rejected.

(* the two normalisers the model knows answer alike on every ASCII string: the
   repair db291d0 (`to_uppercase` -> `to_ascii_uppercase`) changed the answer for
   no ASCII spelling.  parse_curve_unicode is the model of the previous
   normaliser (UTF-8 decoding, executed upper-casing table); it is compared with
   the EXECUTED str::to_uppercase on every spelling of every run.  The hypothesis
   is evaluated on every spelling of the sweep (coverage.to_uppercase_model_compared). *)
Theorem C11_normalisers_agree_on_ascii : forall s, ascii_only s = true ->
  parse_curve_unicode s = parse_curve s.
Proof. exact normalisers_agree_on_ascii. Qed.
Print Assumptions C11_normalisers_agree_on_ascii.

(* the accept/reject table obtained by executing Curve::from_str on every case
   variant of the three names, on the ASCII near misses and on the non-ASCII
   near misses (dotless i, long s, Kelvin sign, fullwidth letters, combining
   marks, ligatures, ...) agrees with the model *)
Theorem C11_curve_name_table_agrees : forall s r, In (s, r) curve_name_table ->
  parse_curve s = decode_result r.
Proof. exact curve_name_table_agrees. Qed.
Print Assumptions C11_curve_name_table_agrees.

Theorem C11_curve_name_table_covers_case_variants : forall c,
  incl_b (case_variants (curve_doc_name c)) (map fst curve_name_table) = true.
Proof. exact curve_name_table_covers_case_variants. Qed.
Print Assumptions C11_curve_name_table_covers_case_variants.

(* the CLI help lists exactly the documented names; the default is BN254 *)
Theorem C11_cli_help_and_default :
  cli_help_names = map curve_doc_name all_curves /\ parse_curve cli_default_curve = Accepted Bn254.
Proof. exact cli_help_and_default. Qed.
Print Assumptions C11_cli_help_and_default.

(* non-vacuity: boundary instances on both sides of every threshold, a program
   with a reported and a range-checked LessThan input, accepted and rejected
   spellings *)
Example C11_witnesses :
  flagged Bls12_381 "Sign" = true /\ flagged Goldilocks "Bits2Point_Strict" = true /\
  flagged Goldilocks "Bits2Point_strict" = false /\ flagged Bls12_381 "BabyPbk" = false /\
  num2bits_flagged Bn254 "Num2Bits" (VField 253) = Some false /\
  num2bits_flagged Bn254 "Num2Bits" (VField 254) = Some true /\
  num2bits_flagged Bn254 "Bits2Num" VUnknown = Some true /\
  lessthan_range_checked Bn254 252 = true /\ lessthan_range_checked Bn254 253 = false /\
  lessthan_range_checked Bls12_381 253 = true /\ lessthan_range_checked Bls12_381 254 = false /\
  lessthan_range_checked Goldilocks 62 = true /\ lessthan_range_checked Goldilocks 63 = false /\
  lessthan_reports Goldilocks
    [SAssign TComponent "n" [] (RCall (mkCall "Num2Bits" [VField 63]));
     SConstrain "n" [AField "in"] "a";
     SAssign TComponent "m" [] (RCall (mkCall "Num2Bits" [VField 62]));
     SConstrain "m" [AField "in"] "b";
     SAssign TComponent "lt" [] (RCall (mkCall "LessThan" [VField 8]));
     SConstrain "lt" [AField "in"; AIndex "(n 0)"] "a";
     SConstrain "lt" [AField "in"; AIndex "(n 1)"] "b"] = Ok ["a"%string] /\
  parse_curve "bLs12_381" = Accepted Bls12_381 /\ parse_curve "BLS12-381" = Rejected /\
  ascii_only "goldılocks" = false /\
  (* the previous normaliser (str::to_uppercase) accepted spellings that are no case variants *)
  parse_curve_unicode "goldılocks" = Accepted Goldilocks /\ parse_curve "goldılocks" = Rejected /\
  parse_curve_unicode "blſ12_381" = Accepted Bls12_381 /\ parse_curve "blſ12_381" = Rejected.
Proof. vm_compute. repeat split; reflexivity. Qed.
