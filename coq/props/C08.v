(* C08 — every `<--` signal assignment is reported exactly once.
   Property theorems only: each is closed by [exact] of a lemma of
   Proofs.SignalAssignProofs, followed by Print Assumptions.
   Model: Model.SignalAssign (mirror of signal_assignments.rs), specification:
   Spec.SigAssignSpec (assign_stmts, constraint_stmts, stmt_mentions,
   finding_for, keys_distinct). *)
From Coq Require Import ZArith NArith List Bool.
Require Import Model.Base Model.Ir Model.SignalAssign Spec.SigAssignSpec Proofs.SignalAssignProofs.
Import ListNotations.

(* For every template cfg whose `<--` statements (and constraint statements)
   have pairwise distinct keys, the reports are in one-to-one, order-preserving
   correspondence with the `<--` statements; each report is the finding the
   property demands for its statement: anchored at the statement's meta,
   CS0013 without secondaries when the degree claim of the right-hand side is
   at most quadratic, otherwise CS0005 whose secondary labels are exactly the
   constraint statements mentioning the same (name, access). *)
Theorem C08_sigassign_bijection : forall g,
  c_kind g = KTemplate ->
  keys_distinct g ->
  constraint_keys_distinct g ->
  Forall2 (finding_for g) (assign_stmts g) (find_signal_assignments g).
Proof. exact sigassign_bijection. Qed.
Print Assumptions C08_sigassign_bijection.

(* exactly as many findings as `<--` statements *)
Theorem C08_sigassign_count : forall g,
  c_kind g = KTemplate -> keys_distinct g -> constraint_keys_distinct g ->
  length (find_signal_assignments g) = length (assign_stmts g).
Proof. exact sigassign_count. Qed.
Print Assumptions C08_sigassign_count.

(* functions and custom templates: nothing *)
Theorem C08_no_reports_for_function_or_custom : forall g,
  c_kind g <> KTemplate -> find_signal_assignments g = [].
Proof. exact no_reports_for_function_or_custom. Qed.
Print Assumptions C08_no_reports_for_function_or_custom.

(* no hypothesis: every report belongs to a `<--` statement of a template (never
   to a `<==`, `=`, `===` or any other statement), has that statement's anchor
   and the code its degree claim selects, and lists only constraint statements
   that mention the assigned signal *)
Theorem C08_only_assign_signal_reported : forall g r,
  In r (find_signal_assignments g) ->
  c_kind g = KTemplate /\
  exists m v rhe sv st,
    In (SSubst m v OpSig rhe sv st) (all_stmts g) /\
    r_primary r = label_of m /\
    (claimed_quadratic rhe -> r_code r = CS0013 /\ r_secondary r = []) /\
    (~ claimed_quadratic rhe -> r_code r = CS0005) /\
    (forall l, In l (r_secondary r) ->
       exists c, In c (constraint_stmts g) /\ stmt_mentions (c_decls g) c v (subst_access rhe)
                 /\ In l (label_of (stmt_meta c))).
Proof. exact only_assign_signal_reported. Qed.
Print Assumptions C08_only_assign_signal_reported.

(* the cached signals_read / components_read of an expression are exactly the
   occurrences of signal and component uses in it; an expression writes no
   component *)
Theorem C08_cached_uses_are_occurrences : forall ds e,
  (forall v acc, In (v, acc) (all_reads (expr_uses ds e)) <-> occurs ds e v acc)
  /\ u_compwritten (expr_uses ds e) = [].
Proof. exact expr_uses_spec. Qed.
Print Assumptions C08_cached_uses_are_occurrences.

(* the filter of SignalUse::get_constraints decides "the constraint statement
   mentions the signal".
   Fourth audit (/repo 4f017e8 + 96648cc): `stmt_mentions` reads "mentions" as same name
   and PREFIX-COMPATIBLE accesses (Spec.SigAssignSpec.same_use: equal, an element /
   sub-array of the assigned array, or an array containing the assigned signal); a
   constraint ASSIGNMENT `v[t] <== e` (Update node) mentions its target, what e and the
   index expressions of t mention - not `v` as a whole (update_mentions).  The old
   reading "same name and syntactically equal access" is withdrawn. *)
Theorem C08_constraint_filter_decides_mentions : forall ds v acc s,
  stmt_mentions_b ds v acc s = true <-> stmt_mentions ds s v acc.
Proof. exact stmt_mentions_b_spec. Qed.
Print Assumptions C08_constraint_filter_decides_mentions.

(* The hypotheses keys_distinct / constraint_keys_distinct / subkeys_distinct are EVALUATED by the
   model driver on every dumped cfg through their boolean forms keys_distinct_b,
   constraint_keys_distinct_b, subkeys_distinct_b.  That each boolean is true iff its hypothesis is
   glue about the model's own definitions (Proofs.SignalAssignProofs.keys_distinct_b_spec,
   constraint_keys_distinct_b_spec, subkeys_distinct_b_spec): lemmas, not obligations of the
   property (third audit; they used to be listed here as `*_observable` theorems). *)

(* The source-level form of the hypothesis.  [subkeys_distinct]: no two `<--`
   statements of the cfg agree in (location, base name of the assigned
   variable, component path) — exactly what a statement keeps of its source
   text; SSA versions, generated suffixes, index expressions and degree claims
   play no role.  It implies [keys_distinct]; the check compares these
   sub-keys, statement for statement, with the generator's own record of the
   `<--` it wrote (statements_match in lib/props/C08.py). *)
Theorem C08_subkeys_distinct_suffice : forall g, subkeys_distinct g -> keys_distinct g.
Proof. exact subkeys_distinct_suffice. Qed.
Print Assumptions C08_subkeys_distinct_suffice.

Theorem C08_sigassign_bijection_source_keys : forall g,
  c_kind g = KTemplate -> subkeys_distinct g -> constraint_keys_distinct g ->
  Forall2 (finding_for g) (assign_stmts g) (find_signal_assignments g).
Proof. exact sigassign_bijection_source_keys. Qed.
Print Assumptions C08_sigassign_bijection_source_keys.

(* DESIGN's `desugared_keys_distinct` (keys_distinct from distinct parser
   ranges alone) is FALSE: [kf_cfg] is the SSA cfg the real front end builds
   for `template D() { signal input x; signal (b, b) <-- (x % 2, x % 2); }`
   (known finding C08-decl-tuple-duplicate-name): two `<--` statements, equal
   keys, one finding.  Replayed on the real code on every run
   (corpus/C08/K-decl-tuple-dup-name.json). *)
Theorem C08_keys_distinct_fails_on_lifted_source :
  c_kind kf_cfg = KTemplate /\ ~ keys_distinct kf_cfg /\ ~ subkeys_distinct kf_cfg /\
  length (assign_stmts kf_cfg) = 2 /\
  find_signal_assignments kf_cfg =
    [ {| r_code := CS0005; r_primary := [(39, 71, 0)%N]; r_secondary := [] |} ].
Proof. exact keys_distinct_fails_on_lifted_source. Qed.
Print Assumptions C08_keys_distinct_fails_on_lifted_source.

(* keys_distinct cannot be dropped: two `<--` statements with the same
   (meta, signal, access, degree) share one finding *)
Theorem C08_keys_distinct_needed :
  exists g, c_kind g = KTemplate /\ ~ keys_distinct g /\
            length (assign_stmts g) = 2 /\ length (find_signal_assignments g) = 1.
Proof. exact keys_distinct_needed. Qed.
Print Assumptions C08_keys_distinct_needed.

(* ---- the hypotheses are satisfiable: `out <-- in \ 2; out * 2 === in; q <-- in;` ---- *)
Definition ex_v (c : N) : vname := {| vn_name := [c]; vn_suffix := None; vn_version := None |}.
Definition ex_m (a b : N) : meta := {| m_start := a; m_end := b; m_file := Some 0%N |}.
Definition ex_k (d : degree) : know := {| kval := None; kdeg := Some (d, d) |}.
Definition ex_cfg : cfg :=
  {| c_kind := KTemplate; c_params := [];
     c_decls := [(ex_v 105, TSigIn); (ex_v 111, TSigOut); (ex_v 113, TSigInt)];
     c_blocks := [{| b_index := 0; b_depth := 0; b_preds := []; b_succs := [];
       b_stmts := [
         SSubst (ex_m 10 23) (ex_v 111) OpSig
           (EInfix IIntDiv (EVar (ex_v 105) (ex_k DLin)) (ENum 2 (ex_k DConst)) (ex_k DNonQuad)) None (Some TSigOut);
         SCeq (ex_m 25 40) (EInfix IMul (EVar (ex_v 111) (ex_k DLin)) (ENum 2 (ex_k DConst)) (ex_k DLin))
           (EVar (ex_v 105) (ex_k DLin));
         SSubst (ex_m 42 50) (ex_v 113) OpSig (EVar (ex_v 105) (ex_k DLin)) None (Some TSigInt) ] |}] |}.

Example C08_example_hypotheses : keys_distinct ex_cfg /\ constraint_keys_distinct ex_cfg.
Proof.
  split; [apply keys_distinct_b_spec | apply constraint_keys_distinct_b_spec]; vm_compute; reflexivity.
Qed.

Example C08_example_source_keys : subkeys_distinct ex_cfg.
Proof. apply subkeys_distinct_b_spec; vm_compute; reflexivity. Qed.

Example C08_example_reports :
  find_signal_assignments ex_cfg =
  [ {| r_code := CS0005; r_primary := [(10, 23, 0)%N]; r_secondary := [(25, 40, 0)%N] |};
    {| r_code := CS0013; r_primary := [(42, 50, 0)%N]; r_secondary := [] |} ].
Proof. vm_compute. reflexivity. Qed.

(* ---- the `<--` statements of the graph are those of the source ----
   Model.LiftFull mirrors try_lift_impl (renaming, AST -> IR lifting with metas,
   block construction) on the real syntax tree Model.Ast and is compared with the
   real `into_cfg` on every run (engine `liftfull`, run by C13's check);
   [lift_to_ir] is that mirror followed by the erasure onto Model.Ir.
   [source_signal_assignments body]: the `<--` / `-->` statements of the body
   (Substitution with AssignSignal), in source order.  The AssignSignal
   substitutions of the lifted graph, in block order, are exactly their images:
   same number, same order, same metas - none lost, none duplicated, none
   invented. *)
Require Model.Ast Model.LiftFull Proofs.LiftFullC08.

Theorem C08_liftfull_signal_assignments_from_source : forall kind params pfile ploc body c,
  Model.LiftFull.lift_to_ir kind params pfile ploc body = Ok c ->
  map stmt_meta (assign_stmts c)
  = map (fun s => Proofs.LiftFullC08.ir_meta (Model.Ast.stmt_meta s)) (Proofs.LiftFullC08.source_signal_assignments body).
Proof. exact Proofs.LiftFullC08.signal_assignments_from_source. Qed.
Print Assumptions C08_liftfull_signal_assignments_from_source.

Theorem C08_liftfull_signal_assignment_count : forall kind params pfile ploc body c,
  Model.LiftFull.lift_to_ir kind params pfile ploc body = Ok c ->
  length (assign_stmts c) = length (Proofs.LiftFullC08.source_signal_assignments body).
Proof. exact Proofs.LiftFullC08.signal_assignment_count. Qed.
Print Assumptions C08_liftfull_signal_assignment_count.

(* so distinct source locations give distinct keys: the hypothesis
   [subkeys_distinct] (which implies [keys_distinct], C08_subkeys_distinct_suffice)
   holds of the lifted graph whenever no two `<--` statements of the source have
   the same meta.  (The graph here is the one BEFORE SSA; the step through SSA is
   C08_ssa_keeps_operators ff. below.) *)
Theorem C08_liftfull_distinct_sources_distinct_subkeys : forall kind params pfile ploc body c,
  Model.LiftFull.lift_to_ir kind params pfile ploc body = Ok c ->
  NoDup (map Model.Ast.stmt_meta (Proofs.LiftFullC08.source_signal_assignments body)) ->
  subkeys_distinct c.
Proof. exact Proofs.LiftFullC08.distinct_sources_distinct_subkeys. Qed.
Print Assumptions C08_liftfull_distinct_sources_distinct_subkeys.

(* The hypothesis of that theorem is EVALUATED: Model.SigAssignSource.source_metas_distinct_b is
   the boolean the extracted driver of the liftfull engine computes for every definition
   ./check C08 explores (coverage key `liftfull_hypothesis`); it implies the hypothesis
   (Proofs.LiftFullC08.source_metas_distinct_b_sound: glue about the model's own decision
   procedure, a lemma, no longer listed as an obligation - third audit).  It is
   not met by every valid input: the elements of a declaration tuple `signal (a, b) <-- (x, y)`
   all get the declaration's own Meta, so their metas coincide although their subkeys do not;
   on those definitions the conclusion [subkeys_distinct] is evaluated directly
   (Model.SigAssignSource.lifted_subkeys_distinct_b) instead of being inferred. *)
Require Model.SigAssignSource.

(* ---- through SSA (third audit: "SSA keeps the operators" used to be observed only) ----
   Model.Ssa.into_ssa is the mirror of `into_ssa` (compared with the real one on every run by
   C14's engine).  For every graph, every frontier / children table, every outcome of the
   fuelled loops, and without any hypothesis on the graph: block i of the SSA form is some
   number of inserted phi statements - substitutions with Meta::default() and the operator
   `=` - followed by statements with exactly the metas and assignment operators (None for a
   statement that is no substitution) of block i of the input, in the same order.  No `<--`
   is lost, duplicated, moved to another block, or turned into `<==` / `=`; no other
   statement becomes a `<--`. *)
Require Model.Ssa Proofs.SigAssignSsa.

Theorem C08_ssa_keeps_operators : forall frontier children c c',
  Model.Ssa.into_ssa frontier children c = Model.Ssa.SOk c' ->
  Forall2 (fun b b' => exists k,
             map otag (b_stmts b')
             = repeat ({| m_start := 0%N; m_end := 0%N; m_file := None |}, Some OpVar) k
               ++ map otag (b_stmts b))
          (c_blocks c) (c_blocks c').
Proof. exact Proofs.SigAssignSsa.ssa_blocks_keep_operators. Qed.
Print Assumptions C08_ssa_keeps_operators.

(* so the `<--` statements of the SSA graph are those of the graph before: number, order, metas *)
Theorem C08_ssa_keeps_signal_assignments : forall frontier children c c',
  Model.Ssa.into_ssa frontier children c = Model.Ssa.SOk c' ->
  map stmt_meta (assign_stmts c') = map stmt_meta (assign_stmts c).
Proof. exact Proofs.SigAssignSsa.ssa_keeps_signal_assignments. Qed.
Print Assumptions C08_ssa_keeps_signal_assignments.

(* From the source to the graph the pass walks: Model.LiftFull followed by Model.Ssa.  The
   `<--` statements of every graph [g] with the blocks of the SSA form (Model.Ssa does not
   compute the declaration table of the SSA graph: any kind, parameters, declarations) are the
   images of the `<--` / `-->` statements of the desugared body, and when those have pairwise
   different metas, [subkeys_distinct g] - the hypothesis of C08_sigassign_bijection_source_keys
   - holds.  (The hypothesis NoDup is evaluated per definition, see below; [constraint_keys_distinct]
   stays a hypothesis evaluated on the dumped graph.) *)
Theorem C08_source_to_ssa_signal_assignments :
  forall kind params pfile ploc body c frontier children c' g,
  Model.LiftFull.lift_to_ir kind params pfile ploc body = Ok c ->
  Model.Ssa.into_ssa frontier children c = Model.Ssa.SOk c' ->
  c_blocks g = c_blocks c' ->
  NoDup (map Model.Ast.stmt_meta (Proofs.LiftFullC08.source_signal_assignments body)) ->
  subkeys_distinct g /\
  map stmt_meta (assign_stmts g)
  = map (fun s => Proofs.LiftFullC08.ir_meta (Model.Ast.stmt_meta s)) (Proofs.LiftFullC08.source_signal_assignments body).
Proof. exact Proofs.SigAssignSsa.source_to_ssa_distinct_subkeys_any_decls. Qed.
Print Assumptions C08_source_to_ssa_signal_assignments.

(* the SSA form of [ex_cfg] (one block: no frontier, no children) exists and keeps its two `<--` *)
Example C08_example_ssa :
  exists c', Model.Ssa.into_ssa [[]] [[]] ex_cfg = Model.Ssa.SOk c' /\
             map stmt_meta (assign_stmts c') = [ex_m 10 23; ex_m 42 50].
Proof. eexists. split; vm_compute; reflexivity. Qed.

(* `template T() { signal input a; signal output b; signal c; b <-- a; c <== a; c --> b; }`
   (declarations omitted from the body): two AssignSignal statements, at 10..17 and 27..34 *)
From Coq Require Import String.
Example C08_example_liftfull :
  let m a b := Model.Ast.Meta a b (Some 0%N) in
  let va := Model.Ast.Variable_ (m 1 2)%N "a"%string [] in
  let body := Model.Ast.Block (m 0 40)%N
    [Model.Ast.Substitution (m 10 17)%N "b"%string [] Model.Ast.AssignSignal va;
     Model.Ast.Substitution (m 18 26)%N "c"%string [] Model.Ast.AssignConstraintSignal va;
     Model.Ast.Substitution (m 27 34)%N "b"%string [] Model.Ast.AssignSignal (Model.Ast.Variable_ (m 27 28)%N "c"%string [])] in
  match Model.LiftFull.lift_to_ir KTemplate [] (Some 0%N) (0%N, 0%N) body with
  | Ok c => map stmt_meta (assign_stmts c)
  | _ => []
  end = [ex_m 10 17; ex_m 27 34]
  /\ NoDup (map Model.Ast.stmt_meta (Proofs.LiftFullC08.source_signal_assignments body)).
Proof.
  split; [vm_compute; reflexivity|].
  vm_compute. repeat constructor; simpl; intuition discriminate.
Qed.
