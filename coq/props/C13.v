(* C13 — the control-flow graph contains every source execution, statement by
   statement.  Property theorems only.  [trace]/[final_status] are the structured
   semantics of a statement skeleton under a decision list, [walk n g ds] the
   observations of the first n steps of the walk of graph g from block 0 under
   the same decisions (true edge; on false the recorded false_index, else the
   only other successor, else stop), both from Spec.CfgSpec; [lift] is the
   mirror of build_basic_blocks. *)
From stdpp Require Import list.
Require Import Model.Lift Model.Shortcuts Spec.CfgSpec Spec.SurfaceSpec Proofs.CfgContains Proofs.RunFuel
  Proofs.SurfaceProofs.
Import Base(outcome, Ok).

(* for every definition that lifts and every decision list: the statements the
   source executes (up to and including its first return, or until the
   decisions run out) are, in the same order, what every long enough walk of
   the graph meets first *)
Theorem C13_cfg_contains_source : forall body g ds,
  lift body = Ok g -> exists n0, forall n, n0 <= n -> trace body ds `prefix_of` walk n g ds.
Proof. exact cfg_contains_source. Qed.
Print Assumptions C13_cfg_contains_source.

(* the same as a finite walk: some sequence of steps from (block 0, offset 0)
   observes exactly the trace *)
Theorem C13_cfg_contains_source_walks : forall body g ds,
  lift body = Ok g -> exists q ds', walks g (0, 0) ds (trace body ds) q ds'.
Proof. exact cfg_contains_source_walks. Qed.
Print Assumptions C13_cfg_contains_source_walks.

(* when the source runs to its end without meeting a return, the walk stops
   there too: trace and walk are equal *)
Theorem C13_cfg_equals_source_at_end : forall body g ds,
  lift body = Ok g -> final_status body ds = Running ->
  exists n0, forall n, n0 <= n -> walk n g ds = trace body ds.
Proof. exact cfg_equals_source_at_end. Qed.
Print Assumptions C13_cfg_equals_source_at_end.

(* ---- last sentence of the property: `for` loops and compound assignments ----
   (replaces C13_for_into_while_sem, which only restated two definitions)

   [uexec] (Spec.SurfaceSpec) is a relational big-step semantics of the SURFACE
   statement forms, given without fuel, blocks or `while`: for a
   `for (init; c; step) body` it runs init once, evaluates c, and when the
   decision is true runs body, then step, and evaluates c again.  The expansion
   the parser builds (mirrored by Model.Lift.desugar / for_into_while: a block
   holding init and a while whose body is the block [body; step]) run under the
   fuelled semantics of the core forms gives exactly the same executions. *)
Theorem C13_surface_semantics_is_expansion : forall u ds tr ds' st,
  uexec u ds tr ds' st <-> run (desugar u) ds = (tr, ds', st).
Proof. exact uexec_iff_run. Qed.
Print Assumptions C13_surface_semantics_is_expansion.

(* the surface semantics is total (so the hypothesis [uexec ..] below can always
   be met) and never yields the fuel status *)
Theorem C13_surface_semantics_total : forall u ds,
  exists tr ds' st, uexec u ds tr ds' st /\ st <> Diverged.
Proof. exact uexec_total. Qed.
Print Assumptions C13_surface_semantics_total.

(* the property for surface programs: whatever a definition with `for` loops and
   compound assignments executes under a decision list is what every long
   enough walk of the graph lifted from its expansion meets first *)
Theorem C13_cfg_contains_surface_execution : forall u g ds tr ds' st,
  lift (desugar u) = Ok g -> uexec u ds tr ds' st ->
  exists n0, forall n, n0 <= n -> tr `prefix_of` walk n g ds.
Proof. exact cfg_contains_surface_execution. Qed.
Print Assumptions C13_cfg_contains_surface_execution.

(* compound assignments.  [exec_stmt bop num s st] is the store semantics of the
   four surface forms `x[..] = e`, `x[..] op= e`, `x[..]++`, `x[..]--`, the
   compound ones as read-modify-write with the OLD VALUE OF THE TARGET AS LEFT
   OPERAND, for an arbitrary value type V, an arbitrary meaning [bop] of the
   twelve operators (none assumed commutative) and of literals [num].
   The access list of a target holds index expressions and component accesses
   ([EField], meaning [fld]: fourth audit), in any number and order.
   [parse_substitution] mirrors, builder call by builder call, what
   ast_shortcuts.rs (assign_with_op_shortcut, plusplus, subsub) builds; it means
   the same as the source form, in every store.

   Second audit: there used to be a second obligation, C13_compound_expansion_sem,
   with [Spec.SurfaceSpec.expected_statement] in place of [parse_substitution].
   The two functions are the same function written twice
   (Proofs.SurfaceProofs.parse_substitution_is_expected_statement:
   parse_substitution s = expected_statement s, by case analysis and
   reflexivity), so that was one fact stated twice; it is kept as lemma
   Proofs.SurfaceProofs.expected_statement_sem and is no obligation any more.
   For the same reason the run-time comparisons "implementation vs
   expected_statement" and "implementation vs parse_substitution"
   (lifteng.forms_compare) are one comparison. *)
Theorem C13_compound_mirror_sem :
  forall (N V : Type) (HN : EqDecision N) (HV : EqDecision V)
         (bop : binop -> V -> V -> V) (num : nat -> V) (fld : N -> V) (s : cstmt N) (st : store N V),
  exec_stmt bop num fld (parse_substitution s) st = exec_stmt bop num fld s st.
Proof. exact (@parse_substitution_sem). Qed.
Print Assumptions C13_compound_mirror_sem.

(* the statement above discriminates: with the operands the other way
   round (`x = e - x` for `x -= e`), or with 2 for 1 in `x++`, the assignment
   means something else in some store *)
Example C13_swapped_operands_differ :
  exists (bop : binop -> nat -> nat -> nat) (num : nat -> nat) (st : store nat nat) (e : ex nat),
    exec_stmt bop num (fun _ => 0) (CAssign 0 [] (EInfix Sub e (EVar 0 []))) st 0 []
    <> exec_stmt bop num (fun _ => 0) (COpAssign Sub 0 [] e) st 0 [].
Proof. exact swapped_operands_differ. Qed.

Example C13_plus_two_differs :
  exists (bop : binop -> nat -> nat -> nat) (num : nat -> nat) (st : store nat nat),
    exec_stmt bop num (fun _ => 0) (CAssign 0 [] (EInfix Add (EVar 0 []) (ENum 2))) st 0 []
    <> exec_stmt bop num (fun _ => 0) (CInc 0 []) st 0 [].
Proof. exact plus_two_differs. Qed.

(* non-vacuity of the surface semantics: a `for` loop whose second iteration
   returns from the body; step 4 runs after body 5 in the first iteration only *)
Example C13_for_witness :
  let u := UBlock [UFor (ULeaf 1 false) 2 (UCompound 4)
                        (UBlock [ULeaf 5 false; UIf 6 (ULeaf 7 true) None]);
                   ULeaf 8 false] in
  uexec u [true; false; true; true]
        [KLeaf 1; KCond 2; KLeaf 5; KCond 6; KLeaf 4; KCond 2; KLeaf 5; KCond 6; KLeaf 7] [] Returned /\
  uexec u [false] [KLeaf 1; KCond 2; KLeaf 8] [] Running.
Proof. split; apply uexec_iff_run; reflexivity. Qed.

(* the structured semantics is not cut short by its own recursion fuel: every
   loop iteration consumes a decision, |ds|+1 iterations suffice *)
Theorem C13_trace_fuel_sufficient : forall s ds, final_status s ds <> Diverged.
Proof. exact run_never_diverges. Qed.
Print Assumptions C13_trace_fuel_sufficient.

(* equality also holds when the source stops because the decisions ran out at a
   condition: the walk stops at that condition too (an Exhausted execution has
   met no return before, the statuses being exclusive) *)
Require Import Proofs.LiftExhausted.
Theorem C13_exhausted_equality : forall body g ds,
  lift body = Ok g -> final_status body ds = Exhausted ->
  exists n0, forall n, n0 <= n -> walk n g ds = trace body ds.
Proof. exact cfg_equals_source_exhausted. Qed.
Print Assumptions C13_exhausted_equality.

(* non-vacuity: the decisions run out at the condition inside the loop *)
Example C13_exhausted_witness :
  let body := SBlock [SLeaf 1 false; SWhile 2 (SBlock [SIf 3 (SLeaf 4 true) None; SLeaf 5 false]); SLeaf 6 false] in
  exists g, lift body = Ok g /\ final_status body [true] = Exhausted /\
    trace body [true] = [KLeaf 1; KCond 2; KCond 3] /\ walk 40 g [true] = [KLeaf 1; KCond 2; KCond 3].
Proof. vm_compute. eexists. repeat split; reflexivity. Qed.

(* non-vacuity: a loop with a return inside; the walk goes on past the return *)
Example C13_witness :
  let body := SBlock [SLeaf 1 false; SWhile 2 (SBlock [SIf 3 (SLeaf 4 true) None; SLeaf 5 false]); SLeaf 6 false] in
  exists g, lift body = Ok g /\
    trace body [true; false; true; true] = [KLeaf 1; KCond 2; KCond 3; KLeaf 5; KCond 2; KCond 3; KLeaf 4] /\
    walk 40 g [true; false; true; true] =
      [KLeaf 1; KCond 2; KCond 3; KLeaf 5; KCond 2; KCond 3; KLeaf 4; KLeaf 5; KCond 2] /\
    trace body [false] = walk 40 g [false].
Proof. vm_compute. eexists. repeat split; reflexivity. Qed.

(* ---- the content-carrying lifting mirror (Model.LiftFull) ----
   Model.Lift, about which the theorems above speak, lifts statement SKELETONS.
   Model.LiftFull mirrors the same code on the real syntax tree (Model.Ast):
   unique-variable renaming, IR statements and expressions with their metas,
   declarations, parameters (try_lift_impl of control_flow_graph/lifting.rs with
   intermediate_representation/lifting.rs), and is compared with the real
   `into_cfg` on every run (stage "content-carrying lifting mirror vs
   implementation" of this check).  Forgetting the statement content of the graph
   it builds ([skel_block]) gives exactly the graph Model.Lift builds from the
   skeleton of the same body ([skel]) - for ANY way [key] of naming a statement /
   a condition by its meta.  So every theorem above (and all of C12) is a theorem
   about the block structure of the content-carrying graph. *)
Require Model.Ast Model.Ir Model.LiftFull Proofs.LiftFullProofs.

Theorem C13_liftfull_skeleton : forall key kind params pfile ploc body r,
  Model.LiftFull.try_lift_impl kind params pfile ploc body = Ok r ->
  lift (Model.LiftFull.skel key body)
  = Ok (map (Model.LiftFull.skel_block key) (Model.LiftFull.xc_blocks (Model.LiftFull.l_cfg r))).
Proof. exact Proofs.LiftFullProofs.liftfull_skeleton. Qed.
Print Assumptions C13_liftfull_skeleton.

(* the simulation theorem transferred: the walk of the content-carrying graph
   (seen through [skel_block]) contains the execution of the body (seen through
   [skel]) under every decision list *)
Theorem C13_liftfull_cfg_contains_source : forall key kind params pfile ploc body r ds,
  Model.LiftFull.try_lift_impl kind params pfile ploc body = Ok r ->
  exists n0, forall n, n0 <= n ->
    trace (Model.LiftFull.skel key body) ds
    `prefix_of` walk n (map (Model.LiftFull.skel_block key) (Model.LiftFull.xc_blocks (Model.LiftFull.l_cfg r))) ds.
Proof.
  exact (fun key kind params pfile ploc body r ds H =>
           cfg_contains_source _ _ ds (Proofs.LiftFullProofs.liftfull_skeleton key kind params pfile ploc body r H)).
Qed.
Print Assumptions C13_liftfull_cfg_contains_source.

(* ---- third audit: what "by meta" means, and the content-level statement ----
   C13_liftfull_skeleton / C13_liftfull_cfg_contains_source hold for ANY [key],
   a constant one included: they identify a statement BY ITS META and say nothing
   more than the key distinguishes.  Two statements that share a meta are not told
   apart - hence not ordered - by them.  Which statements share a meta: every
   Declaration and Substitution the parser splits ONE declaration list into
   (`var a = 1, b = a;`: ast_shortcuts::split_declaration_into_single_nodes clones
   the meta), and the statements of the block the desugarer expands ONE tuple /
   anonymous-component statement into.  The check evaluates, per definition, whether
   the body has such statements (flag MD of the model driver; evidence
   liftfull.statements_sharing_a_meta).

   (1) Fourth audit.  The theorem that stood here (`.._injective_key`) was of restatement
   grade: its first conjunct was C13_liftfull_cfg_contains_source verbatim, its second the
   hypothesis composed with C04's meta provenance; nothing in it mentioned trace or walk.
   It is replaced by a statement that JOINS the content-level provenance with the ids the
   trace and the walk are made of.  For a body in which no two statements that become IR
   statements share a meta (decided by Model.LiftFullReport.stmt_metas_distinct_b:
   C13_stmt_metas_distinct_b_sound; evaluated on every definition, flag MD) and a [key] that
   tells the statement metas apart (C13_positional_key_injective: the key of the check):
   the walk of the graph seen through [skel_block key] contains the execution of the body
   seen through [skel key], AND whenever an IR statement x of the graph carries the id of a
   statement s' of the renamed body, x IS the image of s' (what the mirror's own
   per-statement lifting function LiftFull.lift_stmt - the mirror of
   intermediate_representation/lifting.rs, tied by the liftfull stage - makes of s').  So
   each id the walk meets names one source statement and one IR statement, the latter the
   image of the former: "the statements the source executes are, in the same order, the
   statements the walk meets" holds at the level of content, not only of metas.
   For bodies WITH statements that share a meta (about 60 % of the generated definitions)
   the join is not proved: there the by-meta containment and the positional Forall2 of
   C13_liftfull_content_provenance are two facts (open statement in the evidence). *)
Require Spec.LiftFullSpec Proofs.LiftFullC13 Model.LiftFullReport.

Theorem C13_liftfull_walk_statements_are_images : forall key kind params pfile ploc body r,
  Model.LiftFull.try_lift_impl kind params pfile ploc body = Ok r ->
  NoDup (map Model.Ast.stmt_meta (Model.LiftFull.lifted_stmts body)) ->
  Spec.LiftFullSpec.key_injective_on key body ->
  exists body',
    Model.LiftFull.ensure_unique_variables params pfile ploc body = Ok (body', Model.LiftFull.l_reports r) /\
    Spec.LiftFullSpec.renamed_only body body' /\
    (forall ds, exists n0, forall n, n0 <= n ->
       trace (Model.LiftFull.skel key body) ds
       `prefix_of` walk n (map (Model.LiftFull.skel_block key) (Model.LiftFull.xc_blocks (Model.LiftFull.l_cfg r))) ds) /\
    (forall x s',
       In x (Model.LiftFull.graph_stmts (Model.LiftFull.xc_blocks (Model.LiftFull.l_cfg r))) ->
       In s' (Model.LiftFull.lifted_stmts body') ->
       key (Model.LiftFull.xstmt_meta x) = key (Model.LiftFull.lift_meta (Model.Ast.stmt_meta s')) ->
       Spec.LiftFullSpec.image (Model.LiftFull.xc_decls (Model.LiftFull.l_cfg r)) s' x).
Proof. exact Proofs.LiftFullC13.liftfull_walk_statements_are_images. Qed.
Print Assumptions C13_liftfull_walk_statements_are_images.

Theorem C13_stmt_metas_distinct_b_sound : forall body,
  Model.LiftFullReport.stmt_metas_distinct_b body = true ->
  NoDup (map Model.Ast.stmt_meta (Model.LiftFull.lifted_stmts body)).
Proof. exact Proofs.LiftFullC13.stmt_metas_distinct_b_sound. Qed.
Print Assumptions C13_stmt_metas_distinct_b_sound.

(* such a key: the position of the first statement of the body that carries the meta
   (Model.LiftFullReport.positional_key) - the key the model driver of the check uses for the
   skeleton cross-check and for the trace / walk oracle on content-carrying definitions, so the
   hypothesis above holds on every explored case by this theorem *)
Theorem C13_positional_key_injective : forall body,
  Spec.LiftFullSpec.key_injective_on (Model.LiftFullReport.positional_key body) body.
Proof. exact Proofs.LiftFullC13.positional_key_injective_on. Qed.
Print Assumptions C13_positional_key_injective.

(* (2) The content-level statement, which DOES order statements that share a
   meta.  [body'] is the body after the renaming pass of ensure_unique_variables: the
   body with other names (same statement structure, and the statements that become
   IR statements have, in order, the same kinds and the same metas:
   Spec.LiftFullSpec.renamed_only).  The IR statements of the graph, read block by
   block, are in one-to-one, ORDER-PRESERVING correspondence (Forall2) with the
   statements of body' that are not blocks, each the [image] of its statement: what the
   MIRROR's per-statement function LiftFull.lift_stmt (the mirror of
   intermediate_representation/lifting.rs; that it IS that code is the liftfull stage's
   text comparison, not this theorem) makes of that statement (same kind, lifted
   names and expressions with their metas, operands in order; for `while` / `if` the
   branch statement with the lifted condition), up to the false target filled in by
   complete_basic_block and the type filled in by propagate_types.  This is the
   statement C04 / C08 use projections of (metas, `<--` statements). *)
Theorem C13_liftfull_content_provenance : forall kind params pfile ploc body r,
  Model.LiftFull.try_lift_impl kind params pfile ploc body = Ok r ->
  exists body',
    Model.LiftFull.ensure_unique_variables params pfile ploc body = Ok (body', Model.LiftFull.l_reports r) /\
    Spec.LiftFullSpec.renamed_only body body' /\
    Forall2 (Spec.LiftFullSpec.image (Model.LiftFull.xc_decls (Model.LiftFull.l_cfg r)))
            (Model.LiftFull.lifted_stmts body')
            (Model.LiftFull.graph_stmts (Model.LiftFull.xc_blocks (Model.LiftFull.l_cfg r))).
Proof. exact Proofs.LiftFullC13.liftfull_content_provenance. Qed.
Print Assumptions C13_liftfull_content_provenance.

(* non-vacuity: `function f(x) { while (x) { if (x) { return x; } x = 1; } return x; }`
   lifts to six blocks holding five IR statements *)
From Coq Require Import String.
Example C13_liftfull_witness :
  let m a b := Model.Ast.Meta a b (Some 0%N) in
  let x := Model.Ast.Variable_ (m 1 2)%N "x"%string [] in
  let body := Model.Ast.Block (m 0 50)%N
    [Model.Ast.While (m 3 40)%N x (Model.Ast.Block (m 10 40)%N
       [Model.Ast.IfThenElse (m 11 30)%N x (Model.Ast.Block (m 15 30)%N [Model.Ast.Return (m 16 20)%N x]) None;
        Model.Ast.Substitution (m 31 39)%N "x"%string [] Model.Ast.AssignVar (Model.Ast.Number (m 35 36)%N 1)]);
     Model.Ast.Return (m 41 49)%N x] in
  exists r, Model.LiftFull.try_lift_impl Model.Ir.KFunction ["x"%string] (Some 0%N) (0%N, 0%N) body = Ok r /\
    Datatypes.length (Model.LiftFull.xc_blocks (Model.LiftFull.l_cfg r)) = 6 /\
    Datatypes.length (Model.LiftFull.graph_stmts (Model.LiftFull.xc_blocks (Model.LiftFull.l_cfg r))) = 5.
Proof. vm_compute. eexists. repeat split; reflexivity. Qed.
