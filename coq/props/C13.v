(* C13 — the control-flow graph contains every source execution, statement by
   statement.  Property theorems only.  [trace]/[final_status] are the structured
   semantics of a statement skeleton under a decision list, [walk n g ds] the
   observations of the first n steps of the walk of graph g from block 0 under
   the same decisions (true edge; on false the recorded false_index, else the
   only other successor, else stop), both from Spec.CfgSpec; [lift] is the
   mirror of build_basic_blocks. *)
From stdpp Require Import list.
Require Import Model.Lift Spec.CfgSpec Proofs.CfgContains Proofs.RunFuel.
Import Base(outcome, Ok).

(* for every definition that lifts and every decision list: the statements the
   source executes (up to and including its first return, or until the
   decisions run out) are, in the same order, what every long enough walk of
   the graph meets first *)
Theorem C13_cfg_contains_source : forall body g ds,
  lift body = Ok g -> exists n0, forall n, n0 <= n -> trace body ds `prefix_of` walk n g ds.
Proof. exact cfg_contains_source. Qed.
Print Assumptions C13_cfg_contains_source.

(* the same as a finite walk: some sequence of steps from (block 0, offset 0)
   observes exactly the trace *)
Theorem C13_cfg_contains_source_walks : forall body g ds,
  lift body = Ok g -> exists q ds', walks g (0, 0) ds (trace body ds) q ds'.
Proof. exact cfg_contains_source_walks. Qed.
Print Assumptions C13_cfg_contains_source_walks.

(* when the source runs to its end without meeting a return, the walk stops
   there too: trace and walk are equal *)
Theorem C13_cfg_equals_source_at_end : forall body g ds,
  lift body = Ok g -> final_status body ds = Running ->
  exists n0, forall n, n0 <= n -> walk n g ds = trace body ds.
Proof. exact cfg_equals_source_at_end. Qed.
Print Assumptions C13_cfg_equals_source_at_end.

(* `for` loops: the parser's for_into_while (mirrored in Model.Lift) builds
   exactly the init / while cond { body; step } expansion that defines the
   meaning of `for`; compound assignments stay one statement *)
Theorem C13_for_into_while_sem : forall init c step body,
  for_into_while init c step body = for_expansion init c step body /\
  forall id, desugar (UCompound id) = SLeaf id false.
Proof. intros. split; reflexivity. Qed.
Print Assumptions C13_for_into_while_sem.

(* the structured semantics is not cut short by its own recursion fuel: every
   loop iteration consumes a decision, |ds|+1 iterations suffice *)
Theorem C13_trace_fuel_sufficient : forall s ds, final_status s ds <> Diverged.
Proof. exact run_never_diverges. Qed.
Print Assumptions C13_trace_fuel_sufficient.

(* kept visible, not proved in the time box (reported under open_statements):
   equality also holds when the walk stops because the decisions ran out *)
Definition C13_exhausted_equality_full_statement : Prop := forall body g ds,
  lift body = Ok g -> final_status body ds = Exhausted ->
  exists n0, forall n, n0 <= n -> walk n g ds = trace body ds.

(* non-vacuity: a loop with a return inside; the walk goes on past the return *)
Example C13_witness :
  let body := SBlock [SLeaf 1 false; SWhile 2 (SBlock [SIf 3 (SLeaf 4 true) None; SLeaf 5 false]); SLeaf 6 false] in
  exists g, lift body = Ok g /\
    trace body [true; false; true; true] = [KLeaf 1; KCond 2; KCond 3; KLeaf 5; KCond 2; KCond 3; KLeaf 4] /\
    walk 40 g [true; false; true; true] =
      [KLeaf 1; KCond 2; KCond 3; KLeaf 5; KCond 2; KCond 3; KLeaf 4; KLeaf 5; KCond 2] /\
    trace body [false] = walk 40 g [false].
Proof. vm_compute. eexists. repeat split; reflexivity. Qed.
