(* C18 -- tuples and anonymous components are desugared completely and
   faithfully.  Property theorems only: each is closed by [exact] of a lemma of
   Proofs.Desugar{Proofs,Metas,Total,Refine,Alpha,AlphaInj,FunIff}, followed by Print Assumptions.  The
   statements of DESIGN §4 C18 about the desugarer are theorems here.  NOT covered by any theorem (listed
   as open statements in the evidence, lib/props/C18.py OPEN): equality of the FINDINGS with those of the
   hand-written expansion, the parser's share of the sugar, which message an invalid use gets and where,
   and the dimensions of the recorded ports. *)
From Coq Require Import ZArith NArith List Bool String.
Require Import Model.Ast Model.Desugar Spec.ExpandSpec Spec.RenameSpec Proofs.DesugarProofs Proofs.DesugarMetas Proofs.DesugarTotal Proofs.DesugarRefine Proofs.DesugarAlpha Proofs.DesugarAlphaInj Proofs.DesugarFunIff.
Import ListNotations.
Local Open Scope string_scope.

(* the ContainsExpression traversal is complete: a negative answer means that no
   sub-expression (through operators, calls, array literals, tuples, anonymous
   components and the array indices of accesses) satisfies the matcher *)
Theorem C18_contains_expr_complete : forall matcher e,
  contains_expr matcher e = false -> forall x, In x (sub_exprs e) -> matcher x = false.
Proof. exact contains_expr_complete. Qed.
Print Assumptions C18_contains_expr_complete.

(* ... and for statements: every expression position of all 11 statement kinds *)
Theorem C18_contains_expr_stmt_complete : forall matcher s,
  contains_expr_stmt matcher s = false -> forall x, In x (stmt_exprs s) -> matcher x = false.
Proof. exact contains_expr_stmt_complete. Qed.
Print Assumptions C18_contains_expr_stmt_complete.

(* a positive answer is justified by an occurrence *)
Theorem C18_contains_expr_stmt_sound : forall matcher s,
  contains_expr_stmt matcher s = true -> exists x, In x (stmt_exprs s) /\ matcher x = true.
Proof. exact contains_expr_stmt_sound. Qed.
Print Assumptions C18_contains_expr_stmt_sound.

(* whatever template body the desugarer hands on contains no tuple, no anonymous
   component and no multi-assignment, anywhere -- for every body, every template
   environment and every file library *)
Theorem C18_desugar_output_sugar_free : forall env lib body body',
  desugar_template env lib body = DOk body' -> sugar_free_stmt body'.
Proof. exact desugar_output_sugar_free. Qed.
Print Assumptions C18_desugar_output_sugar_free.

(* remove_syntactic_sugar as a whole: templates handed on are sugar free; functions
   handed on are input functions and sugar free; every input function that
   contains sugar is dropped and answered by (at least) one error report *)
Theorem C18_functions_with_sugar_rejected : forall lib ts fs d,
  remove_syntactic_sugar lib ts fs = DOk d ->
  (forall n b, In (n, b) (d_templates d) -> sugar_free_stmt b) /\
  (forall n b, In (n, b) (d_functions d) -> In (n, b) fs /\ sugar_free_stmt b) /\
  (forall n b, In (n, b) fs -> ~ sugar_free_stmt b ->
     ~ In (n, b) (d_functions d) /\ exists r, In r (d_reports d) /\ fun_msg (r_msg r)).
Proof. exact remove_syntactic_sugar_sugar_free. Qed.
Print Assumptions C18_functions_with_sugar_rejected.

(* THE FUNCTION-SIDE DECISION, both directions.  [check_function body = DOk None] is
   "the function is handed on, without a report".  Left to right is contained in the
   theorem above.  Right to left is the statement that was missing (third audit: the
   theorem of this name used to be the first implication only): a sugar-free function
   is never dropped, never answered by a report, and the check cannot panic on it
   whatever its metas are -- the report builder (whose `get_file_id` can panic) is only
   reached once sugar was found. *)
Theorem C18_function_kept_iff : forall body,
  check_function body = DOk None <-> sugar_free_stmt body.
Proof. exact check_function_kept_iff. Qed.
Print Assumptions C18_function_kept_iff.

(* ... for remove_syntactic_sugar as a whole: every sugar-free input function is among
   the functions handed on (no over-rejection), for every library, template list and
   function list on which the pass returns *)
Theorem C18_sugar_free_functions_kept : forall lib ts fs d,
  remove_syntactic_sugar lib ts fs = DOk d ->
  forall n b, In (n, b) fs -> sugar_free_stmt b -> In (n, b) (d_functions d).
Proof. exact remove_syntactic_sugar_keeps_sugar_free_functions. Qed.
Print Assumptions C18_sugar_free_functions_kept.

(* THE RECORDED PORT ORDER.  template_data.rs `fill_inputs_and_outputs` is a traversal
   with two accumulators (mirror: [fill_io], folded over blocks, initialisation blocks,
   both branches of a conditional and loop bodies).  What the desugarer looks up for a
   template -- [env_of ts] -- is, for every program and every template name, the list
   of declared input names and the list of declared output names in the order their
   declarations are WRITTEN ([declared_signals], the specification's own reading of a
   body: textual pre-order, a declaration of several symbols left to right).  This is
   the "declaration order" of the property text; C18_desugar_is_expand uses it. *)
Theorem C18_recorded_ports_are_declaration_order : forall ts id,
  option_map (fun ti => (map fst (ti_inputs ti), map fst (ti_outputs ti))) (lookup_template id (env_of ts)) =
  match find (fun t => String.eqb (fst t) id) ts with
  | Some (_, body) => Some (declared_signals SInput body, declared_signals SOutput body)
  | None => None
  end.
Proof. exact (fun ts id => eq_sym (sig_env ts id)). Qed.
Print Assumptions C18_recorded_ports_are_declaration_order.

(* pass 1 alone already removes every anonymous component (what pass 2's
   `unreachable!()` relies on) *)
Theorem C18_pass1_removes_anonymous : forall env lib body s' decls,
  remove_anonymous_from_statement env lib None body = DOk (s', decls) ->
  contains_expr_stmt is_anonymous_component s' = false /\
  Forall (fun d => contains_expr_stmt is_anonymous_component d = false) decls.
Proof. intros env lib body. exact (ras_na env lib body None I). Qed.
Print Assumptions C18_pass1_removes_anonymous.

(* in pass 2 as invoked by remove_syntactic_sugar (on the output of pass 1) the
   `unreachable!()` of remove_tuple_from_expression and `rhe_values.remove(0)` never
   fire, for every input: the only panic site left in pass 2 is into_report on a
   meta without file id *)
Theorem C18_pass2_unreachable_never_fires : forall env lib body m stmts decls c v su s,
  remove_anonymous_from_statement env lib None body = DOk (Block m stmts, decls) ->
  separate_declarations decls [] [] [] = DOk (c, v, su) ->
  remove_tuples_from_statement
    (Block m ([InitializationBlock m VVar v] ++ su ++ [InitializationBlock m VComponent c] ++ stmts)) = DPanic s ->
  s = site_report_file_id.
Proof. exact pass2_unreachable_never_fires. Qed.
Print Assumptions C18_pass2_unreachable_never_fires.

(* every meta of the desugared body occurs in the input body (the generated
   declarations, initialisations and assignments re-use metas of the statement or
   expression they stand for): used by C04 *)
Theorem C18_desugar_metas_from_input : forall env lib body body',
  desugar_template env lib body = DOk body' ->
  forall m, In m (stmt_metas body') -> In m (stmt_metas body).
Proof. exact desugar_metas_from_input. Qed.
Print Assumptions C18_desugar_metas_from_input.

(* more generally, any property of metas is inherited by the output *)
Theorem C18_desugar_meta_property_inherited : forall (Q : meta -> Prop) env lib body body',
  Forall Q (stmt_metas body) -> desugar_template env lib body = DOk body' -> Forall Q (stmt_metas body').
Proof. exact desugar_meta_property_inherited. Qed.
Print Assumptions C18_desugar_meta_property_inherited.

(* PANIC FREEDOM.  On parser output -- every meta of every body belongs to a file
   of the library, log strings are at most 230 bytes, named inputs come with one
   argument each, template bodies are blocks ([wf_template], Spec.ExpandSpec) --
   remove_syntactic_sugar as a whole returns templates, functions and reports: no
   `unwrap`, `unreachable!`, `get_file_id` or indexing site fires (the mirror has 9
   such sites) and the fuelled loop of split_string terminates. *)
Theorem C18_desugar_never_panics : forall lib ts fs,
  Forall (fun t => wf_template lib (snd t)) ts ->
  Forall (fun f => Forall (meta_known lib) (stmt_metas (snd f))) fs ->
  exists d, remove_syntactic_sugar lib ts fs = DOk d.
Proof. exact remove_syntactic_sugar_total. Qed.
Print Assumptions C18_desugar_never_panics.

(* per template, with the hypotheses written out: the answer is a body or a report *)
Theorem C18_desugar_template_never_panics : forall lib env body,
  Forall (meta_known lib) (stmt_metas body) ->
  Forall short_node (sub_stmts body) ->
  Forall wf_node (stmt_exprs body) ->
  (exists m l, body = Block m l) ->
  match desugar_template env lib body with DOk _ | DErr _ => True | DPanic _ | DOutOfFuel => False end.
Proof. exact desugar_template_total_expanded. Qed.
Print Assumptions C18_desugar_template_never_panics.

(* FAITHFULNESS.  For a body of the parser (named inputs one per argument, log
   strings split) the answer of the two passes and the specified expansion
   coincide as options: accepted exactly when expand_spec is defined, and then
   with exactly that result.  The specification is instantiated with the
   implementation's naming scheme ([name_opt lib id m] = `<id>_<line>_<start>`,
   counters `anon_var_<line>_<start>`) and with the signature table of the program
   ([sig_table ts]: inputs and outputs of every template in declaration order). *)
Theorem C18_desugar_is_expand : forall (lib : file_library) ts m l,
  Forall wf_node (stmt_exprs (Block m l)) ->
  Forall short_node (sub_stmts (Block m l)) ->
  to_opt (desugar_template (env_of ts) lib (Block m l)) =
  expand_spec (sig_table ts) (name_opt lib) (name_opt lib "anon_var") (Block m l).
Proof. exact desugar_is_expand. Qed.
Print Assumptions C18_desugar_is_expand.

(* the accepted output is the specified expansion: a tuple assignment is the
   element-wise assignments in order skipping `_`; `T(p..)(a..)` is a declared
   component initialised with T(p..), inputs assigned in declaration order
   (positionally or by name, the operator belonging to the name), outputs read in
   declaration order *)
Theorem C18_desugar_refines_expand : forall (lib : file_library) ts m l body',
  Forall wf_node (stmt_exprs (Block m l)) ->
  Forall short_node (sub_stmts (Block m l)) ->
  desugar_template (env_of ts) lib (Block m l) = DOk body' ->
  expand_spec (sig_table ts) (name_opt lib) (name_opt lib "anon_var") (Block m l) = Some body'.
Proof. exact desugar_refines_expand. Qed.
Print Assumptions C18_desugar_refines_expand.

(* an error report only on invalid uses of the sugar *)
Theorem C18_desugar_errors_exact : forall (lib : file_library) ts m l,
  Forall wf_node (stmt_exprs (Block m l)) ->
  Forall short_node (sub_stmts (Block m l)) ->
  (exists r, desugar_template (env_of ts) lib (Block m l) = DErr r) ->
  expand_spec (sig_table ts) (name_opt lib) (name_opt lib "anon_var") (Block m l) = None.
Proof. exact desugar_errors_exact. Qed.
Print Assumptions C18_desugar_errors_exact.

(* together with panic freedom: on parser output the desugarer accepts exactly the
   valid uses (with the specified result) and reports an error exactly on the
   invalid ones *)
Theorem C18_desugar_accepts_iff : forall (lib : file_library) ts body,
  wf_template lib body ->
  (forall b', desugar_template (env_of ts) lib body = DOk b' <->
              expand_spec (sig_table ts) (name_opt lib) (name_opt lib "anon_var") body = Some b') /\
  ((exists r, desugar_template (env_of ts) lib body = DErr r) <->
   expand_spec (sig_table ts) (name_opt lib) (name_opt lib "anon_var") body = None).
Proof. exact desugar_accepts_iff. Qed.
Print Assumptions C18_desugar_accepts_iff.

(* THE NAMING FUNCTIONS ARE PARAMETERS.  [expand_spec] takes the functions that name
   the introduced components and loop counters as parameters; the faithfulness
   theorems above instantiate them with the implementation's own scheme.  The
   specification is PARAMETRIC in them: for every [f] on variable names that moves
   none of the names the body itself uses ([fixes_names], Spec.RenameSpec), naming
   by "f after (comp_name, counter_name)" gives the [f]-renamed expansion, and is
   defined on exactly the same bodies.  This statement alone is NOT alpha-equivalence:
   an [f] that sends a generated name onto a name of the body (`A_2_22` to `a`), or
   two generated names onto one, satisfies the hypothesis as well, and then [ren_s f]
   merges variables (C18_example_merging_renaming below).  The alpha reading needs
   the injectivity hypothesis of the next two theorems.
   Since /repo f58b98e a loop has a counter exactly when a component array declared for
   its own body is dimensioned by the counter - a decision by NAME.  A renaming that
   sends another name (say the counter of a nested loop) onto the image of a loop's
   counter changes that decision, so all three renaming theorems carry the hypothesis
   "no other name is identified with a loop counter". *)
Theorem C18_expand_spec_commutes_with_renaming :
  forall (f : string -> string) sig_of comp_name counter_name body,
    fixes_names f body ->
    (forall m k x, counter_name m = Some k -> f x = f k -> x = k) ->
    expand_spec sig_of (fun id m => option_map f (comp_name id m)) (fun m => option_map f (counter_name m)) body =
    option_map (ren_s f) (expand_spec sig_of comp_name counter_name body).
Proof. exact expand_spec_naming_independent. Qed.
Print Assumptions C18_expand_spec_commutes_with_renaming.

(* ALPHA-RENAMING.  [scope] = names visible in the body that need not occur in it
   (the parameters of the definition).  If [f] moves none of the names of the body,
   and identifies no two names among [scope] and the names of the expansion [b]
   ([inj_on]: in particular no generated name is sent onto a name of the body or of
   the scope, and no two generated names onto one), then the expansion under the
   scheme "f after (comp_name, counter_name)" is [ren_s f b] AND [ren_s f] is undone
   on it by a renaming [g] inverse to [f] on every name in sight: the two expansions
   are renamings of each other by maps that merge nothing. *)
Theorem C18_expand_spec_alpha_renaming :
  forall (f : string -> string) sig_of comp_name counter_name scope body b,
    fixes_names f body ->
    (forall m k x, counter_name m = Some k -> f x = f k -> x = k) ->
    expand_spec sig_of comp_name counter_name body = Some b ->
    inj_on f (scope ++ stmt_names b) ->
    expand_spec sig_of (fun id m => option_map f (comp_name id m)) (fun m => option_map f (counter_name m)) body
      = Some (ren_s f b) /\
    exists g, (forall x, In x (scope ++ stmt_names b) -> g (f x) = x) /\ ren_s g (ren_s f b) = b.
Proof. exact expand_spec_alpha. Qed.
Print Assumptions C18_expand_spec_alpha_renaming.

(* hence "the desugarer's output is the hand expansion" holds up to alpha-renaming
   of the new names, not only under the implementation's naming function: the
   output [b] of the two passes and the specified expansion under the scheme that
   names components `f (<id>_<line>_<start>)` and counters
   `f (anon_var_<line>_<start>)` are renamings of each other ([f] one way, [g] back),
   for every [f] that fixes the body's names and is injective on the scope and the
   names of [b].  (Nothing is claimed when a generated name coincides with a name
   the body uses - then [fixes_names] forces [f] to fix it too: known finding
   C18-generated-name-capture, witness below.) *)
Theorem C18_desugar_is_expand_up_to_alpha :
  forall (f : string -> string) (lib : file_library) ts m l scope b,
    Forall wf_node (stmt_exprs (Block m l)) ->
    Forall short_node (sub_stmts (Block m l)) ->
    fixes_names f (Block m l) ->
    (forall mm k x, name_opt lib "anon_var" mm = Some k -> f x = f k -> x = k) ->
    desugar_template (env_of ts) lib (Block m l) = DOk b ->
    inj_on f (scope ++ stmt_names b) ->
    expand_spec (sig_table ts) (fun id mm => option_map f (name_opt lib id mm))
                (fun mm => option_map f (name_opt lib "anon_var" mm)) (Block m l) = Some (ren_s f b) /\
    exists g, (forall x, In x (scope ++ stmt_names b) -> g (f x) = x) /\ ren_s g (ren_s f b) = b.
Proof. exact desugar_is_expand_up_to_alpha. Qed.
Print Assumptions C18_desugar_is_expand_up_to_alpha.

(* ---- hypotheses are satisfiable / the definitions compute ------------------ *)

Definition m0 (a b : N) : meta := Meta a b (Some 0%N).
Definition var (a b : N) (n : string) : expression := Variable_ (m0 a b) n [].

(* template A { signal input x; signal output y; }   body: (c, _) <== (A()(a), b); *)
Definition ex_env : tenv := [("A", TemplateInfo [("x", 0)] [("y", 0)])].
Definition ex_body : statement :=
  Block (m0 0 60)
    [MultiSubstitution (m0 10 40)
       (Tuple (m0 10 16) [var 11 12 "c"; var 14 15 "_"]) AssignConstraintSignal
       (Tuple (m0 21 40) [AnonymousComponent (m0 22 30) "A" false [] [var 27 28 "a"] None; var 33 34 "b"])].

Example C18_example_desugars :
  desugar_template ex_env [[0%N; 8%N]] ex_body =
  DOk (Block (m0 0 60)
         [InitializationBlock (m0 0 60) VVar [];
          InitializationBlock (m0 0 60) VComponent [Declaration (m0 22 30) VComponent "A_2_22" [] true];
          Block (m0 10 40)
            [Block (m0 22 30)
               [Substitution (m0 22 30) "A_2_22" [] AssignVar (Call (m0 22 30) "A" []);
                Substitution (m0 22 30) "A_2_22" [ComponentAccess "x"] AssignConstraintSignal (var 27 28 "a")];
             Block (m0 10 40)
               [Substitution (m0 11 12) "c" [] AssignConstraintSignal
                  (Variable_ (m0 22 30) "A_2_22" [ComponentAccess "y"])]]]).
Proof. vm_compute. reflexivity. Qed.

Example C18_example_wellformed : wf_template [[0%N; 8%N]] ex_body.
Proof.
  unfold wf_template. repeat split.
  - vm_compute. repeat constructor; (exists 0%N; split; [reflexivity | discriminate]).
  - vm_compute. repeat constructor.
  - vm_compute. repeat constructor.
  - eexists; eexists; reflexivity.
Qed.

(* the same through the specification *)
Example C18_example_spec :
  expand_spec (fun id => if String.eqb id "A" then Some (["x"], ["y"]) else None)
              (fun id m => Some (id ++ "_2_22")) (fun _ => Some "k") ex_body =
  match desugar_template ex_env [[0%N; 8%N]] ex_body with DOk b => Some b | _ => None end.
Proof. vm_compute. reflexivity. Qed.

(* the repaired defects: assert argument (D6), lhs index (D8), tuple below an
   operator in log, multi-assignment in a function (D7) are errors, not panics *)
Example C18_D6_assert_tuple :
  exists r, desugar_template [] [[0%N]] (Block (m0 0 9) [Assert (m0 1 8) (Tuple (m0 2 7) [var 3 4 "a"; var 5 6 "a"])]) = DErr r
            /\ r_msg r = MTupleAssert.
Proof. eexists. vm_compute. split; reflexivity. Qed.

Example C18_D8_lhs_index :
  exists r, desugar_template ex_env [[0%N]]
              (Block (m0 0 30) [Substitution (m0 1 20) "arr"
                 [ArrayAccess (AnonymousComponent (m0 5 11) "A" false [] [var 9 10 "a"] None)]
                 AssignConstraintSignal (var 18 19 "a")]) = DErr r /\ r_msg r = MAnonAccess.
Proof. eexists. vm_compute. split; reflexivity. Qed.

Example C18_log_nested_tuple :
  exists r, desugar_template [] [[0%N]]
              (Block (m0 0 30) [LogCall (m0 1 20)
                 [LogExp (InfixOp (m0 5 15) (Number (m0 5 6) 1) IAdd (Tuple (m0 9 15) [var 10 11 "a"; var 12 13 "a"]))]]) = DErr r
            /\ r_msg r = MTupleArith.
Proof. eexists. vm_compute. split; reflexivity. Qed.

Example C18_D7_function_multisub :
  exists r, check_function (Block (m0 0 30) [MultiSubstitution (m0 2 7) (Number (m0 2 3) 1) AssignVar (Number (m0 6 7) 2);
                                             Return (m0 9 18) (Number (m0 16 17) 0)]) = DOk (Some [r])
            /\ r_msg r = MFunMultiSub.
Proof. eexists. vm_compute. split; reflexivity. Qed.

(* the renaming theorems on the worked example: a programmer who calls
   the component `cx` writes exactly the renamed output of the desugarer *)
Definition ex_f (x : string) : string := if String.eqb x "A_2_22" then "cx" else x.

Example C18_example_fixes_names : fixes_names ex_f ex_body.
Proof.
  unfold fixes_names. vm_compute. intros x H.
  repeat (destruct H as [<-|H]; [reflexivity|]). destruct H.
Qed.

Example C18_example_counters_separate :
  forall (m : meta) k x, (fun _ : meta => Some "k") m = Some k -> ex_f x = ex_f k -> x = k.
Proof.
  intros m k x E. inversion E; subst. unfold ex_f. cbn [String.eqb Ascii.eqb Bool.eqb].
  destruct (String.eqb_spec x "A_2_22") as [->|Hne]; [discriminate | auto].
Qed.

(* ... and [ex_f] meets the injectivity hypothesis of the alpha theorems on the
   desugarer's output (scope: a parameter `n`) *)
Example C18_example_injective :
  match to_opt (desugar_template ex_env [[0%N; 8%N]] ex_body) with
  | Some b => inj_on ex_f (["n"] ++ stmt_names b)
  | None => False
  end.
Proof.
  vm_compute. intros x y Hx Hy.
  repeat (destruct Hx as [<-|Hx]; [repeat (destruct Hy as [<-|Hy]; [vm_compute; try reflexivity; discriminate|]); destruct Hy|]).
  destruct Hx.
Qed.

(* the renaming that [fixes_names] alone lets through and [inj_on] excludes: the
   generated name sent onto the body's own signal `a` merges the component with it *)
Definition ex_f_merge (x : string) : string := if String.eqb x "A_2_22" then "a" else x.

Example C18_example_merging_renaming :
  fixes_names ex_f_merge ex_body /\
  match to_opt (desugar_template ex_env [[0%N; 8%N]] ex_body) with
  | Some b => ~ inj_on ex_f_merge (stmt_names b)
  | None => False
  end.
Proof.
  split.
  - unfold fixes_names. vm_compute. intros x H.
    repeat (destruct H as [<-|H]; [reflexivity|]). destruct H.
  - vm_compute. intros Hinj.
    assert (E : "A_2_22" = "a"); [|discriminate E].
    apply Hinj; [| |reflexivity]; auto 20.
Qed.

Example C18_example_hand_names :
  expand_spec (fun id => if String.eqb id "A" then Some (["x"], ["y"]) else None)
              (fun id m => Some "cx") (fun _ => Some "k") ex_body =
  option_map (ren_s ex_f) (to_opt (desugar_template ex_env [[0%N; 8%N]] ex_body)).
Proof. vm_compute. reflexivity. Qed.

Example C18_example_hand_names_differ :
  option_map (ren_s ex_f) (to_opt (desugar_template ex_env [[0%N; 8%N]] ex_body)) <>
  to_opt (desugar_template ex_env [[0%N; 8%N]] ex_body).
Proof. vm_compute. discriminate. Qed.

(* KNOWN FINDING C18-generated-name-capture (witness).  The implementation's names
   `<id>_<line>_<start>` are ordinary identifiers, so a body may itself use one: here
   the body also declares a variable `A_2_22`.  The desugarer accepts it and declares
   `A_2_22` a second time (as the component), whereas an expansion written by hand
   with a fresh name declares every name once.  No renaming with [fixes_names] can
   separate the two, so C18_desugar_is_expand_up_to_alpha says nothing beyond
   C18_desugar_is_expand for such bodies. *)
Definition ex_body_capture : statement :=
  match ex_body with
  | Block m l => Block m (l ++ [Declaration (m0 42 55) VVar "A_2_22" [] false])
  | s => s
  end.

Definition declared (s : statement) : list string :=
  flat_map (fun t => match t with Declaration _ _ n _ _ => [n] | _ => [] end) (sub_stmts s).

Example C18_name_capture_refuted :
  wf_template [[0%N; 8%N]] ex_body_capture /\
  name_opt [[0%N; 8%N]] "A" (m0 22 30) = Some "A_2_22" /\
  In "A_2_22" (stmt_names ex_body_capture) /\
  option_map declared (to_opt (desugar_template ex_env [[0%N; 8%N]] ex_body_capture)) = Some ["A_2_22"; "A_2_22"] /\
  option_map declared (expand_spec (fun id => if String.eqb id "A" then Some (["x"], ["y"]) else None)
                                   (fun id m => Some "cx") (fun _ => Some "k") ex_body_capture) = Some ["cx"; "A_2_22"].
Proof.
  split; [|split; [|split; [|split]]].
  - unfold wf_template. repeat split.
    + vm_compute. repeat constructor; (exists 0%N; split; [reflexivity | discriminate]).
    + vm_compute. repeat constructor.
    + vm_compute. repeat constructor.
    + eexists; eexists; reflexivity.
  - vm_compute. reflexivity.
  - vm_compute. auto 10.
  - vm_compute. reflexivity.
  - vm_compute. reflexivity.
Qed.
