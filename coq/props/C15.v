(* C15 — placeholder while the proofs are being developed. *)
Require Import Model.Dom Spec.DomSpec.
