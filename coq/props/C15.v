(* C15 — dominators, immediate dominators, dominator-tree children and
   dominance frontiers computed by (the mirror of) `DominatorTree::new` match
   their path-based definitions, for every rooted digraph, every iteration
   order of the candidate set, with the stated fuel; no panic site is reached.
   Property theorems only: each is closed by [exact] of a lemma of
   Proofs.DomProofs, followed by Print Assumptions. *)
From stdpp Require Import list.
Require Import Model.Dom Spec.DomSpec Spec.DomFast Proofs.DomProofs Proofs.DomOracle Proofs.DomFastProofs.

(* the `while !done` loop ends within |g|^2 + 1 passes *)
Theorem C15_dom_fuel_suffices : forall g,
  rooted g -> exists D, compute_dominators (dom_fuel g) g = Ok D /\ length D = length g.
Proof. exact dom_fuel_suffices. Qed.
Print Assumptions C15_dom_fuel_suffices.

(* DominatorTree::new returns: neither assert fires, no index is out of range,
   neither loop runs out of the stated fuel — for every hash order *)
Theorem C15_no_panic : forall g ord,
  rooted g -> order_ok ord ->
  exists t, dominator_tree (dom_fuel g) ord g = Ok t /\
    length (dt_dominators t) = length g /\ length (dt_idom t) = length g /\
    length (dt_children t) = length g /\ length (dt_frontier t) = length g.
Proof. exact dominator_tree_no_panic. Qed.
Print Assumptions C15_no_panic.

(* the computed dominator set of j is exactly the set of nodes on every
   entry-to-j path *)
Theorem C15_dominators_exact : forall g ord t j dj i,
  rooted g -> order_ok ord -> dominator_tree (dom_fuel g) ord g = Ok t ->
  dt_dominators t !! j = Some dj ->
  (mem i dj = true <-> dom g i j).
Proof. intros g ord t j dj i Hg Hord Ht. exact (dominators_exact g ord t Hg Hord Ht j dj i). Qed.
Print Assumptions C15_dominators_exact.

(* the computed immediate dominator is the closest strict dominator ... *)
Theorem C15_idom_exact : forall g ord t i o j,
  rooted g -> order_ok ord -> dominator_tree (dom_fuel g) ord g = Ok t ->
  dt_idom t !! i = Some o ->
  (o = Some j <-> idom_spec g j i).
Proof. intros g ord t i o j Hg Hord Ht. exact (idom_exact g ord t Hg Hord Ht i o j). Qed.
Print Assumptions C15_idom_exact.

(* ... which is unique ... *)
Theorem C15_idom_unique : forall g a b i,
  rooted g -> i < length g -> idom_spec g a i -> idom_spec g b i -> a = b.
Proof. exact idom_spec_unique. Qed.
Print Assumptions C15_idom_unique.

(* ... and exists for every node except the entry *)
Theorem C15_idom_total : forall g ord t i o,
  rooted g -> order_ok ord -> dominator_tree (dom_fuel g) ord g = Ok t ->
  dt_idom t !! i = Some o ->
  (o = None <-> i = 0).
Proof. intros g ord t i o Hg Hord Ht. exact (idom_total g ord t Hg Hord Ht i o). Qed.
Print Assumptions C15_idom_total.

(* the dominator-tree children invert the immediate dominators *)
Theorem C15_dom_tree_children_invert_idom : forall g ord t j cj i,
  rooted g -> order_ok ord -> dominator_tree (dom_fuel g) ord g = Ok t ->
  dt_children t !! j = Some cj -> i < length g ->
  (mem i cj = true <-> dt_idom t !! i = Some (Some j)).
Proof. intros g ord t j cj i Hg Hord Ht. exact (children_invert_idom g ord t Hg Hord Ht j cj i). Qed.
Print Assumptions C15_dom_tree_children_invert_idom.

(* the dominance frontier of i is exactly the set of j such that i dominates
   a predecessor of j but does not strictly dominate j *)
Theorem C15_frontier_exact : forall g ord t i fi j,
  rooted g -> order_ok ord -> dominator_tree (dom_fuel g) ord g = Ok t ->
  dt_frontier t !! i = Some fi ->
  (mem j fi = true <-> df_spec g i j).
Proof. intros g ord t i fi j Hg Hord Ht. exact (frontier_exact g ord t Hg Hord Ht i fi j). Qed.
Print Assumptions C15_frontier_exact.

(* the executable rootedness test used to filter the enumerated graphs *)
Theorem C15_rooted_b_sound : forall g, rooted_b g = true -> rooted g.
Proof. exact rooted_b_sound. Qed.
Print Assumptions C15_rooted_b_sound.

(* [third audit] ... and it drops no graph of the property's domain: the
   exhaustive sweep, which lists the graphs [rooted_b] accepts, covers every
   rooted digraph of its size *)
Theorem C15_rooted_b_complete : forall g, rooted g -> rooted_b g = true.
Proof. exact rooted_b_complete. Qed.
Print Assumptions C15_rooted_b_complete.

(* [third audit] the hypothesis [rooted g] as the check evaluates it on every
   explored graph outside the sweep (bit-mask reachability, affordable on
   graphs with hundreds of nodes) is exactly [rooted g] *)
Theorem C15_rooted_fast_b_exact : forall g, rooted_fast_b g = true <-> rooted g.
Proof. exact rooted_fast_b_iff. Qed.
Print Assumptions C15_rooted_fast_b_exact.

(* [third audit] the children sets hold block indices only (no hypothesis on
   the graph: whenever the mirror returns) ... *)
Theorem C15_children_in_range : forall g ord t j cj i,
  dominator_tree (dom_fuel g) ord g = Ok t ->
  dt_children t !! j = Some cj -> mem i cj = true -> i < length g.
Proof. exact children_in_range. Qed.
Print Assumptions C15_children_in_range.

(* ... so the children invert the immediate dominators for EVERY member, not
   only for members below the node count as in
   C15_dom_tree_children_invert_idom ... *)
Theorem C15_dom_tree_children_invert_idom_all : forall g ord t j cj i,
  rooted g -> order_ok ord -> dominator_tree (dom_fuel g) ord g = Ok t ->
  dt_children t !! j = Some cj ->
  (mem i cj = true <-> dt_idom t !! i = Some (Some j)).
Proof. exact children_invert_idom_all. Qed.
Print Assumptions C15_dom_tree_children_invert_idom_all.

(* ... and the children sets partition the nodes other than the entry (what
   the pre-order walk of into_ssa relies on to visit every block once) *)
Theorem C15_children_partition : forall g ord t i,
  rooted g -> order_ok ord -> dominator_tree (dom_fuel g) ord g = Ok t ->
  0 < i < length g ->
  exists j cj, dt_children t !! j = Some cj /\ mem i cj = true /\
    forall j' cj', dt_children t !! j' = Some cj' -> mem i cj' = true -> j' = j.
Proof. exact children_partition. Qed.
Print Assumptions C15_children_partition.

(* the executable oracle of the violation search (dominance by deleting a node
   and testing reachability) decides the path definition ... *)
Theorem C15_dom_by_deletion_correct : forall g i j,
  rooted g -> j < length g -> (dom_by_deletion g i j = true <-> dom g i j).
Proof. exact dom_by_deletion_correct. Qed.
Print Assumptions C15_dom_by_deletion_correct.

(* ... and the four tables the engine prints on the spec side are exactly the
   definitions (so "implementation = spec side" on a rooted graph IS the
   property for that graph) *)
Theorem C15_spec_view_correct : forall g,
  rooted g ->
  let n := length g in
  let T := avoid_table g in
  (forall j i, j < n -> (i ∈ spec_dominators n T !!! j <-> dom g i j)) /\
  (forall j i, j < n -> (i ∈ spec_idom n T !!! j <-> idom_spec g i j)) /\
  (forall i j, i < n -> j < n -> (j ∈ spec_children n (spec_idom n T) !!! i <-> idom_spec g i j)) /\
  (forall i j, i < n -> (j ∈ spec_frontier g T !!! i <-> df_spec g i j)).
Proof. exact spec_view_correct. Qed.
Print Assumptions C15_spec_view_correct.

(* the hypotheses are satisfiable: an irreducible graph with a self loop is
   rooted, the three orders used by the engine are orders *)
Example C15_rooted_example :
  rooted (mk_graph 5 [(0,1);(0,2);(1,3);(2,3);(3,1);(3,4);(4,4);(1,2);(2,1)]).
Proof. apply rooted_b_sound. vm_compute. reflexivity. Qed.
(* the mirror, evaluated inside Coq on that graph, returns the oracle's tables *)
Example C15_mirror_runs :
  let es := [(0,1);(0,2);(1,3);(2,3);(3,1);(3,4);(4,4);(1,2);(2,1)] in
  run_mirror rev_order 5 es = Ok (spec_view (mk_graph 5 es)).
Proof. vm_compute. reflexivity. Qed.
Example C15_rooted_fast_example :
  rooted_fast_b (mk_graph 5 [(0,1);(0,2);(1,3);(2,3);(3,1);(3,4);(4,4);(1,2);(2,1)]) = true /\
  rooted_fast_b (mk_graph 4 [(1,2);(2,3);(3,1)]) = false.
Proof. vm_compute. split; reflexivity. Qed.
Example C15_orders_ok : order_ok id_order /\ order_ok rev_order /\ order_ok rot_order.
Proof. exact orders_ok. Qed.
