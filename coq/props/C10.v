(* C10 -- names resolve by lexical scope, and every shadowing declaration is
   reported.  Property theorems only: each is closed by [exact] of a lemma of
   Proofs.UniqueVarsProofs, followed by Print Assumptions.

   Model.UniqueVars mirrors ensure_unique_variables (unique_vars.rs) on the
   named projection of the AST; Spec.ScopeSpec is the lexical scope resolver:
   [resolve_def params ploc body] lists every variable occurrence in visit
   order with the index k of the declaration of its name it denotes ("the
   k-th declaration of n", parameters first) and lists the redeclarations of
   visible names with the declaration they shadow.  The resolver is a static
   environment that is thrown away at the end of every block, loop body and
   branch; it does not copy how the pass treats a loop body or a branch that is
   not a block.  [branch_closed body] is the shape of every parsed program (no
   loop body or branch declares a name outside a block of its own: a
   declaration is only derivable inside braces and in a `for` header) and the
   domain of the two theorems that compare the pass with the resolver;
   C10_branch_closed_is_needed shows they fail outside it.  [vname_of n k] is
   n for k = 0 and n.(k-1) otherwise.

   The key of the SSA version maps (Environment::version_key, private) is a
   transcription, Model.UniqueVars.ssa_key; it is tied to the code through the
   behaviour of into_ssa on every run (two (name, suffix) pairs that share a key
   share a version counter: lib/props/C10.py ssa_failures), and read from the
   text of ssa_impl.rs by a lint outside these obligations (c10key.py). *)
From Coq Require Import List NArith.
Require Import Model.Base Model.Ir Model.UniqueVars Spec.ScopeSpec Proofs.ScopeStack Proofs.UniqueVarsProofs Proofs.ScopeBridge Proofs.UniqueVarsTable.
Import ListNotations.

(* every occurrence (declaration, assignment target, use) is renamed to the
   name of exactly the declaration the resolver assigns to it; an occurrence
   of an undeclared name is left alone *)
Theorem C10_renaming_preserves_binding : forall params ploc body body' reports,
  ensure_unique_variables params ploc body = Renamed body' reports ->
  branch_closed body = true ->
  occs body' = map ren_of (fst (resolve_def params ploc body)).
Proof. exact renaming_preserves_binding_spec. Qed.
Print Assumptions C10_renaming_preserves_binding.

(* distinct declaration occurrences (parameters included) lift to distinct
   (name, suffix) pairs, and every renamed name lifts *)
Theorem C10_renaming_injective_on_declarations : forall params ploc body body' reports,
  ensure_unique_variables params ploc body = Renamed body' reports ->
  Forall nodot (params ++ declared body) ->
  NoDup (map lift_name (params ++ decl_names (occs body'))) /\
  Forall (fun n => lift_name n <> None) (params ++ decl_names (occs body')).
Proof. exact renaming_injective_on_declarations. Qed.
Print Assumptions C10_renaming_injective_on_declarations.

(* the reports pushed are, in order, exactly the declarations that redeclare a
   visible name: primary location the redeclaration, secondary location the
   declaration it shadows *)
Theorem C10_shadowing_reports_exact : forall params ploc body body' reports,
  ensure_unique_variables params ploc body = Renamed body' reports ->
  branch_closed body = true ->
  reports = map report_of (snd (resolve_def params ploc body)).
Proof. exact shadowing_reports_exact_spec. Qed.
Print Assumptions C10_shadowing_reports_exact.

(* a parameter list is rejected exactly when a name repeats, and the error
   names the first repeated parameter *)
Theorem C10_duplicate_parameters_reported : forall params ploc ss,
  (NoDup params -> exists body' reports,
     ensure_unique_variables params ploc (UBlock ss) = Renamed body' reports) /\
  (~ NoDup params -> exists l1 p l2,
     params = l1 ++ p :: l2 /\ NoDup l1 /\ In p l1 /\
     ensure_unique_variables params ploc (UBlock ss) = Collision (ParamCollision p ploc)).
Proof. exact duplicate_parameters_reported. Qed.
Print Assumptions C10_duplicate_parameters_reported.

(* neither assert of environment.rs can fire on a function or template body *)
Theorem C10_pass_never_panics : forall params ploc ss site,
  ensure_unique_variables params ploc (UBlock ss) <> Panicked site.
Proof. exact pass_never_panics. Qed.
Print Assumptions C10_pass_never_panics.

(* the split of lifting.rs inverts the join of the renaming pass *)
Theorem C10_lifted_names_roundtrip : forall v,
  vn_version v = None -> nodot (vn_name v) ->
  (forall s, vn_suffix v = Some s -> nodot s) ->
  lift_name (join_name v) = Some v.
Proof. exact lifted_names_roundtrip. Qed.
Print Assumptions C10_lifted_names_roundtrip.

(* the `Declarations` table of the CFG header as control_flow_graph/lifting.rs
   builds it, BEFORE into_ssa (one add_declaration per parameter and per
   Declaration statement of the renamed body, keyed by the lifted name;
   declarations.rs asserts that no key is inserted twice): on the output of the
   pass it is built without that assert firing and without an invalid name, has
   one row per parameter and declaration under pairwise different keys, and
   get_declaration answers for the lifted name of a DECLARATION with the
   location and kind of that declaration (for a parameter: the parameter list,
   a local variable).  This is the table into_ssa's `is_local` consults.
   Not stated here: (1) the composite "a USE the resolver assigns to the k-th
   declaration of n is looked up as that declaration" -- C10_renaming_preserves_
   binding gives the use the NAME of that declaration, this theorem the row of
   every declaration's name, but nothing links the resolver's index k with the
   location carried by the Declaration statement; the oracle clause `dcl` of
   lib/props/C10.py judges it on every generated case.  (2) The table the
   analysis passes see: into_ssa replaces this table by one keyed WITH versions
   (ssa_impl.rs update_declarations) while get_declaration still strips the
   version; that table is not modelled (oracle clauses `tab2`, `d=`, `dcl2`). *)
Theorem C10_declaration_table_keyed_by_declaration : forall params ploc body body' reports,
  ensure_unique_variables params ploc body = Renamed body' reports ->
  Forall nodot (params ++ declared body) ->
  exists t,
    build_table params ploc body' = Ok (Some t) /\
    length t = length params + length (decl_entries body') /\
    NoDup (map fst t) /\
    (forall p, In p params -> get_declaration_of (vname_plain p) t = Some (ploc, KVar)) /\
    (forall n d v, In (n, d) (decl_entries body') -> lift_name n = Some v -> get_declaration_of v t = Some d).
Proof. exact declaration_table_keyed_by_declaration. Qed.
Print Assumptions C10_declaration_table_keyed_by_declaration.

(* identifiers of the grammar contain no `.` *)
Theorem C10_identifiers_have_no_dot : forall n, ident_ok n = true -> nodot n.
Proof. exact ident_ok_nodot. Qed.
Print Assumptions C10_identifiers_have_no_dot.

(* outside [branch_closed] the pass is NOT the scoping rule: on
     { var x; if (..) var x; else log(x); log(x); }
   (not derivable in Circom) the declaration of the then-branch reaches the
   else-branch and the code after the `if`.  What the pass computes there is the
   block-only resolver of the simulation proof, Proofs.ScopeStack. *)
Theorem C10_branch_closed_is_needed : exists body body' reports,
  branch_closed body = false /\
  ensure_unique_variables [] (0, 0) body = Renamed body' reports /\
  occs body' <> map ren_of (fst (resolve_def [] (0, 0) body)) /\
  occs body' = map ren_of (fst (stk_resolve_def [] (0, 0) body)).
Proof. exact unbraced_declaration_leaks. Qed.
Print Assumptions C10_branch_closed_is_needed.

(* a key format -- without a suffix: the name; with one: the name, a literal
   whose first byte is no identifier character, the suffix -- identifies the
   pair (name, suffix) *)
Theorem C10_separating_key_formats_injective : forall some none,
  key_format_ok some none = true ->
  forall v1 v2,
  ident_ok (vn_name v1) = true -> ident_ok (vn_name v2) = true ->
  ssa_key_with some none v1 = ssa_key_with some none v2 ->
  vn_name v1 = vn_name v2 /\ vn_suffix v1 = vn_suffix v2.
Proof. exact separating_key_formats_injective. Qed.
Print Assumptions C10_separating_key_formats_injective.

(* the format of Model.UniqueVars.ssa_key (`name` / `name.suffix`) is one, hence
   the key of the SSA version maps (after the repair of D20) identifies the
   pair (name, suffix) *)
Theorem C10_ssa_keys_injective : forall v1 v2,
  ident_ok (vn_name v1) = true -> ident_ok (vn_name v2) = true ->
  ssa_key v1 = ssa_key v2 ->
  vn_name v1 = vn_name v2 /\ vn_suffix v1 = vn_suffix v2.
Proof. exact ssa_keys_injective. Qed.
Print Assumptions C10_ssa_keys_injective.

(* D20 (repaired by the fix: commit): the printed form used as key before did not *)
Theorem C10_ssa_keys_injective_refuted : exists v1 v2,
  ident_ok (vn_name v1) = true /\ ident_ok (vn_name v2) = true /\
  ssa_key_old v1 = ssa_key_old v2 /\
  (vn_name v1, vn_suffix v1) <> (vn_name v2, vn_suffix v2).
Proof. exact ssa_keys_injective_refuted. Qed.
Print Assumptions C10_ssa_keys_injective_refuted.

(* non-vacuity: the witness of D20,
     function f(a) { var x = a; var x_0 = 1; { var x = 2; x_0 = x + x_0; } return x + x_0; }
   is renamed to x, x_0, x.0; one shadowing report; the lifted names are
   pairwise distinct although `x` with suffix 0 prints like the identifier x_0 *)
Definition nx : name := [120%N].
Definition nx0 : name := [120%N; 95%N; 48%N].
Definition na : name := [97%N].
Definition d20 : ustmt :=
  UBlock [UInit [UDecl KVar nx (20, 29) []; USubst nx [na]];
          UInit [UDecl KVar nx0 (35, 46) []; USubst nx0 []];
          UBlock [UInit [UDecl KVar nx (62, 71) []; USubst nx []]; USubst nx0 [nx; nx0]];
          UExpr EReturn [nx; nx0]].

Example C10_witness :
  exists body',
    ensure_unique_variables [na] (11, 12) d20 = Renamed body' [Shadowing nx (62, 71) (20, 29)] /\
    decl_names (occs body') = [nx; nx0; nx ++ [46%N; 48%N]] /\
    map lift_name (decl_names (occs body')) =
      [Some (lifted_of nx 0); Some (lifted_of nx0 0); Some (lifted_of nx 1)] /\
    ssa_key_old (lifted_of nx0 0) = ssa_key_old (lifted_of nx 1) /\
    ssa_key (lifted_of nx0 0) <> ssa_key (lifted_of nx 1) /\
    branch_closed d20 = true /\
    Forall nodot ([na] ++ declared d20).
Proof.
  eexists. split; [vm_compute; reflexivity|]. split; [vm_compute; reflexivity|].
  split; [vm_compute; reflexivity|]. split; [vm_compute; reflexivity|].
  split; [vm_compute; discriminate|]. split; [reflexivity|].
  repeat constructor; unfold nodot; vm_compute; intuition discriminate.
Qed.

(* key_format_ok rejects the formats that collide: nothing, `_` or `$` between
   name and suffix identify x + suffix 0 with the identifiers x0, x_0, x$0 *)
Definition nx0' : name := [120%N; 48%N].
Definition nxd0 : name := [120%N; 36%N; 48%N].
Example C10_colliding_key_formats :
  key_format_ok [KName; KSuffix] [KName] = false /\
  key_format_ok [KName; KLit [95%N]; KSuffix] [KName] = false /\
  key_format_ok [KName; KLit [36%N]; KSuffix] [KName] = false /\
  ssa_key_with [KName; KSuffix] [KName] (lifted_of nx 1) = ssa_key_with [KName; KSuffix] [KName] (lifted_of nx0' 0) /\
  ssa_key_with [KName; KLit [95%N]; KSuffix] [KName] (lifted_of nx 1) = ssa_key_with [KName; KLit [95%N]; KSuffix] [KName] (lifted_of nx0 0) /\
  ssa_key_with [KName; KLit [36%N]; KSuffix] [KName] (lifted_of nx 1) = ssa_key_with [KName; KLit [36%N]; KSuffix] [KName] (lifted_of nxd0 0) /\
  ident_ok nx = true /\ ident_ok nx0' = true /\ ident_ok nx0 = true /\ ident_ok nxd0 = true.
Proof. repeat split; vm_compute; reflexivity. Qed.

(* the table of the same witness: four rows; the inner x (renamed x.0) is found
   under (x, suffix 0) with its own location, the outer x under (x, no suffix) *)
Example C10_witness_table :
  exists body' t,
    ensure_unique_variables [na] (11, 12) d20 = Renamed body' [Shadowing nx (62, 71) (20, 29)] /\
    build_table [na] (11, 12) body' = Ok (Some t) /\ length t = 4 /\
    get_declaration_of (lifted_of nx 1) t = Some ((62, 71), KVar) /\
    get_declaration_of (lifted_of nx 0) t = Some ((20, 29), KVar) /\
    get_declaration_of (lifted_of na 0) t = Some ((11, 12), KVar).
Proof. eexists. eexists. repeat split; vm_compute; reflexivity. Qed.

Example C10_duplicate_parameter :
  ensure_unique_variables [na; nx; na] (11, 18) d20 = Collision (ParamCollision na (11, 18)).
Proof. vm_compute. reflexivity. Qed.
