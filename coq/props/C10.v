(* C10 -- names resolve by lexical scope, and every shadowing declaration is
   reported.  Property theorems only: each is closed by [exact] of a lemma of
   Proofs.UniqueVarsProofs, followed by Print Assumptions.

   Model.UniqueVars mirrors ensure_unique_variables (unique_vars.rs) on the
   named projection of the AST; Spec.ScopeSpec is the lexical scope resolver:
   [resolve_def params ploc body] lists every variable occurrence in visit
   order with the index k of the declaration of its name it denotes ("the
   k-th declaration of n", parameters first) and lists the redeclarations of
   visible names with the declaration they shadow.  [vname_of n k] is n for
   k = 0 and n.(k-1) otherwise. *)
From Coq Require Import List NArith.
Require Import Model.Base Model.Ir Model.UniqueVars Spec.ScopeSpec Proofs.UniqueVarsProofs.
Import ListNotations.

(* every occurrence (declaration, assignment target, use) is renamed to the
   name of exactly the declaration the resolver assigns to it; an occurrence
   of an undeclared name is left alone *)
Theorem C10_renaming_preserves_binding : forall params ploc body body' reports,
  ensure_unique_variables params ploc body = Renamed body' reports ->
  occs body' = map ren_of (fst (resolve_def params ploc body)).
Proof. exact renaming_preserves_binding. Qed.
Print Assumptions C10_renaming_preserves_binding.

(* distinct declaration occurrences (parameters included) lift to distinct
   (name, suffix) pairs, and every renamed name lifts *)
Theorem C10_renaming_injective_on_declarations : forall params ploc body body' reports,
  ensure_unique_variables params ploc body = Renamed body' reports ->
  Forall nodot (params ++ declared body) ->
  NoDup (map lift_name (params ++ decl_names (occs body'))) /\
  Forall (fun n => lift_name n <> None) (params ++ decl_names (occs body')).
Proof. exact renaming_injective_on_declarations. Qed.
Print Assumptions C10_renaming_injective_on_declarations.

(* the reports pushed are, in order, exactly the declarations that redeclare a
   visible name: primary location the redeclaration, secondary location the
   declaration it shadows *)
Theorem C10_shadowing_reports_exact : forall params ploc body body' reports,
  ensure_unique_variables params ploc body = Renamed body' reports ->
  reports = map report_of (snd (resolve_def params ploc body)).
Proof. exact shadowing_reports_exact. Qed.
Print Assumptions C10_shadowing_reports_exact.

(* a parameter list is rejected exactly when a name repeats, and the error
   names the first repeated parameter *)
Theorem C10_duplicate_parameters_reported : forall params ploc ss,
  (NoDup params -> exists body' reports,
     ensure_unique_variables params ploc (UBlock ss) = Renamed body' reports) /\
  (~ NoDup params -> exists l1 p l2,
     params = l1 ++ p :: l2 /\ NoDup l1 /\ In p l1 /\
     ensure_unique_variables params ploc (UBlock ss) = Collision (ParamCollision p ploc)).
Proof. exact duplicate_parameters_reported. Qed.
Print Assumptions C10_duplicate_parameters_reported.

(* neither assert of environment.rs can fire on a function or template body *)
Theorem C10_pass_never_panics : forall params ploc ss site,
  ensure_unique_variables params ploc (UBlock ss) <> Panicked site.
Proof. exact pass_never_panics. Qed.
Print Assumptions C10_pass_never_panics.

(* the split of lifting.rs inverts the join of the renaming pass *)
Theorem C10_lifted_names_roundtrip : forall v,
  vn_version v = None -> nodot (vn_name v) ->
  (forall s, vn_suffix v = Some s -> nodot s) ->
  lift_name (join_name v) = Some v.
Proof. exact lifted_names_roundtrip. Qed.
Print Assumptions C10_lifted_names_roundtrip.

(* identifiers of the grammar contain no `.` *)
Theorem C10_identifiers_have_no_dot : forall n, ident_ok n = true -> nodot n.
Proof. exact ident_ok_nodot. Qed.
Print Assumptions C10_identifiers_have_no_dot.

(* the key of the SSA version maps (after the repair of D20) identifies the
   pair (name, suffix) *)
Theorem C10_ssa_keys_injective : forall v1 v2,
  nodot (vn_name v1) -> nodot (vn_name v2) ->
  ssa_key v1 = ssa_key v2 ->
  vn_name v1 = vn_name v2 /\ vn_suffix v1 = vn_suffix v2.
Proof. exact ssa_keys_injective. Qed.
Print Assumptions C10_ssa_keys_injective.

(* D20 (repaired by the fix: commit): the printed form used as key before did not *)
Theorem C10_ssa_keys_injective_refuted : exists v1 v2,
  ident_ok (vn_name v1) = true /\ ident_ok (vn_name v2) = true /\
  ssa_key_old v1 = ssa_key_old v2 /\
  (vn_name v1, vn_suffix v1) <> (vn_name v2, vn_suffix v2).
Proof. exact ssa_keys_injective_refuted. Qed.
Print Assumptions C10_ssa_keys_injective_refuted.

(* non-vacuity: the witness of D20,
     function f(a) { var x = a; var x_0 = 1; { var x = 2; x_0 = x + x_0; } return x + x_0; }
   is renamed to x, x_0, x.0; one shadowing report; the lifted names are
   pairwise distinct although `x` with suffix 0 prints like the identifier x_0 *)
Definition nx : name := [120%N].
Definition nx0 : name := [120%N; 95%N; 48%N].
Definition na : name := [97%N].
Definition d20 : ustmt :=
  UBlock [UInit [UDecl KVar nx (20, 29) []; USubst nx [na]];
          UInit [UDecl KVar nx0 (35, 46) []; USubst nx0 []];
          UBlock [UInit [UDecl KVar nx (62, 71) []; USubst nx []]; USubst nx0 [nx; nx0]];
          UExpr EReturn [nx; nx0]].

Example C10_witness :
  exists body',
    ensure_unique_variables [na] (11, 12) d20 = Renamed body' [Shadowing nx (62, 71) (20, 29)] /\
    decl_names (occs body') = [nx; nx0; nx ++ [46%N; 48%N]] /\
    map lift_name (decl_names (occs body')) =
      [Some (lifted_of nx 0); Some (lifted_of nx0 0); Some (lifted_of nx 1)] /\
    ssa_key_old (lifted_of nx0 0) = ssa_key_old (lifted_of nx 1) /\
    ssa_key (lifted_of nx0 0) <> ssa_key (lifted_of nx 1) /\
    Forall nodot ([na] ++ declared d20).
Proof.
  eexists. split; [vm_compute; reflexivity|]. split; [vm_compute; reflexivity|].
  split; [vm_compute; reflexivity|]. split; [vm_compute; reflexivity|].
  split; [vm_compute; discriminate|].
  repeat constructor; unfold nodot; vm_compute; intuition discriminate.
Qed.

Example C10_duplicate_parameter :
  ensure_unique_variables [na; nx; na] (11, 18) d20 = Collision (ParamCollision na (11, 18)).
Proof. vm_compute. reflexivity. Qed.
