(* C04 — every displayed location is valid and points at the construct it
   talks about.  Property theorems only (each closed by [exact] of a lemma,
   followed by Print Assumptions).

   What is decided here, for ALL inputs:
   (1) offsets in the pre-processed text (what the LALRPOP parser sees) are
       offsets in the file: the six position lemmas of Proofs.PreprocessProofs;
   (2) label construction (Model.Labels, tied to the Rust sources by the table
       Gen.LabelSites regenerated on every run): every label of every modelled
       report constructor carries the range of a node it was handed (statement,
       expression, declaration, parameter list, include statement, definition)
       or a range handed over by the parser, and the file id of such a node;
       whatever holds of the parser's ranges holds of the labels
       (parser_ranges_wellformed is the explicit hypothesis); file-less metas
       (phi statements) never produce a label;
   (3) codespan's offset -> (line, column), as used for the terminal header and
       for both ends of a SARIF region, is the usual notion on the ORIGINAL text:
       lines end at LF, columns count characters (CR, tab, multi-byte = 1).
   (2b) meta provenance: through the desugarer (Proofs.DesugarMetas, C18) and
       through the SSA construction (Proofs.LabelsSsa over the mirror Model.Ssa:
       block i of the SSA form = inserted file-less phis + the statements of
       block i with their metas and kinds, in order).  The lifting mirror
       Model.Lift has no metas: C04_lift_nodes_are_source_nodes is what it says.
   Observed by the engine `locations` (lib/props/C04.py), not proved: that
   LALRPOP's @L/@R are byte offsets on scalar boundaries (parser_ranges_wellformed),
   that into_cfg copies the meta of the AST node onto the IR node it builds
   (provenance clause, node by node), expression metas through SSA (the IR
   mirror has statement metas only), the terminal rendering, and that the text
   under a primary label is the construct the message names.  The extracted
   Model.Labels.location / sarif_region are run against the real FileLibrary /
   sarif_conversion.rs / renderer on bare texts (coq/extract/locations.v and .ml). *)
From Coq Require Import NArith List Bool PeanoNat String.
Require Import Model.Base Model.Ir Model.Preprocess Spec.LexSpec Proofs.PreprocessProofs.
Require Import Model.Labels Gen.LabelSites Proofs.LabelsProofs.
Require Model.Ast Model.Desugar Spec.ExpandSpec Proofs.DesugarMetas Proofs.LabelsDesugar.
Require Import Model.Ssa Spec.MetaSpec.
Require Proofs.LabelsSsa Proofs.LabelsPipeline Model.Lift Spec.CfgSpec.
Import ListNotations.

(* --- (1) the pre-processor keeps every offset ------------------------------ *)

Theorem C04_preprocess_length : forall s t, preprocess s = Ok t -> text_bytes t = text_bytes s.
Proof. exact preprocess_length. Qed.
Print Assumptions C04_preprocess_length.

Theorem C04_preprocess_blanked : forall s t, preprocess s = Ok t -> blanked s t.
Proof. exact preprocess_blanked. Qed.
Print Assumptions C04_preprocess_blanked.

Theorem C04_preprocess_boundaries : forall s t o,
  preprocess s = Ok t -> boundary s o -> boundary t o.
Proof. exact preprocess_boundaries. Qed.
Print Assumptions C04_preprocess_boundaries.

(* a token the parser sees at byte offset o is that text at byte offset o of the file *)
Theorem C04_preprocess_scalar_positions : forall s t o c,
  preprocess s = Ok t -> scalar_at t o c -> c <> 32%N -> scalar_at s o c.
Proof. exact preprocess_scalar_positions. Qed.
Print Assumptions C04_preprocess_scalar_positions.

(* third audit: `o` is pinned - the opener is the one that is not inside a comment ([ends_in_code a]: the text
   before it is code, closed comments and finished line comments), and such an opener is unique, so `/* /* x`
   admits o = 0 only (C05_unclosed_opener_unique, Example C05_nested_opener_pinned) *)
Theorem C04_unclosed_comment_location_is_byte_offset_of_opener : forall s o,
  preprocess s = Err (unclosed o) <->
  exists a c, s = a ++ [47%N; 42%N] ++ c /\ ends_in_code a /\ no_close c /\ o = text_bytes a.
Proof. exact unclosed_comment_at_first_unclosed_opener. Qed.
Print Assumptions C04_unclosed_comment_location_is_byte_offset_of_opener.

Theorem C04_unclosed_comment_range_valid : forall s o,
  preprocess s = Err (unclosed o) ->
  scalar_at s o 47%N /\ scalar_at s (o + 1) 42%N /\
  boundary s o /\ boundary s (o + 2) /\ (o + 2 <= text_bytes s)%nat.
Proof. exact unclosed_comment_range_valid. Qed.
Print Assumptions C04_unclosed_comment_range_valid.

(* --- (2) labels -------------------------------------------------------------- *)

Theorem C04_labels_from_nodes : forall c ls l,
  labels_of (sources_of c) = Ok ls -> In l ls ->
  ((exists m, In m (nodes_of c) /\ l_start l = m_start m /\ l_end l = m_end m) \/
   In (l_start l, l_end l) (parser_ranges_of c)) /\
  ((exists o, In o (nodes_of c) /\ m_file o = Some (l_file l)) \/ guarded_constructor c = false).
Proof. exact labels_from_nodes. Qed.
Print Assumptions C04_labels_from_nodes.

(* hypothesis parser_ranges_wellformed, for an arbitrary property P of ranges *)
Theorem C04_label_wellformed : forall (P : N -> N -> Prop) c ls l,
  (forall m, In m (nodes_of c) -> P (m_start m) (m_end m)) ->
  (forall r, In r (parser_ranges_of c) -> P (fst r) (snd r)) ->
  labels_of (sources_of c) = Ok ls -> In l ls -> P (l_start l) (l_end l).
Proof. exact label_wellformed. Qed.
Print Assumptions C04_label_wellformed.

Theorem C04_label_start_le_end : forall c ls l,
  (forall m, In m (nodes_of c) -> (m_start m <= m_end m)%N) ->
  (forall r, In r (parser_ranges_of c) -> (fst r <= snd r)%N) ->
  labels_of (sources_of c) = Ok ls -> In l ls -> (l_start l <= l_end l)%N.
Proof. exact label_start_le_end. Qed.
Print Assumptions C04_label_start_le_end.

(* with desugar_metas_from_input / lift / SSA provenance as the second hypothesis *)
Theorem C04_labels_wellformed_end_to_end :
  forall (P : N -> N -> Prop) (parsed final : list meta) c ls l,
    (forall m, In m parsed -> P (m_start m) (m_end m)) ->
    (forall m, In m final -> In m parsed \/ (m_start m = 0%N /\ m_end m = 0%N)) ->
    P 0%N 0%N ->
    (forall m, In m (nodes_of c) -> In m final) ->
    (forall r, In r (parser_ranges_of c) -> P (fst r) (snd r)) ->
    labels_of (sources_of c) = Ok ls -> In l ls -> P (l_start l) (l_end l).
Proof. exact labels_wellformed_end_to_end. Qed.
Print Assumptions C04_labels_wellformed_end_to_end.

(* desugar_metas_from_input, proved by agent-C18 (Proofs.DesugarMetas): every meta
   of the desugared body of a template is a meta of the parsed body, hence any
   property of the parser's ranges (start <= end, inside the file, on scalar
   boundaries) is inherited by the desugared statements.  What remains a
   hypothesis of C04_labels_wellformed_end_to_end is the same provenance for IR
   lifting and SSA (new nodes there carry the meta of the AST node they come from
   or Meta::default()). *)
Theorem C04_desugar_metas_from_input : forall env lib body body',
  Model.Desugar.desugar_template env lib body = Model.Desugar.DOk body' ->
  forall m, In m (Spec.ExpandSpec.stmt_metas body') -> In m (Spec.ExpandSpec.stmt_metas body).
Proof. exact Proofs.DesugarMetas.desugar_metas_from_input. Qed.
Print Assumptions C04_desugar_metas_from_input.

Theorem C04_desugared_ranges_wellformed : forall (P : N -> N -> Prop) env lib body body',
  Forall (fun m => P (Model.Ast.m_start m) (Model.Ast.m_end m)) (Spec.ExpandSpec.stmt_metas body) ->
  Model.Desugar.desugar_template env lib body = Model.Desugar.DOk body' ->
  Forall (fun m => P (Model.Ast.m_start m) (Model.Ast.m_end m)) (Spec.ExpandSpec.stmt_metas body').
Proof. exact (fun P => Proofs.DesugarMetas.desugar_meta_property_inherited (fun m => P (Model.Ast.m_start m) (Model.Ast.m_end m))). Qed.
Print Assumptions C04_desugared_ranges_wellformed.

(* the end-to-end statement with the desugarer's provenance PROVED: well-formedness
   is asked of the parsed body only *)
Theorem C04_labels_wellformed_through_desugaring :
  forall (P : N -> N -> Prop) env lib body body' (final : list meta) c ls l,
    Forall (fun m => P (Model.Ast.m_start m) (Model.Ast.m_end m)) (Spec.ExpandSpec.stmt_metas body) ->
    Model.Desugar.desugar_template env lib body = Model.Desugar.DOk body' ->
    (forall m, In m final ->
       In m (map Proofs.LabelsDesugar.ir_meta_of (Spec.ExpandSpec.stmt_metas body')) \/ (m_start m = 0%N /\ m_end m = 0%N)) ->
    P 0%N 0%N ->
    (forall m, In m (nodes_of c) -> In m final) ->
    (forall r, In r (parser_ranges_of c) -> P (fst r) (snd r)) ->
    labels_of (sources_of c) = Ok ls -> In l ls -> P (l_start l) (l_end l).
Proof. exact Proofs.LabelsDesugar.labels_wellformed_through_desugaring. Qed.
Print Assumptions C04_labels_wellformed_through_desugaring.

(* --- (2b) provenance through the SSA construction (mirror Model.Ssa, checked
   against the real into_ssa by C14's engine) ----------------------------------
   The IR mirror keeps the meta of every STATEMENT (not of expressions).  Block i
   of the SSA form is: k inserted phi statements, each with `Meta::default()`
   (0..0, no file: no label can come from it, C04_phi_statement_gets_no_label)
   and of kind "substitution", followed by statements with exactly the metas and
   kinds of block i of the input, in the same order — for every graph, frontier
   and children table. *)
Theorem C04_ssa_blocks_from_input : forall frontier children c c',
  into_ssa frontier children c = SOk c' ->
  Forall2 (fun b b' => exists k,
             map tag (b_stmts b') = repeat (default_meta, KSubst) k ++ map tag (b_stmts b))
          (c_blocks c) (c_blocks c').
Proof. exact Proofs.LabelsSsa.ssa_blocks_from_input. Qed.
Print Assumptions C04_ssa_blocks_from_input.

(* ssa_metas: every statement meta of the SSA form is a statement meta of the
   graph it was built from, or Meta::default() *)
Theorem C04_ssa_metas_from_input : forall frontier children c c',
  into_ssa frontier children c = SOk c' ->
  forall m, In m (cfg_stmt_metas c') -> In m (cfg_stmt_metas c) \/ m = default_meta.
Proof. exact Proofs.LabelsSsa.ssa_metas_from_input. Qed.
Print Assumptions C04_ssa_metas_from_input.

(* and no statement loses its location *)
Theorem C04_ssa_keeps_input_metas : forall frontier children c c',
  into_ssa frontier children c = SOk c' ->
  forall m, In m (cfg_stmt_metas c) -> In m (cfg_stmt_metas c').
Proof. exact Proofs.LabelsSsa.ssa_keeps_input_metas. Qed.
Print Assumptions C04_ssa_keeps_input_metas.

(* The end-to-end statement with the desugarer's AND the SSA construction's
   provenance proved.  Hypothesis 3 is what is left: it speaks about the graph
   BEFORE SSA (the output of lifting) — the lifting mirror Model.Lift works on
   skeletons without metas, see C04_lift_nodes_are_source_nodes; the meta copy
   `Meta::from(&ast::Meta)` of ir.rs is observed on every run by the provenance
   clause of the engine.  Scope: constructors whose nodes are STATEMENTS of the SSA
   form (hypothesis 6; evaluated per label by the engine, see
   C04_labels_wellformed_through_desugaring_lifting_and_ssa), since the IR mirror has no
   expression metas. *)
Theorem C04_labels_wellformed_through_desugaring_and_ssa :
  forall (P : N -> N -> Prop) env lib body body' frontier children c c' ctor ls l,
    Forall (fun m => P (Model.Ast.m_start m) (Model.Ast.m_end m)) (Spec.ExpandSpec.stmt_metas body) ->
    Model.Desugar.desugar_template env lib body = Model.Desugar.DOk body' ->
    (forall m, In m (cfg_stmt_metas c) ->
       In m (map Proofs.LabelsDesugar.ir_meta_of (Spec.ExpandSpec.stmt_metas body')) \/ (m_start m = 0%N /\ m_end m = 0%N)) ->
    into_ssa frontier children c = SOk c' ->
    P 0%N 0%N ->
    (forall m, In m (nodes_of ctor) -> In m (cfg_stmt_metas c')) ->
    (forall r, In r (parser_ranges_of ctor) -> P (fst r) (snd r)) ->
    labels_of (sources_of ctor) = Ok ls -> In l ls -> P (l_start l) (l_end l).
Proof. exact Proofs.LabelsPipeline.labels_wellformed_through_desugaring_and_ssa. Qed.
Print Assumptions C04_labels_wellformed_through_desugaring_and_ssa.

(* What the lifting mirror (C12's Model.Lift, on statement skeletons: a leaf
   statement / a condition is an identity, metas are abstracted away) says about
   locations: the nodes of the lifted graph are exactly the statements and
   conditions of the source body, each once, in source order — lifting neither
   drops, duplicates nor invents a node.  (C12_every_item_exactly_once, cited.) *)
Theorem C04_lift_nodes_are_source_nodes : forall body g,
  Model.Lift.lift body = Ok g ->
  concat (map (fun b => map Spec.CfgSpec.item_key (Model.Lift.b_items b)) g)
  = map fst (Spec.CfgSpec.nesting 0 body).
Proof. exact Proofs.LabelsPipeline.lift_nodes_are_source_nodes. Qed.
Print Assumptions C04_lift_nodes_are_source_nodes.

(* A label whose range is CREATED by modelled code (not inherited from a node):
   the unclosed-comment error is valid with no hypothesis about the parser — one
   primary label, in the file being parsed, the two bytes of the opener, inside
   the ORIGINAL text, start <= end, on scalar boundaries. *)
Theorem C04_unclosed_comment_label_valid : forall s o file ls l,
  preprocess s = Err (unclosed o) ->
  labels_of (sources_of (CUnclosedComment file o)) = Ok ls -> In l ls ->
  ls = [l] /\ l_primary l = true /\ l_file l = file /\
  l_start l = N.of_nat o /\ l_end l = N.of_nat (o + 2) /\ (l_start l <= l_end l)%N /\
  boundary s o /\ boundary s (o + 2) /\ (o + 2 <= text_bytes s)%nat /\
  scalar_at s o 47%N /\ scalar_at s (o + 1) 42%N.
Proof. exact Proofs.LabelsPipeline.unclosed_comment_label_valid. Qed.
Print Assumptions C04_unclosed_comment_label_valid.

Theorem C04_synthesised_statements_have_no_file : forall c,
  guarded_constructor c = true ->
  (forall m, In m (nodes_of c) -> m_file m = None) ->
  labels_of (sources_of c) = Ok [].
Proof. exact synthesised_statements_have_no_file. Qed.
Print Assumptions C04_synthesised_statements_have_no_file.

Theorem C04_phi_statement_gets_no_label : forall c,
  guarded_constructor c = true ->
  (forall m, In m (nodes_of c) -> m = default_meta) ->
  labels_of (sources_of c) = Ok [].
Proof. exact phi_statement_gets_no_label. Qed.
Print Assumptions C04_phi_statement_gets_no_label.

Theorem C04_label_file_is_a_node_file : forall c ls l,
  guarded_constructor c = true ->
  labels_of (sources_of c) = Ok ls -> In l ls ->
  exists o, In o (nodes_of c) /\ m_file o = Some (l_file l).
Proof. exact label_file_is_a_node_file. Qed.
Print Assumptions C04_label_file_is_a_node_file.

(* fourth audit: C04_label_range_and_file_of_one_node was removed from the obligations (definition-grade: under its
   hypothesis "all nodes lie in one file" it is a corollary of C04_label_file_is_a_node_file, and it excludes T2008,
   the one constructor with two files); it stays as Lemma Proofs.LabelsProofs.label_range_and_file_of_one_node. *)

Theorem C04_label_construction_panics_only_on_unwrap : forall c,
  (forall ls, labels_of (sources_of c) <> Ok ls) ->
  exists m, (c = CAnonymousComponentError (Some m) \/ c = CTupleError (Some m)) /\ m_file m = None.
Proof. exact label_construction_panics_only_on_unwrap. Qed.
Print Assumptions C04_label_construction_panics_only_on_unwrap.

(* obligations over the table regenerated from the Rust sources *)
Theorem C04_no_made_up_label_range :
  forallb (fun '(_, _, _, r, _) => range_allowed r) label_sites = true.
Proof. exact no_made_up_label_range. Qed.
Print Assumptions C04_no_made_up_label_range.

Theorem C04_label_sites_match_model :
  shapes_eqb (group label_sites) modelled_shapes = true.
Proof. exact label_sites_match_model. Qed.
Print Assumptions C04_label_sites_match_model.

Theorem C04_label_fills_from_nodes : forallb fill_allowed label_fills = true.
Proof. exact label_fills_from_nodes. Qed.
Print Assumptions C04_label_fills_from_nodes.

Theorem C04_at_most_one_literal_range :
  (length (filter (fun '(_, _, _, c) => match c with FLiteral => true | _ => false end) label_fills) <=? 1)%nat = true.
Proof. exact at_most_one_literal_range. Qed.
Print Assumptions C04_at_most_one_literal_range.

Theorem C04_model_sources_have_declared_shapes : forall c s n,
  In s (sources_of c) -> In n (name_of c) -> shape_in (shape_of_source s) (lookup_shape n) = true.
Proof. exact model_sources_have_declared_shapes. Qed.
Print Assumptions C04_model_sources_have_declared_shapes.

(* --- (3) line and column ------------------------------------------------------ *)

Theorem C04_location_usual : forall u1 u2 v,
  (u1 = [] \/ exists w, u1 = w ++ [10%N]) -> ~ In 10%N u2 ->
  location (u1 ++ u2 ++ v) (bytes (u1 ++ u2)) = Some (S (newlines u1), S (length u2)).
Proof. exact location_usual. Qed.
Print Assumptions C04_location_usual.

Theorem C04_last_line_split : forall u,
  exists u1 u2, u = u1 ++ u2 /\ (u1 = [] \/ exists w, u1 = w ++ [10%N]) /\ ~ In 10%N u2.
Proof. exact last_line_split. Qed.
Print Assumptions C04_last_line_split.

Theorem C04_sarif_region_usual : forall l a1 a2 va b1 b2 vb,
  l = a1 ++ a2 ++ va -> l = b1 ++ b2 ++ vb ->
  (a1 = [] \/ exists w, a1 = w ++ [10%N]) -> ~ In 10%N a2 ->
  (b1 = [] \/ exists w, b1 = w ++ [10%N]) -> ~ In 10%N b2 ->
  sarif_region l (bytes (a1 ++ a2)) (bytes (b1 ++ b2)) =
    Some (S (newlines a1), S (length a2), S (newlines b1), S (length b2)).
Proof. exact sarif_region_usual. Qed.
Print Assumptions C04_sarif_region_usual.

(* --- the hypotheses are satisfiable, the statements are not vacuous ---------- *)

(* a CS0005 report: primary = the assignment, secondaries = the constraints; the
   phi-like file-less constraint contributes nothing *)
Example C04_example_signal_assignment :
  labels_of (sources_of (CSignalAssignment {| m_start := 10; m_end := 21; m_file := Some 0%N |}
                                           [{| m_start := 30; m_end := 41; m_file := Some 0%N |}; default_meta]))
  = Ok [mk true 0 10 21; mk false 0 30 41].
Proof. reflexivity. Qed.

Example C04_example_phi : labels_of (sources_of (CUnusedVariable default_meta)) = Ok [].
Proof. reflexivity. Qed.

Example C04_example_unwrap_panics :
  labels_of (sources_of (CTupleError (Some default_meta))) = Panic 401.
Proof. reflexivity. Qed.

(* "é\r\n\tx": the x (byte offset 5) is at line 2, column 2; the CR (offset 2) at line 1, column 2 *)
Example C04_example_crlf_multibyte :
  location [233; 13; 10; 9; 120]%N 5 = Some (2, 2)%nat /\
  location [233; 13; 10; 9; 120]%N 2 = Some (1, 2)%nat /\
  location [233; 13; 10; 9; 120]%N 6 = Some (2, 3)%nat.
Proof. repeat split; reflexivity. Qed.

(* positions must be resolved against the ORIGINAL text: in the pre-processed
   text of "/*\n*/x" the newline inside the comment is a blank, and the same
   offset 5 would be shown on line 1 instead of line 2 *)
Example C04_example_original_text_matters :
  preprocess [47; 42; 10; 42; 47; 120]%N = Ok [32; 32; 32; 32; 32; 120]%N /\
  location [47; 42; 10; 42; 47; 120]%N 5 = Some (2, 3)%nat /\
  location [32; 32; 32; 32; 32; 120]%N 5 = Some (1, 6)%nat.
Proof. repeat split; reflexivity. Qed.

(* into_ssa succeeds and inserts a phi: `x = 1; if (..) {x = 2} else {x = 3}; return x`
   as four blocks (frontier and dominator-tree children of that diamond).  The
   join block gets ONE statement with the default meta in front of its `return`,
   whose meta (40..48 of file 0) is unchanged; all other metas are unchanged. *)
Definition C04_ex_x : vname := {| vn_name := [120%N]; vn_suffix := None; vn_version := None |}.
Definition C04_ex_m (a b : N) : meta := {| m_start := a; m_end := b; m_file := Some 0%N |}.
Definition C04_ex_assign (a b : N) (z : Z) : stmt :=
  SSubst (C04_ex_m a b) C04_ex_x OpVar (ENum z know0) None (Some TLocal).
Definition C04_ex_cfg : cfg :=
  {| c_kind := KFunction; c_params := []; c_decls := [(C04_ex_x, TLocal)];
     c_blocks := [
       {| b_index := 0; b_depth := 0; b_preds := []; b_succs := [1; 2]%N;
          b_stmts := [C04_ex_assign 0 5 1; SIf (C04_ex_m 6 39) (ENum 1 know0) 1 (Some 2%N)] |};
       {| b_index := 1; b_depth := 0; b_preds := [0%N]; b_succs := [3%N]; b_stmts := [C04_ex_assign 14 19 2] |};
       {| b_index := 2; b_depth := 0; b_preds := [0%N]; b_succs := [3%N]; b_stmts := [C04_ex_assign 29 34 3] |};
       {| b_index := 3; b_depth := 0; b_preds := [1; 2]%N; b_succs := [];
          b_stmts := [SRet (C04_ex_m 40 48) (EVar C04_ex_x know0)] |} ] |}.
Example C04_example_ssa_inserts_a_fileless_phi :
  match into_ssa [[]; [3%N]; [3%N]; []] [[1; 2; 3]%N; []; []; []] C04_ex_cfg with
  | SOk c' => map (fun b => map tag (b_stmts b)) (c_blocks c')
  | _ => []
  end =
  [ [(C04_ex_m 0 5, KSubst); (C04_ex_m 6 39, KIf)]; [(C04_ex_m 14 19, KSubst)]; [(C04_ex_m 29 34, KSubst)];
    [(default_meta, KSubst); (C04_ex_m 40 48, KRet)] ].
Proof. vm_compute. reflexivity. Qed.

(* the unclosed-comment label of "a /*": bytes 2..4 *)
Example C04_example_unclosed_label :
  preprocess [97; 32; 47; 42]%N = Err (unclosed 2) /\
  labels_of (sources_of (CUnclosedComment 0 2)) = Ok [mk true 0 2 4].
Proof. split; reflexivity. Qed.

(* ---- provenance of the statement metas through IR lifting ----
   Model.LiftFull mirrors try_lift_impl (unique-variable renaming, AST -> IR
   lifting with metas, block construction) on the real syntax tree and is
   compared with the real `into_cfg` on every run (engine `liftfull`, run by C13's
   check).  [lift_to_ir] is that mirror followed by the erasure onto Model.Ir;
   [lifted_stmts body] are the statements of the body that are not blocks /
   initialization blocks, in source order.  The statement metas of the lifted
   graph, read block by block, are exactly their metas, in that order: every IR
   statement has the location of exactly one source statement. *)
Require Model.LiftFull Proofs.LiftFullC04.

Theorem C04_liftfull_stmt_metas_from_ast : forall kind params pfile ploc body c,
  Model.LiftFull.lift_to_ir kind params pfile ploc body = Ok c ->
  cfg_stmt_metas c
  = map Proofs.LabelsDesugar.ir_meta_of (map Model.Ast.stmt_meta (Model.LiftFull.lifted_stmts body)).
Proof. exact Proofs.LiftFullC04.lift_stmt_metas_from_ast. Qed.
Print Assumptions C04_liftfull_stmt_metas_from_ast.

(* in the form of hypothesis 3 of C04_labels_wellformed_through_desugaring_and_ssa
   (without its "or the empty default range" alternative) *)
Theorem C04_liftfull_stmt_metas_in_body : forall kind params pfile ploc body c,
  Model.LiftFull.lift_to_ir kind params pfile ploc body = Ok c ->
  forall m, In m (cfg_stmt_metas c) ->
    In m (map Proofs.LabelsDesugar.ir_meta_of (Spec.ExpandSpec.stmt_metas body)).
Proof. exact Proofs.LiftFullC04.lift_stmt_metas_in_body. Qed.
Print Assumptions C04_liftfull_stmt_metas_in_body.

(* The end-to-end statement with the desugarer's, the lifting's and the SSA
   construction's provenance all proved: the hypothesis about the graph before SSA
   is now only that the lifting mirror produced it.  (Scope as before: constructors
   whose nodes are STATEMENTS of the SSA form -- the hypothesis
   `nodes_of ctor` subset of `cfg_stmt_metas c'`.  It is EVALUATED by ./check C04 on every
   label of every in-process report against the statement nodes of the SSA cfgs the real
   into_cfg + into_ssa build, coverage key `statement_anchor_hypothesis`: it holds for the
   claimed class -- CS0005, CS0013, CA01, CS0017, CS0006, CS0008 (variable) -- on every
   explored label, a miss is a violation; the expression-, parameter-list- and
   definition-anchored constructors, and CS0001 which is built before lifting, are outside
   the scope of this theorem.) *)
Theorem C04_labels_wellformed_through_desugaring_lifting_and_ssa :
  forall (P : N -> N -> Prop) env lib body body' kind params pfile ploc frontier children c c' ctor ls l,
    Forall (fun m => P (Model.Ast.m_start m) (Model.Ast.m_end m)) (Spec.ExpandSpec.stmt_metas body) ->
    Model.Desugar.desugar_template env lib body = Model.Desugar.DOk body' ->
    Model.LiftFull.lift_to_ir kind params pfile ploc body' = Ok c ->
    into_ssa frontier children c = SOk c' ->
    P 0%N 0%N ->
    (forall m, In m (nodes_of ctor) -> In m (cfg_stmt_metas c')) ->
    (forall r, In r (parser_ranges_of ctor) -> P (fst r) (snd r)) ->
    labels_of (sources_of ctor) = Ok ls -> In l ls -> P (l_start l) (l_end l).
Proof. exact Proofs.LiftFullC04.labels_wellformed_through_desugaring_lifting_and_ssa. Qed.
Print Assumptions C04_labels_wellformed_through_desugaring_lifting_and_ssa.

(* `template T() { signal input a; signal output b; if (a) { b <-- a; } }` (the
   declarations inside initialization blocks, as the parser builds them): four IR
   statements (two declarations, the IfThenElse of the `if`, the substitution), whose metas
   are those of the four source statements that are not blocks / initialization blocks *)
Example C04_example_liftfull_metas :
  let m a b := Model.Ast.Meta a b (Some 0%N) in
  let va := Model.Ast.Variable_ (m 40 41)%N "a" [] in
  let body := Model.Ast.Block (m 13 70)%N
    [Model.Ast.InitializationBlock (m 15 29)%N (Model.Ast.VSignal Model.Ast.SInput [])
       [Model.Ast.Declaration (m 15 29)%N (Model.Ast.VSignal Model.Ast.SInput []) "a" [] false];
     Model.Ast.InitializationBlock (m 31 46)%N (Model.Ast.VSignal Model.Ast.SOutput [])
       [Model.Ast.Declaration (m 31 46)%N (Model.Ast.VSignal Model.Ast.SOutput []) "b" [] false];
     Model.Ast.IfThenElse (m 48 68)%N va
       (Model.Ast.Block (m 55 68)%N [Model.Ast.Substitution (m 57 65)%N "b" [] Model.Ast.AssignSignal va]) None] in
  match Model.LiftFull.lift_to_ir KTemplate [] (Some 0%N) (0%N, 0%N) body with
  | Ok c => cfg_stmt_metas c
  | _ => []
  end = [C04_ex_m 15 29; C04_ex_m 31 46; C04_ex_m 48 68; C04_ex_m 57 65].
Proof. vm_compute. reflexivity. Qed.
