(* C16 — field arithmetic matches Circom's semantics for all operands and never
   panics.  Property theorems only: each is closed by [exact] of a lemma of
   Proofs.FieldProofs, followed by Print Assumptions. *)
From Coq Require Import ZArith Znumtheory.
Require Import Model.Base Model.Field Spec.FieldSpec Proofs.FieldProofs.
Local Open Scope Z_scope.

(* every operation except division: the mirror computes the documented value;
   an over-large shift count may be answered by an error instead of 0 *)
Theorem C16_field_refines_spec : forall o a b p,
  2 < p -> Z.log2 p < 2 ^ 64 -> 0 <= a < p -> 0 <= b < p -> o <> ODiv ->
  eval o a b p = spec o a b p \/
  (is_shift o = true /\ eval o a b p = Err EDivisionByZero /\ spec o a b p = Ok 0).
Proof. exact field_refines_spec. Qed.
Print Assumptions C16_field_refines_spec.

(* division: multiplication by the inverse, error exactly for a zero divisor *)
Theorem C16_div_refines_spec : forall a b p,
  prime p -> 2 < p -> 0 <= a < p -> 0 <= b < p ->
  match div a b p with
  | Ok c => b <> 0 /\ 0 <= c < p /\ (c * b) mod p = a
  | Err EDivisionByZero => b = 0
  | _ => False
  end.
Proof. exact div_refines_spec. Qed.
Print Assumptions C16_div_refines_spec.

(* results are canonical *)
Theorem C16_field_canonical : forall o a b p c,
  prime p -> 2 < p -> Z.log2 p < 2 ^ 64 -> 0 <= a < p -> 0 <= b < p ->
  eval o a b p = Ok c -> 0 <= c < p.
Proof. exact field_canonical. Qed.
Print Assumptions C16_field_canonical.

(* no panic, no exhausted fuel; errors exactly in the undefined cases *)
Theorem C16_field_never_panics : forall o a b p,
  prime p -> 2 < p -> Z.log2 p < 2 ^ 64 -> 0 <= a < p -> 0 <= b < p ->
  (exists c, eval o a b p = Ok c) \/
  (eval o a b p = Err EDivisionByZero /\
   (((o = ODiv \/ o = OIDiv \/ o = OMod) /\ b = 0) \/
    (o = OShl \/ o = OShr) /\ 2 ^ 64 <= b /\ 2 ^ 64 <= p - b)).
Proof. exact field_never_panics. Qed.
Print Assumptions C16_field_never_panics.

(* bounded work: a shift never materialises a power of two beyond the operand
   or mask width *)
Theorem C16_shift_bounded_work : forall l r p k,
  0 <= l ->
  (shl_built r p = Some k -> 0 <= k < radix_len p) /\
  (shr_built l r = Some k -> 0 <= k < bits l).
Proof. exact shift_bounded_work. Qed.
Print Assumptions C16_shift_bounded_work.

(* the extended Euclid used for the inverse never runs out of fuel *)
Theorem C16_egcd_total : forall a b, 0 <= a -> 0 <= b -> egcd (egcd_fuel a b) a b <> None.
Proof. exact egcd_total. Qed.
Print Assumptions C16_egcd_total.

(* the computable oracle used by the violation search is the documented semantics *)
Theorem C16_spec_exec_correct : forall o a b p,
  2 < p -> 0 <= a < p -> 0 <= b < p -> spec_exec o a b p = spec o a b p.
Proof. exact spec_exec_correct. Qed.
Print Assumptions C16_spec_exec_correct.

(* comparisons order the signed representatives, which are injective and lie
   in (-p/2, p/2] *)
Theorem C16_sval_inj : forall x y p,
  2 < p -> 0 <= x < p -> 0 <= y < p -> sval x p = sval y p -> x = y.
Proof. exact sval_inj. Qed.
Print Assumptions C16_sval_inj.

(* non-vacuity: the hypotheses are met by a concrete field, and the defects
   repaired by the fix: commits stay repaired in the mirror *)
Example C16_witnesses :
  eval OMod 5 0 7 = Err EDivisionByZero /\
  eval OCompl 0 0 7 = Ok ((2 ^ 256 - 1) mod 7) /\
  eval OShl 1 100000000000 21888242871839275222246405745257275088548364400416034343698204186575808495617 = Ok 0 /\
  eval ODiv 3 5 7 = Ok 2 /\ eval OLt 4 3 7 = Ok 1.
Proof. vm_compute. repeat split; reflexivity. Qed.
