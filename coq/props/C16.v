(* C16 — field arithmetic matches Circom's semantics for all operands and never
   panics.  Property theorems only: each is closed by [exact] of a lemma of
   Proofs.FieldProofs, followed by Print Assumptions. *)
From Coq Require Import ZArith Znumtheory Lia.
Require Import Model.Base Model.Field Model.Ir Model.Propagate Model.FieldDispatch Model.FieldPow.
Require Import Spec.FieldSpec Spec.DispatchSpec Proofs.FieldProofs Proofs.DispatchProofs Proofs.DispatchLoop Proofs.FieldPowProofs Proofs.FieldLaws Proofs.FieldShiftLaws.
Local Open Scope Z_scope.

(* every operation except division: the mirror computes the documented value;
   an over-large shift count may be answered by an error instead of 0 *)
Theorem C16_field_refines_spec : forall o a b p,
  2 < p -> Z.log2 p < 2 ^ 64 -> 0 <= a < p -> 0 <= b < p -> o <> ODiv ->
  eval o a b p = spec o a b p \/
  (is_shift o = true /\ eval o a b p = Err EDivisionByZero /\ spec o a b p = Ok 0).
Proof. exact field_refines_spec. Qed.
Print Assumptions C16_field_refines_spec.

(* division: multiplication by the inverse, error exactly for a zero divisor *)
Theorem C16_div_refines_spec : forall a b p,
  prime p -> 2 < p -> 0 <= a < p -> 0 <= b < p ->
  match div a b p with
  | Ok c => b <> 0 /\ 0 <= c < p /\ (c * b) mod p = a
  | Err EDivisionByZero => b = 0
  | _ => False
  end.
Proof. exact div_refines_spec. Qed.
Print Assumptions C16_div_refines_spec.

(* results are canonical *)
Theorem C16_field_canonical : forall o a b p c,
  prime p -> 2 < p -> Z.log2 p < 2 ^ 64 -> 0 <= a < p -> 0 <= b < p ->
  eval o a b p = Ok c -> 0 <= c < p.
Proof. exact field_canonical. Qed.
Print Assumptions C16_field_canonical.

(* no panic, no exhausted fuel; errors exactly in the undefined cases *)
Theorem C16_field_never_panics : forall o a b p,
  prime p -> 2 < p -> Z.log2 p < 2 ^ 64 -> 0 <= a < p -> 0 <= b < p ->
  (exists c, eval o a b p = Ok c) \/
  (eval o a b p = Err EDivisionByZero /\
   (((o = ODiv \/ o = OIDiv \/ o = OMod) /\ b = 0) \/
    (o = OShl \/ o = OShr) /\ 2 ^ 64 <= b /\ 2 ^ 64 <= p - b)).
Proof. exact field_never_panics. Qed.
Print Assumptions C16_field_never_panics.

(* bounded work of `<<` and `>>`.  Model.Field.shift_w is the mutual recursion
   shift_l <-> shift_r AS WRITTEN (a Fixpoint on fuel), its value and its work record
   (calls made, exponent of the power of two materialised, bit size of the largest of
   that power / the product formed from it / the power the mask is made of) produced
   by ONE definition: a power of two enters a value only through Field.pow2_tick, which
   writes the record (fourth audit: the record used to come from a second copy of the
   guards, and nothing tied it to the 2^k of the value).  For EVERY modulus p > 0, ALL
   integers l, r (negative and non-canonical ones included) and every fuel >= 2:
   the value is the shift_l / shift_r of the refinement theorems; the recursion ends
   (no OutOfFuel) after at most two calls; the record says `2^k built` EXACTLY when the
   value is the one formed from 2^k - then k is the count or p - count, fits a machine
   word, and is below the mask width (value (l * 2^k & mask) mod p) or below the
   operand's bit size (value l / 2^k); when it says that none was built the value is 0
   or the error; the recorded sizes stay within bits(l) + bits(p) + 1.  Not in the
   record (and so not in this statement): `field - right`, `field / 2`, the results
   of `&` `/` `%`, the digit vectors of to_radix_le. *)
Theorem C16_shift_bounded_work : forall fuel (left : bool) l r p,
  0 < p -> (2 <= fuel)%nat ->
  fst (shift_w fuel left l r p) = (if left then shift_l l r p else shift_r l r p) /\
  fst (shift_w fuel left l r p) <> OutOfFuel /\
  (1 <= sw_calls (snd (shift_w fuel left l r p)) <= 2)%nat /\
  (forall k, sw_built (snd (shift_w fuel left l r p)) = Some k ->
     0 <= k < 2 ^ 64 /\ (r = k \/ r = p - k) /\
     ((k < radix_len p /\ fst (shift_w fuel left l r p) = Ok (modulus (Z.land (l * 2 ^ k) (mask p)) p)) \/
      (k < bits l /\ fst (shift_w fuel left l r p) = Ok (Z.quot l (2 ^ k))))) /\
  (sw_built (snd (shift_w fuel left l r p)) = None ->
     sw_bits (snd (shift_w fuel left l r p)) = 0 /\
     (fst (shift_w fuel left l r p) = Ok 0 \/ fst (shift_w fuel left l r p) = Err EDivisionByZero)) /\
  0 <= sw_bits (snd (shift_w fuel left l r p)) <= bits l + radix_len p + 1.
Proof. exact shift_bounded_work. Qed.
Print Assumptions C16_shift_bounded_work.

(* the extended Euclid used for the inverse never runs out of fuel *)
Theorem C16_egcd_total : forall a b, 0 <= a -> 0 <= b -> egcd (egcd_fuel a b) a b <> None.
Proof. exact egcd_total. Qed.
Print Assumptions C16_egcd_total.

(* the computable oracle used by the violation search is the documented semantics *)
Theorem C16_spec_exec_correct : forall o a b p,
  2 < p -> 0 <= a < p -> 0 <= b < p -> spec_exec o a b p = spec o a b p.
Proof. exact spec_exec_correct. Qed.
Print Assumptions C16_spec_exec_correct.

(* comparisons order the signed representatives, which are injective and lie
   in (-p/2, p/2] *)
Theorem C16_sval_inj : forall x y p,
  2 < p -> 0 <= x < p -> 0 <= y < p -> sval x p = sval y p -> x = y.
Proof. exact sval_inj. Qed.
Print Assumptions C16_sval_inj.

(* ---- the operator dispatch of expression_impl.rs (infix_values / prefix_values
   of Model.Propagate, driven over closed expressions over literals by
   Model.FieldDispatch.lit_dispatch) ---- *)

(* a constant attached to a closed expression is the value Circom defines for
   it (a literal denotes its residue, Booleans stand for 0 / 1), canonical *)
Theorem C16_dispatch_sound : forall p, prime p -> 2 < p -> Z.log2 p < 2 ^ 64 ->
  forall e c, lits_nonneg e -> lit_dispatch p e = Ok (Some c) ->
  exists v, doc_sem p e v /\ const_ok c v /\ 0 <= v < p.
Proof. exact dispatch_sound. Qed.
Print Assumptions C16_dispatch_sound.

(* the dispatch never panics and never runs out of fuel on closed expressions *)
Theorem C16_dispatch_total : forall p, prime p -> 2 < p -> Z.log2 p < 2 ^ 64 ->
  forall e, lits_nonneg e -> exists o, lit_dispatch p e = Ok o.
Proof. exact dispatch_total. Qed.
Print Assumptions C16_dispatch_total.

(* the link between the code that runs and the function the dispatch theorems
   are about (second audit).  The Rust runs the pass loop of Cfg::propagate_values
   (mirror: propagate_lit = pass_loop over Model.Propagate.pv_expr, with its
   `result || ...` short-circuits, fuel = number of nodes + 2); the theorems above
   and below speak about the bottom-up lit_dispatch.  For EVERY closed expression
   on which the bottom-up dispatch answers, the pass loop ends within its fuel in
   the tree in which every node carries exactly the bottom-up constant
   (Spec.DispatchSpec.annotated), the root included ... *)
Theorem C16_pass_loop_reaches_dispatch : forall p e o,
  lit_dispatch p e = Ok o ->
  exists x, propagate_lit p e = Ok x /\ annotated p e x /\ expr_val x = o.
Proof. exact propagate_lit_reaches_dispatch. Qed.
Print Assumptions C16_pass_loop_reaches_dispatch.

(* ... and it does answer for every prime field and all non-negative literals *)
Theorem C16_pass_loop_total : forall p, prime p -> 2 < p -> Z.log2 p < 2 ^ 64 ->
  forall e, lits_nonneg e ->
  exists x o, propagate_lit p e = Ok x /\ lit_dispatch p e = Ok o /\ annotated p e x /\ expr_val x = o.
Proof. exact propagate_lit_total. Qed.
Print Assumptions C16_pass_loop_total.

(* two field constants get no constant only for && and ||, for a zero divisor,
   or for a shift count that fits no machine word in either direction *)
Theorem C16_dispatch_missing_constant_cases : forall p, prime p -> 2 < p -> Z.log2 p < 2 ^ 64 ->
  forall op a b, 0 <= a < p -> 0 <= b < p ->
  infix_values op (Some (VField a)) (Some (VField b)) p = Ok None ->
  op = IOr \/ op = IAnd \/
  ((op = IDiv \/ op = IIntDiv \/ op = IMod) /\ b = 0) \/
  ((op = IShl \/ op = IShr) /\ 2 ^ 64 <= b /\ 2 ^ 64 <= p - b).
Proof. exact infix_none_cases. Qed.
Print Assumptions C16_dispatch_missing_constant_cases.

(* `-` and `~` always apply to a field constant, `!` to a Boolean constant *)
Theorem C16_dispatch_prefix_cases : forall p op c,
  prefix_values op (Some c) p = None ->
  match c with VField _ => op = PNot | VBool _ => op = PNeg \/ op = PCompl end.
Proof. exact prefix_some_cases. Qed.
Print Assumptions C16_dispatch_prefix_cases.

(* the search oracle for closed expressions computes the documented value
   (no primality needed: the quotient is checked against its definition) *)
Theorem C16_doc_eval_sound : forall p e, 2 < p -> forall v, lits_nonneg e ->
  doc_eval p e = Ok v -> doc_sem p e v /\ 0 <= v < p.
Proof. exact doc_eval_sound. Qed.
Print Assumptions C16_doc_eval_sound.

(* what the search compares: the constant attached by the dispatch against the oracle's value *)
Theorem C16_dispatch_agrees_with_oracle : forall p e c v,
  prime p -> 2 < p -> Z.log2 p < 2 ^ 64 -> lits_nonneg e ->
  lit_dispatch p e = Ok (Some c) -> doc_eval p e = Ok v -> const_ok c v.
Proof. exact dispatch_agrees_with_oracle. Qed.
Print Assumptions C16_dispatch_agrees_with_oracle.

(* operands outside [0,p): the dispatch never passes one (C16_dispatch_sound:
   every attached constant is canonical); called directly, sixteen of the
   functions reduce their operands themselves *)
Theorem C16_reducing_functions_on_any_integers : forall o a b p,
  0 < p ->
  match o with
  | OAdd | OMul | OSub | OIDiv | OMod | ONeg | OAsBool | ONot | OOr | OAnd
  | OEq | OLt | ONeq | OLe | OGt | OGe => true
  | _ => false
  end = true ->
  eval o a b p = eval o (a mod p) (b mod p) p.
Proof. exact eval_reduces_operands. Qed.
Print Assumptions C16_reducing_functions_on_any_integers.

(* ... and every function except `**` and the shifts answers canonically whatever
   integers it is given - negative ones, literals at and above p - including the five
   of the eight non-reducing functions (div, complement, |, &, ^) for which
   C16_reducing_functions_on_any_integers says nothing (third audit: no theorem spoke
   about them outside [0,p)).  Which value that is, the property fixes for field
   elements only.  `>>` is excluded with reason: shr_direct answers l / 2^k unreduced. *)
Theorem C16_canonical_on_any_integers : forall o a b p c,
  1 < p -> o <> OPow -> o <> OShl -> o <> OShr ->
  eval o a b p = Ok c -> 0 <= c < p.
Proof. exact eval_canonical_any_integers. Qed.
Print Assumptions C16_canonical_on_any_integers.

(* ---- bounded work of `**`: the multiplication sequence of the library's
   windowed modular exponentiation (Model.FieldPow) ---- *)

(* it computes the value of Field.pow, never panics on field elements, and
   makes a number of modular multiplications fixed by the exponent's limb count *)
Theorem C16_modpow_steps_spec : forall b e p,
  prime p -> 2 < p -> 0 <= b -> 0 <= e ->
  modpow_steps b e p = Ok (pow b e p, if e =? 0 then 17 else 80 * ((bits e + 63) / 64) + 13).
Proof. exact modpow_steps_spec. Qed.
Print Assumptions C16_modpow_steps_spec.

(* ... which is linear in the bit length of the exponent (at most 333 for a 256-bit exponent) *)
Theorem C16_modpow_steps_bound : forall e, 0 <= e ->
  17 <= (if e =? 0 then 17 else 80 * ((bits e + 63) / 64) + 13) <= 2 * bits e + 93.
Proof. exact monty_steps_bound. Qed.
Print Assumptions C16_modpow_steps_bound.

(* ---- the operations together: algebraic laws of the mirror itself ---- *)

(* for EVERY modulus p > 0 and ALL integers (not only field elements) the reducing
   functions add / mul / sub / prefix_sub form a commutative ring whose elements are the
   values of `modulus`: the laws speak about the interplay of the mirror's functions, not
   about one operation against the specification *)
Theorem C16_ring_laws : forall p, 0 < p -> forall a b c,
  add a b p = add b a p /\
  mul a b p = mul b a p /\
  add (add a b p) c p = add a (add b c p) p /\
  mul (mul a b p) c p = mul a (mul b c p) p /\
  mul a (add b c p) p = add (mul a b p) (mul a c p) p /\
  add a 0 p = modulus a p /\
  mul a 1 p = modulus a p /\
  add a (prefix_sub a p) p = 0 /\
  sub a b p = add a (prefix_sub b p) p /\
  add (sub a b p) b p = modulus a p /\
  sub (add a b p) b p = modulus a p.
Proof. exact field_ring_laws. Qed.
Print Assumptions C16_ring_laws.

(* ... a field for a prime modulus: division by a non-zero element succeeds and is the
   two-sided inverse of multiplication *)
Theorem C16_div_mul_cancel : forall a b p,
  prime p -> 2 < p -> 0 <= a < p -> 0 <= b < p -> b <> 0 ->
  exists c, div a b p = Ok c /\ mul c b p = a /\ div (mul a b p) b p = Ok a.
Proof. exact div_mul_cancel. Qed.
Print Assumptions C16_div_mul_cancel.

(* the six comparison operators are mutually consistent: exactly one of < = > answers 1,
   <= and >= are the negations of > and <, != of ==, and a > b is b < a *)
Theorem C16_comparison_trichotomy : forall a b p,
  2 < p -> 0 <= a < p -> 0 <= b < p ->
  lesser a b p + eq a b p + greater a b p = 1 /\
  lesser_eq a b p = 1 - greater a b p /\
  greater_eq a b p = 1 - lesser a b p /\
  not_eq a b p = 1 - eq a b p /\
  greater a b p = lesser b a p.
Proof. exact comparison_trichotomy. Qed.
Print Assumptions C16_comparison_trichotomy.

(* ... and `<` is a strict order for every modulus and all integers *)
Theorem C16_lesser_strict_order : forall a b c p,
  lesser a a p = 0 /\ (lesser a b p = 1 -> lesser b c p = 1 -> lesser a c p = 1).
Proof. intros a b c p. split; [exact (lesser_irreflexive a p) | exact (lesser_transitive a b c p)]. Qed.
Print Assumptions C16_lesser_strict_order.

(* the Boolean operators form a Boolean algebra on truth values, for ALL integers (an integer is
   true iff its residue is non-zero): double negation, De Morgan both ways, commutativity,
   idempotence, contradiction and excluded middle *)
Theorem C16_boolean_algebra : forall a b p, 2 < p ->
  not (not a p) p = normalize a p /\
  not (bool_and a b p) p = bool_or (not a p) (not b p) p /\
  not (bool_or a b p) p = bool_and (not a p) (not b p) p /\
  bool_and a b p = bool_and b a p /\
  bool_or a b p = bool_or b a p /\
  bool_and a a p = normalize a p /\
  bool_or a a p = normalize a p /\
  bool_and a (not a p) p = 0 /\
  bool_or a (not a p) p = 1.
Proof. exact boolean_algebra_laws. Qed.
Print Assumptions C16_boolean_algebra.

(* bitwise operators, all integers, every modulus p > 0 *)
Theorem C16_bitwise_laws : forall a b p, 0 < p ->
  bit_and a b p = bit_and b a p /\
  bit_or a b p = bit_or b a p /\
  bit_xor a b p = bit_xor b a p /\
  bit_xor a a p = 0 /\
  bit_and a a p = modulus a p /\
  bit_or a a p = modulus a p /\
  bit_or a 0 p = modulus a p /\
  bit_xor a 0 p = modulus a p /\
  bit_and a 0 p = 0.
Proof. exact bitwise_laws. Qed.
Print Assumptions C16_bitwise_laws.

(* "shifts by more than p/2 shift the other way": for every modulus and EVERY left operand,
   a count r above p/2 makes `<<` the `>>` by p - r and `>>` the `<<` by p - r - the two
   functions are mirror images of each other, whatever the direct shifts compute; and a
   right shift by nothing returns its operand *)
Theorem C16_shift_mirror : forall l r p, 0 < p -> Z.quot p 2 < r <= p ->
  shift_l l r p = shift_r l (p - r) p /\ shift_r l r p = shift_l l (p - r) p.
Proof. exact shift_mirror. Qed.
Print Assumptions C16_shift_mirror.

Theorem C16_shift_r_zero : forall l p, 0 < p -> shift_r l 0 p = Ok l.
Proof. exact shift_r_zero. Qed.
Print Assumptions C16_shift_r_zero.

(* ... and a left shift by nothing returns a field element unchanged: the mask keeps every bit *)
Theorem C16_shift_l_zero : forall l p, 0 < p -> 0 <= l < p -> shift_l l 0 p = Ok l.
Proof. exact shift_l_zero. Qed.
Print Assumptions C16_shift_l_zero.

(* non-vacuity: p = 7, where 5 is the signed representative -2, and 4 is -3, so 4 < 5 < 3 *)
Example C16_laws_witnesses :
  prime 7 /\ div 3 5 7 = Ok 2 /\ mul 2 5 7 = 3 /\ div (mul 3 5 7) 5 7 = Ok 3 /\
  lesser 5 3 7 = 1 /\ lesser 3 4 7 = 0 /\ greater 3 4 7 = 1 /\ eq 3 4 7 = 0 /\
  add (-9) 30 7 = 0 /\ sub 2 5 7 = 4 /\ add 2 (prefix_sub 5 7) 7 = 4 /\
  shift_l 5 6 7 = Ok 2 /\ shift_r 5 1 7 = Ok 2 /\ shift_r 3 5 7 = Ok 4 /\ shift_l 3 2 7 = Ok 4.
Proof.
  split; [|vm_compute; repeat split; reflexivity].
  apply prime_intro; [lia|]. intros n Hn.
  assert (n = 1 \/ n = 2 \/ n = 3 \/ n = 4 \/ n = 5 \/ n = 6) as [->|[->|[->|[->|[->| ->]]]]] by lia;
    apply Zgcd_1_rel_prime; reflexivity.
Qed.

(* non-vacuity of the dispatch and exponentiation theorems *)
Example C16_dispatch_witnesses :
  lits_nonneg (LInfix ILe (LNum 5) (LNum 12)) /\
  lit_dispatch 7 (LInfix ILe (LNum 5) (LNum 12)) = Ok (Some (VBool true)) /\
  doc_eval 7 (LInfix ILe (LNum 5) (LNum 12)) = Ok 1 /\
  lit_dispatch 7 (LInfix IAdd (LInfix IDiv (LNum 1) (LNum 0)) (LNum 2)) = Ok None /\
  lit_dispatch 7 (LInfix IAnd (LNum 3) (LNum 4)) = Ok None /\
  lit_dispatch 7 (LInfix IDiv (LNum 3) (LNum 5)) = Ok (Some (VField 2)) /\
  doc_eval 7 (LInfix IDiv (LNum 3) (LNum 5)) = Ok 2 /\
  eval OLe (-2) 12 7 = eval OLe 5 5 7 /\ eval OBand 8 1 7 <> eval OBand 1 1 7 /\
  modpow_steps 3 5 7 = Ok (5, 93) /\ modpow_steps 0 6 7 = Ok (0, 93) /\ modpow_steps 3 0 7 = Ok (1, 17) /\
  modpow_steps 3 (2 ^ 64) 7 = Ok (4, 173) /\ modpow_steps 3 (-1) 7 = Panic site_modpow_negative_exponent.
Proof. vm_compute. repeat split; try reflexivity; intro; discriminate. Qed.

(* non-vacuity: the hypotheses are met by a concrete field, and the defects
   repaired by the fix: commits stay repaired in the mirror *)
(* the pass loop really iterates (one node is written per pass): three passes do not
   suffice for a six-node expression, the fuel of propagate_lit does, and the root then
   carries the bottom-up constant 3 * 4 + (-2) = 3 (mod 7) *)
Example C16_pass_loop_witness :
  pass_loop 3 7 (to_expr (LInfix IAdd (LInfix IMul (LNum 3) (LNum 4)) (LPrefix PNeg (LNum 2)))) = OutOfFuel /\
  lit_dispatch 7 (LInfix IAdd (LInfix IMul (LNum 3) (LNum 4)) (LPrefix PNeg (LNum 2))) = Ok (Some (VField 3)) /\
  exists x, propagate_lit 7 (LInfix IAdd (LInfix IMul (LNum 3) (LNum 4)) (LPrefix PNeg (LNum 2))) = Ok x /\
            expr_val x = Some (VField 3).
Proof. split; [vm_compute; reflexivity|]. split; [vm_compute; reflexivity|]. eexists. split; vm_compute; reflexivity. Qed.

(* the shift recursion really recurs (one unit of fuel does not suffice for a backward count, two
   do), builds 2^1 for `5 << 6 (mod 7)` = `5 >> 1`, nothing for a count of 10^11, and a right shift
   of an operand that is no field element is answered unreduced (why C16_canonical_on_any_integers
   excludes the shifts) *)
Example C16_shift_work_witnesses :
  fst (shift_w 1 true 5 6 7) = OutOfFuel /\
  shift_w 2 true 5 6 7 = (Ok 2, {| sw_calls := 2; sw_built := Some 1; sw_bits := 2 |}) /\
  shift_w 2 true 5 1 7 = (Ok 2, {| sw_calls := 1; sw_built := Some 1; sw_bits := 4 |}) /\
  shift_w 2 true 1 100000000000 21888242871839275222246405745257275088548364400416034343698204186575808495617
    = (Ok 0, {| sw_calls := 1; sw_built := None; sw_bits := 0 |}) /\
  shift_w 64 false (-5) (-3) 7 = (Err EDivisionByZero, {| sw_calls := 1; sw_built := None; sw_bits := 0 |}) /\
  eval OShr 100 1 7 = Ok 50 /\ eval OBor (-1) 100 7 = Ok 6.
Proof. vm_compute. repeat split; reflexivity. Qed.

Example C16_witnesses :
  eval OMod 5 0 7 = Err EDivisionByZero /\
  eval OCompl 0 0 7 = Ok ((2 ^ 256 - 1) mod 7) /\
  eval OShl 1 100000000000 21888242871839275222246405745257275088548364400416034343698204186575808495617 = Ok 0 /\
  eval ODiv 3 5 7 = Ok 2 /\ eval OLt 4 3 7 = Ok 1.
Proof. vm_compute. repeat split; reflexivity. Qed.
