(* C05 — comments are transparent: they never hide code and never change the
   parser's input; an unclosed block comment is an error located at its opener.
   Property theorems only: each is closed by [exact] of a lemma of
   Proofs.PreprocessProofs / Proofs.ParseEntryProofs (the two comment-content
   lemmas), followed by Print Assumptions.  All 21 are statements about the
   stripper [preprocess]; see the note before the Examples for the parse
   entry points.

   Vocabulary (Spec.LexSpec): a text is the list of its Unicode scalar values;
   47 = slash, 42 = star, 10 = newline, 32 = blank.  [preprocess] is the mirror
   of the Rust function (Model.Preprocess), [lex_spec] the reference lexer.
   [has_pair x y l]: l contains x directly followed by y.  [plain_code a]: a has
   no comment opener and does not end in a slash.  [after pre out m]: the result
   of a text that starts with pre, which lexes to out and ends in code, when the
   rest lexes to m (an error position of the rest moves by the bytes of pre).
   The theorems about positions (length, boundaries, scalar positions, error
   range) are the pre-processor clauses of C04. *)
From Coq Require Import NArith List.
Require Import Model.Base Model.Preprocess Model.ParseEntry Spec.LexSpec Proofs.PreprocessProofs
  Proofs.ParseEntryProofs.
Import ListNotations.
Local Open Scope N_scope.

(* the stripper computes the reference lexer, for every input *)
Theorem C05_preprocess_refines_lexer : forall s, preprocess s = lex_spec s.
Proof. exact preprocess_refines_lexer. Qed.
Print Assumptions C05_preprocess_refines_lexer.

(* --- what the lexer does, declaratively -------------------------------- *)

(* text without `//` and `/*` is left alone *)
Theorem C05_no_comment_no_change : forall s,
  ~ has_pair 47 47 s -> ~ has_pair 47 42 s -> preprocess s = Ok s.
Proof. exact preprocess_plain. Qed.
Print Assumptions C05_no_comment_no_change.

(* a line comment ends at the next newline, whatever it contains; the code
   before it, the newline and everything after it are kept *)
Theorem C05_line_comment_ends_at_newline : forall a c b,
  plain_code a -> no_newline c ->
  preprocess (a ++ [47; 47] ++ c ++ [10] ++ b) =
  after (a ++ [47; 47] ++ c ++ [10]) (a ++ blanks ([47; 47] ++ c) ++ [10]) (preprocess b).
Proof. exact preprocess_line_comment. Qed.
Print Assumptions C05_line_comment_ends_at_newline.

(* ... or at the end of the file *)
Theorem C05_line_comment_at_eof : forall a c,
  plain_code a -> no_newline c ->
  preprocess (a ++ [47; 47] ++ c) = Ok (a ++ blanks ([47; 47] ++ c)).
Proof. exact preprocess_line_comment_eof. Qed.
Print Assumptions C05_line_comment_at_eof.

(* a block comment ends at the FIRST `*/` after its opener, whatever it
   contains (runs of stars or slashes, quotes, openers, newlines, non-ASCII) *)
Theorem C05_block_comment_ends_at_first_close : forall a c b,
  plain_code a -> no_close c ->
  preprocess (a ++ [47; 42] ++ c ++ [42; 47] ++ b) =
  after (a ++ [47; 42] ++ c ++ [42; 47]) (a ++ blanks ([47; 42] ++ c ++ [42; 47])) (preprocess b).
Proof. exact preprocess_block_comment. Qed.
Print Assumptions C05_block_comment_ends_at_first_close.

(* a block comment that is never closed is an error at the byte offset of its opener *)
Theorem C05_unclosed_comment_is_an_error : forall a c,
  plain_code a -> no_close c ->
  preprocess (a ++ [47; 42] ++ c) = Err (unclosed (text_bytes a)).
Proof. exact preprocess_unclosed_comment. Qed.
Print Assumptions C05_unclosed_comment_is_an_error.

(* these five shapes cover every text, so the five theorems above determine
   the stripper completely *)
Theorem C05_shapes_cover_every_text : forall s,
  (~ has_pair 47 47 s /\ ~ has_pair 47 42 s) \/
  (exists a c, plain_code a /\ no_newline c /\ s = a ++ [47; 47] ++ c) \/
  (exists a c b, plain_code a /\ no_newline c /\ s = a ++ [47; 47] ++ c ++ [10] ++ b) \/
  (exists a c b, plain_code a /\ no_close c /\ s = a ++ [47; 42] ++ c ++ [42; 47] ++ b) \/
  (exists a c, plain_code a /\ no_close c /\ s = a ++ [47; 42] ++ c).
Proof. exact lex_decompose. Qed.
Print Assumptions C05_shapes_cover_every_text.

(* --- the unclosed-comment error ---------------------------------------- *)

(* C04: the reported offset is the byte length of the text before THE opener:
   the `/*` whose prefix [a] ends outside every comment ([ends_in_code a]: complete
   comments and comment-free code that does not end in a slash) and that no `*/`
   follows.  An equivalence: every such text is an error at exactly that offset.
   (Before the third audit the statement had no clause on [a] and was satisfied
   by o = 0 and by o = 3 for slash star blank slash star blank x.) *)
Theorem C05_unclosed_comment_location_is_byte_offset_of_opener : forall s o,
  preprocess s = Err (unclosed o) <->
  exists a c, s = a ++ [47; 42] ++ c /\ ends_in_code a /\ no_close c /\ o = text_bytes a.
Proof. exact unclosed_comment_at_first_unclosed_opener. Qed.
Print Assumptions C05_unclosed_comment_location_is_byte_offset_of_opener.

(* ... and that decomposition is unique: a text has at most one `/*` that opens a
   comment which is never closed, so the offset above is pinned *)
Theorem C05_unclosed_opener_unique : forall a c a' c',
  a ++ [47; 42] ++ c = a' ++ [47; 42] ++ c' ->
  ends_in_code a -> ends_in_code a' -> no_close c -> no_close c' -> a = a' /\ c = c'.
Proof. exact unclosed_opener_unique. Qed.
Print Assumptions C05_unclosed_opener_unique.

(* NOT obligations (demoted in the third audit, kept as lemmas of
   Proofs.PreprocessProofs because other proofs use them):
   [unclosed_comment_iff_open_block] (error iff the reference automaton ends in a
   block-comment state: [dfinish] unfolded, definitional) and [preprocess_total]
   (the result is Ok or Err (unclosed _): a one-line case analysis on the final
   state of the automaton; it says nothing about panics of the Rust function,
   which the run-time comparison observes). *)

(* C04: the label range o .. o+2 lies in the file, on scalar boundaries, and
   covers the slash and the star of the opener *)
Theorem C05_unclosed_comment_range_valid : forall s o,
  preprocess s = Err (unclosed o) ->
  scalar_at s o 47 /\ scalar_at s (o + 1) 42 /\
  boundary s o /\ boundary s (o + 2) /\ (o + 2 <= text_bytes s)%nat.
Proof. exact unclosed_comment_range_valid. Qed.
Print Assumptions C05_unclosed_comment_range_valid.

(* --- positions (C04) ---------------------------------------------------- *)

(* the output is the input with some scalars replaced by blanks of the same
   byte length *)
Theorem C05_preprocess_blanked : forall s t, preprocess s = Ok t -> blanked s t.
Proof. exact preprocess_blanked. Qed.
Print Assumptions C05_preprocess_blanked.

Theorem C05_preprocess_length : forall s t, preprocess s = Ok t -> text_bytes t = text_bytes s.
Proof. exact preprocess_length. Qed.
Print Assumptions C05_preprocess_length.

(* every scalar boundary of the file is a scalar boundary of the text *)
Theorem C05_preprocess_boundaries : forall s t o,
  preprocess s = Ok t -> boundary s o -> boundary t o.
Proof. exact preprocess_boundaries. Qed.
Print Assumptions C05_preprocess_boundaries.

(* every non-blank scalar the parser sees is that scalar of the file at the
   same byte offset: token positions are positions in the original file *)
Theorem C05_preprocess_scalar_positions : forall s t o c,
  preprocess s = Ok t -> scalar_at t o c -> c <> 32 -> scalar_at s o c.
Proof. exact preprocess_scalar_positions. Qed.
Print Assumptions C05_preprocess_scalar_positions.

(* --- replacing comments by blanks changes nothing ----------------------- *)

(* all comments at once *)
Theorem C05_blank_invariant : forall s, preprocess (blank_comments s) = preprocess s.
Proof. exact blank_invariant. Qed.
Print Assumptions C05_blank_invariant.

(* any one block comment, the rest of the file (other comments included, also
   an unclosed one later on) left alone *)
Theorem C05_one_block_comment_blanked : forall a c b,
  plain_code a -> block_comment c ->
  preprocess (a ++ blanks c ++ b) = preprocess (a ++ c ++ b).
Proof. exact one_block_comment_blanked. Qed.
Print Assumptions C05_one_block_comment_blanked.

(* any one line comment (followed by a newline or the end of the file) *)
Theorem C05_one_line_comment_blanked : forall a c b,
  plain_code a -> line_comment c -> (b = [] \/ exists b', b = 10 :: b') ->
  preprocess (a ++ blanks c ++ b) = preprocess (a ++ c ++ b).
Proof. exact one_line_comment_blanked. Qed.
Print Assumptions C05_one_line_comment_blanked.

(* --- code after a comment is kept --------------------------------------- *)

Theorem C05_code_after_block_comment_kept : forall c s, block_comment c ->
  preprocess (c ++ s) = after c (blanks c) (preprocess s).
Proof. exact code_after_block_comment_kept. Qed.
Print Assumptions C05_code_after_block_comment_kept.

Theorem C05_code_after_line_comment_kept : forall c s, line_comment c ->
  preprocess (c ++ [10] ++ s) = after (c ++ [10]) (blanks c ++ [10]) (preprocess s).
Proof. exact code_after_line_comment_kept. Qed.
Print Assumptions C05_code_after_line_comment_kept.

(* --- the content of a comment is irrelevant ------------------------------ *)

(* any block comment may be replaced by any other block comment of the same
   byte length (a doc comment, commented-out code, a pragma, an include, a
   main component, quotes, runs of stars): the parser input is the same *)
Theorem C05_block_comment_content_irrelevant : forall a c1 c2 b,
  plain_code a -> block_comment c1 -> block_comment c2 -> text_bytes c1 = text_bytes c2 ->
  preprocess (a ++ c1 ++ b) = preprocess (a ++ c2 ++ b).
Proof. exact block_comment_content_irrelevant. Qed.
Print Assumptions C05_block_comment_content_irrelevant.

Theorem C05_line_comment_content_irrelevant : forall a c1 c2 b,
  plain_code a -> line_comment c1 -> line_comment c2 -> text_bytes c1 = text_bytes c2 ->
  (b = [] \/ exists b', b = 10 :: b') ->
  preprocess (a ++ c1 ++ b) = preprocess (a ++ c2 ++ b).
Proof. exact line_comment_content_irrelevant. Qed.
Print Assumptions C05_line_comment_content_irrelevant.

(* --- the parse entry points: NO obligations here -------------------------
   Model.ParseEntry mirrors the data flow of parser_logic.rs parse_file /
   parse_string (pre-process, stop at an unclosed comment, else hand the
   pre-processed text and nothing else to the generated parser) with the
   parser as an arbitrary function [parser : list N -> R].  In that model the
   parser has no access to the source, so "sources with the same lexer image
   get the same answer", "the content of a comment never reaches the parser",
   "an unclosed comment is answered before the parser runs" are parametricity
   facts: they cannot fail, whatever the code does.  They are kept as lemmas
   (Proofs.ParseEntryProofs: parse_file_sees_only_lexed_text,
   parse_string_sees_only_lexed_text, parse_file_blank_invariant,
   parse_file_block_comment_content_irrelevant,
   parse_file_line_comment_content_irrelevant, parse_file_unclosed_comment,
   parse_file_parser_input) as consequences of the modelled data flow and are
   NOT counted as proof obligations of C05.  What carries the claim "nothing
   downstream of parse_file sees a comment" is the run-time comparison of
   lib/props/C05.py (part "parse entry"): the hook parser::verif::parse_source
   (= parser_logic::parse_file) is run on every generated source and on two
   other sources with the same reference-lexer image, and the complete AST
   dumps / error reports must be identical (evidence: coverage.parse_entry). *)

(* --- non-vacuity: the hypotheses are satisfiable, the shapes of the property
   text evaluate as stated, and the repaired defects stay repaired ---------- *)
Example C05_witnesses :
  (* slash star star star slash x: the comment closes, x survives (D12) *)
  preprocess [47; 42; 42; 42; 47; 120] = Ok [32; 32; 32; 32; 32; 120] /\
  (* slash star blank a b c, end of file: error at offset 0 (D13) *)
  preprocess [47; 42; 32; 97; 98; 99] = Err (unclosed 0) /\
  (* three e-acute then an unclosed opener: byte offset 6 (D14) *)
  preprocess [233; 233; 233; 47; 42; 42] = Err (unclosed 6) /\
  (* slash star slash: the star of the opener does not close *)
  preprocess [47; 42; 47] = Err (unclosed 0) /\
  (* slash slash star newline x: a line comment, x survives *)
  preprocess [47; 47; 42; 10; 120] = Ok [32; 32; 32; 10; 120] /\
  (* a slash-star e-acute newline star-slash b: two blanks for e-acute, one for the newline *)
  preprocess [97; 47; 42; 233; 10; 42; 47; 98] = Ok [97; 32; 32; 32; 32; 32; 32; 32; 98] /\
  blank_comments [97; 47; 42; 233; 10; 42; 47; 98] = [97; 32; 32; 32; 32; 32; 32; 32; 98].
Proof. vm_compute. repeat split; reflexivity. Qed.

(* slash star blank slash star blank x: the second `/*` is comment text.  The
   error is at offset 0; the only decomposition that meets the theorem is a = [];
   the prefix slash star blank does not end in code although the text also reads
   (slash star blank) ++ slash star ++ (blank x) *)
Example C05_nested_opener_pinned :
  preprocess [47; 42; 32; 47; 42; 32; 120] = Err (unclosed 0) /\
  [47; 42; 32; 47; 42; 32; 120] = [47; 42; 32] ++ [47; 42] ++ [32; 120] /\
  ~ ends_in_code [47; 42; 32] /\
  (forall a c, [47; 42; 32; 47; 42; 32; 120] = a ++ [47; 42] ++ c -> ends_in_code a -> no_close c -> a = []) /\
  (* a closed comment before the opener: the prefix ends in code, offset 5 *)
  ends_in_code [47; 42; 42; 47; 32] /\ preprocess [47; 42; 42; 47; 32; 47; 42] = Err (unclosed 5).
Proof.
  assert (Hnil : plain_code []) by (apply plain_code_no_slash; intros []).
  assert (Hnc : forall l, ~ In 47 l -> no_close l).
  { intros l Hin (u & v & ->). apply Hin. apply in_or_app. right. right. now left. }
  repeat split.
  - intro H. pose proof (proj2 (C05_unclosed_comment_location_is_byte_offset_of_opener
      ([47; 42; 32] ++ [47; 42] ++ []) 3) (ex_intro _ [47; 42; 32] (ex_intro _ []
        (conj eq_refl (conj H (conj (Hnc [] ltac:(intros [])) eq_refl)))))) as E.
    vm_compute in E. discriminate.
  - intros a c E Ha Hc.
    assert (N0 : no_close [32; 47; 42; 32; 120]).
    { intros (u & v & H). repeat (destruct u as [|? u]; try discriminate). }
    destruct (C05_unclosed_opener_unique a c [] [32; 47; 42; 32; 120] (eq_sym E) Ha (eic_code [] Hnil) Hc N0) as (-> & _).
    reflexivity.
  - change [47; 42; 42; 47; 32] with ([] ++ [47; 42] ++ [] ++ [42; 47] ++ [32]).
    apply eic_block; [exact Hnil|apply Hnc; intros []|].
    apply eic_code. apply plain_code_no_slash. intros [H|[]]; discriminate.
Qed.

Example C05_hypotheses_satisfiable :
  plain_code [97; 47; 32] /\ no_close [42; 42; 32; 47; 42] /\ no_newline [42; 47] /\
  block_comment [47; 42; 42; 42; 47] /\ line_comment [47; 47; 47; 42] /\
  open_block_at_end [97; 47; 42; 42] 1 /\ scalar_at [233; 47] 2 47 /\ boundary [233; 47] 3.
Proof.
  repeat split.
  - intros (u & v & H). destruct u as [|? [|? [|? u]]]; try discriminate; destruct u; discriminate.
  - intros (u & v & H). destruct u as [|? [|? [|? u]]]; try discriminate; destruct u; discriminate.
  - intros (u & H). destruct u as [|? [|? [|? u]]]; try discriminate; destruct u; discriminate.
  - intros (u & v & H). destruct u as [|? [|? [|? [|? [|? u]]]]]; try discriminate; destruct u; discriminate.
  - intros [H|[H|[]]]; discriminate.
  - exists [42]. split; [|reflexivity].
    intros (u & v & H). destruct u as [|? [|? u]]; try discriminate; destruct u; discriminate.
  - exists [47; 42]. split; [|reflexivity]. intros [H|[H|[]]]; discriminate.
  - right. reflexivity.
  - exists [233], []. split; reflexivity.
  - exists [233; 47], []. split; reflexivity.
Qed.

(* two different sources with the same lexer image (a slash-star x star-slash b
   and a slash-star star star-slash b) and two block comments of the same byte
   length with different content (one of them holds a 2-byte scalar): the
   hypotheses of the two content theorems are satisfiable by different comments *)
Example C05_equal_image_witnesses :
  lex_spec [97; 47; 42; 120; 42; 47; 98] = lex_spec [97; 47; 42; 42; 42; 47; 98] /\
  [97; 47; 42; 120; 42; 47; 98] <> [97; 47; 42; 42; 42; 47; 98] /\
  block_comment [47; 42; 233; 42; 47] /\ block_comment [47; 42; 42; 42; 42; 47] /\
  [47; 42; 233; 42; 47] <> [47; 42; 42; 42; 42; 47] /\
  text_bytes [47; 42; 233; 42; 47] = text_bytes [47; 42; 42; 42; 42; 47].
Proof.
  repeat split; try reflexivity.
  - discriminate.
  - exists [233]. split; [|reflexivity].
    intros (u & v & H). destruct u as [|? [|? u]]; try discriminate; destruct u; discriminate.
  - exists [42; 42]. split; [|reflexivity].
    intros (u & v & H). destruct u as [|? [|? [|? u]]]; try discriminate; destruct u; discriminate.
  - discriminate.
Qed.
