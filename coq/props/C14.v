(* C14 - SSA form is valid and preserves which assignment each read sees.
   The theorems are about the verified validator SsaCheck.ssa_check, which the
   check runs on the implementation's real SSA graph (and the implementation's
   own dominator tree as an untrusted certificate) for every explored
   definition.  The dynamic statement (Spec.SsaSpec.exec_path) walks an
   arbitrary path from the entry, tracks for every variable the version most
   recently assigned on that path, and fails as soon as a read names another
   version or a phi does not find the incoming version among its arguments. *)
From Coq Require Import ZArith NArith List Bool.
Require Import Model.Base Model.Ir Model.SsaCheck Model.SsaErase Spec.SsaSpec Spec.SsaOrigin Proofs.SsaProofs Proofs.SsaEraseProofs.
Import ListNotations.

(* along EVERY path (no bound on length or loop unrolling), every read names
   the version most recently assigned to its variable on that path *)
Theorem C14_paths_ok : forall c idom pi,
  ssa_check c idom = true -> path_from_entry c pi ->
  exists L, exec_path c (params_map (c_params c)) pi = Some L.
Proof. exact ssa_check_paths_ok. Qed.
Print Assumptions C14_paths_ok.

(* at most one defining statement per versioned local *)
Theorem C14_unique_defs : forall c idom, ssa_check c idom = true -> NoDup (all_defs c).
Proof. exact ssa_check_unique_defs. Qed.
Print Assumptions C14_unique_defs.

(* versioned names are declared locals; signals and components are unversioned *)
Theorem C14_versions_declared : forall c idom v,
  ssa_check c idom = true -> In v (all_occurrences c) ->
  match vn_version v with
  | Some _ => decl_type c v = Some TLocal
  | None => decl_type c v <> Some TLocal
  end.
Proof. exact ssa_check_occurrences. Qed.
Print Assumptions C14_versions_declared.

(* phi statements stand only at the head of blocks *)
Theorem C14_phis_at_head : forall c idom i b,
  ssa_check c idom = true -> nth_error (c_blocks c) i = Some b ->
  Forall (fun s => is_phi_stmt s = false) (snd (leading_phis (b_stmts b))).
Proof. exact ssa_check_phis_at_head. Qed.
Print Assumptions C14_phis_at_head.

(* every read is dominated by its definition: on EVERY path from the entry that
   ends in the block of the read, the version the read names has been assigned
   by a statement of that path (or is the parameter's initial version, or the
   fresh base version of an element-wise update of a never-assigned array) *)
Theorem C14_read_defined_on_every_path : forall c idom pi bi b s v n,
  ssa_check c idom = true -> path_from_entry c (pi ++ [bi]) ->
  nth_error (c_blocks c) bi = Some b -> In s (b_stmts b) -> is_phi_stmt s = false ->
  In v (stmt_reads s) -> vn_version v = Some n ->
  update_base s = Some v \/
  vget (params_map (c_params c)) (key_of v) = Some n \/
  defined_on c (pi ++ [bi]) (key_of v) n.
Proof. exact ssa_check_read_defined_on_path. Qed.
Print Assumptions C14_read_defined_on_every_path.

(* the local conditions alone (without trusting how the maps were obtained) suffice *)
Theorem C14_local_conditions_suffice : forall c infos,
  infos_ok infos c = true ->
  (forall i b, nth_error (c_blocks c) i = Some b -> b_index b = N.of_nat i) ->
  forall pi, path_from_entry c pi -> exists L, exec_path c (params_map (c_params c)) pi = Some L.
Proof. exact paths_ok. Qed.
Print Assumptions C14_local_conditions_suffice.

(* ---- "it sees the same assignment as the original program" ----
   SsaErase.erase_check (run by the check on the real graphs before and after
   SSA conversion) accepts when the SSA graph is the original graph with versions
   added and phi statements prepended.  Then the two graphs have the same paths ... *)
Theorem C14_erasure_same_paths : forall pre c pi,
  erase_eqb pre c = true -> (path_from_entry c pi <-> path_from_entry pre pi).
Proof. exact erase_same_paths. Qed.
Print Assumptions C14_erasure_same_paths.

(* ... at the end of EVERY path (no bound), the origin of the running version of a
   variable - the body statement that assigned it, followed back through the phi
   statements executed on the path - is the position of the assignment to that
   variable executed last in the ORIGINAL program along the same path ... *)
Theorem C14_origin_is_last_source_assignment : forall pre c pi x n,
  erase_check pre c = true ->
  vget (fst (org_path c (params_map (c_params c), O0) pi)) x = Some n ->
  snd (org_path c (params_map (c_params c), O0) pi) x n = src_path pre S0 pi x.
Proof. exact origin_is_last_source_assignment. Qed.
Print Assumptions C14_origin_is_last_source_assignment.

(* ... and for every read: the original block has a similar statement at the same
   position, the read names the running version, and the origin of that version is
   the source assignment reaching that statement in the original program *)
Theorem C14_reads_see_source_assignment : forall pre c idom pi bi b k s v n,
  ssa_check c idom = true -> erase_check pre c = true ->
  path_from_entry c (pi ++ [bi]) ->
  nth_error (c_blocks c) bi = Some b -> nth_error (body_of b) k = Some s ->
  In v (stmt_reads s) -> vn_version v = Some n -> update_base s <> Some v ->
  path_from_entry pre (pi ++ [bi]) /\
  (exists bp s', nth_error (c_blocks pre) bi = Some bp /\ nth_error (b_stmts bp) k = Some s' /\ stmt_sim s' s = true) /\
  vget (fst (org_at c pi bi k)) (key_of v) = Some n /\
  snd (org_at c pi bi k) (key_of v) n = src_at pre pi bi k (key_of v).
Proof. exact reads_see_source_assignment. Qed.
Print Assumptions C14_reads_see_source_assignment.

(* ---- the construction itself (mirror Model.Ssa.into_ssa, compared with the real
   `into_ssa` on every run): for ALL frontier tables, ALL children tables and ALL graphs.
   Hypotheses on the graph BEFORE the conversion (decidable, syntactic):
     phi_free c      no phi expression anywhere (IR lifting builds none)
     decls_ok c      the names of a local declaration statement share one key
                     (the Rust code asserts names.len() == 1)
     unversioned c   no variable occurrence carries a version yet (Proofs.SsaNoPanic)
     pre_ssa_ok c    phi_free, decls_ok, and the parameters are declared locals
     children_cover  the children table reaches every block from block 0 ---- *)
Require Import Model.Ssa Proofs.SsaNoPanic Proofs.SsaConstruction.

(* the output is the input with versions added and phi statements prepended *)
Theorem C14_construction_is_erasure : forall frontier children c c',
  phi_free c = true -> decls_ok c = true ->
  into_ssa frontier children c = SOk c' -> erase_eqb c c' = true.
Proof. exact into_ssa_is_erasure. Qed.
Print Assumptions C14_construction_is_erasure.

(* phi statements stand only at the head of blocks *)
Theorem C14_construction_phis_at_head : forall frontier children c c',
  into_ssa frontier children c = SOk c' -> phi_free c = true ->
  forall b, In b (c_blocks c') -> Forall (fun s => is_phi_stmt s = false) (body_of b).
Proof. exact into_ssa_phis_at_head. Qed.
Print Assumptions C14_construction_phis_at_head.

(* every versioned local has at most one defining statement (versions are handed
   out by a per-key counter that only grows) *)
Theorem C14_construction_unique_defs : forall frontier children c c',
  unversioned c -> into_ssa frontier children c = SOk c' -> NoDup (all_defs c').
Proof. exact into_ssa_unique_defs_unversioned. Qed.
Print Assumptions C14_construction_unique_defs.

(* no key is assigned both with and without a version *)
Theorem C14_construction_mixed_keys_ok : forall frontier children c c',
  children_cover children (length (c_blocks c)) ->
  forallb (is_local_in (c_decls c)) (c_params c) = true ->
  into_ssa frontier children c = SOk c' -> mixed_keys_ok c' = true.
Proof. exact into_ssa_mixed_keys_ok. Qed.
Print Assumptions C14_construction_mixed_keys_ok.

(* so the construction always passes the erasure validator *)
Theorem C14_construction_passes_erase_check : forall frontier children c c',
  pre_ssa_ok c = true -> children_cover children (length (c_blocks c)) ->
  into_ssa frontier children c = SOk c' -> erase_check c c' = true.
Proof. exact into_ssa_passes_erase_check. Qed.
Print Assumptions C14_construction_passes_erase_check.

(* ---- every read of a local gets a version; every version is listed by a Declaration statement
   (proof round 4; Proofs.SsaUnvConstruction).  The validator condition SsaCheck.unversioned_reads_ok
   (third audit; meaning: Proofs.SsaUnversioned.unversioned_reads_ok_spec) is evaluated by the check on
   every real SSA graph; here it is proved of the construction mirror, for ALL frontier tables, children
   tables and graphs.  The mirror leaves the declaration table of its output empty, so the statement
   is over SsaDecls.with_stmt_decls c' - the table rebuilt from the re-issued Declaration statements,
   which is how the real update_declarations builds the table of the SSA graph.  Hypotheses (decidable,
   on the graph BEFORE the conversion):
     children_cover            the tree walk reaches every block (children_coverb, evaluated per definition)
     parameters are locals     third conjunct of pre_ssa_ok (evaluated per definition)
     decl_stmts_declared c     (Model.SsaDecls) a Declaration statement of a local names a local of the
                               table c_decls c - IR lifting adds the table entry when it appends the statement
     locals_have_decl_stmt c   (Model.SsaDecls) a local of the table is a parameter or has a Declaration
                               statement in some block
     phi_free, decls_ok        conjuncts of pre_ssa_ok;   stmt_unvb  conjunct of ssa_dyn_pre_ok
   Each hypothesis is needed: Proofs.SsaUnvConstruction.Needed has a graph per dropped hypothesis. ---- *)
Require Import Model.SsaDecls Proofs.SsaUnvConstruction.

(* in the output, a name that a statement reads without a version - in an expression, an array index,
   an access list, a logged expression, a dimension of a Declaration statement - is not a local of the
   declaration table of the input: every read of a local has been given a version (on a path where the
   local is not yet assigned the mirror answers SErrUndefined, not SOk) *)
Theorem C14_construction_reads_of_locals_versioned : forall frontier children c c' b s v,
  children_cover children (length (c_blocks c)) ->
  into_ssa frontier children c = SOk c' ->
  In b (c_blocks c') -> In s (b_stmts b) -> In v (stmt_reads s) -> vn_version v = None ->
  is_local_in (c_decls c) v = false.
Proof. exact into_ssa_unversioned_reads_nonlocal. Qed.
Print Assumptions C14_construction_reads_of_locals_versioned.

(* the validator condition, over the table rebuilt from the re-issued Declaration statements: no statement
   reads, without a version, a name whose key is the key of a parameter or of a versioned name that a
   Declaration statement of a local lists (signals and components stay unversioned by design: their
   Declaration statements are not of type Local) *)
Theorem C14_construction_unversioned_reads_ok : forall frontier children c c',
  children_cover children (length (c_blocks c)) ->
  forallb (is_local_in (c_decls c)) (c_params c) = true ->
  decl_stmts_declared c = true ->
  into_ssa frontier children c = SOk c' -> unversioned_reads_ok (with_stmt_decls c') = true.
Proof. exact into_ssa_unversioned_reads_ok. Qed.
Print Assumptions C14_construction_unversioned_reads_ok.

(* the same condition on the mirror's output as it stands (empty table: it speaks about the parameters) *)
Theorem C14_construction_unversioned_reads_ok_parameters : forall frontier children c c',
  children_cover children (length (c_blocks c)) ->
  forallb (is_local_in (c_decls c)) (c_params c) = true ->
  into_ssa frontier children c = SOk c' -> unversioned_reads_ok c' = true.
Proof. exact into_ssa_unversioned_reads_ok_bare. Qed.
Print Assumptions C14_construction_unversioned_reads_ok_parameters.

(* every versioned name that occurs in the output - parameter, read, assignment target, phi argument,
   declared name - is listed by a Declaration statement of the output or is a version of a parameter
   (SsaDecls.versions_stmt_declared; meaning: Proofs.SsaUnvConstruction.versions_stmt_declared_spec):
   update_decl_stmt re-issues each Declaration statement of a local with ALL versions 0..counter of its key,
   and no version above the counter of its key is ever handed out *)
Theorem C14_construction_versions_stmt_declared : forall frontier children c c',
  phi_free c = true -> decls_ok c = true ->
  forallb (fun b => forallb stmt_unvb (b_stmts b)) (c_blocks c) = true ->
  locals_have_decl_stmt c = true ->
  into_ssa frontier children c = SOk c' -> versions_stmt_declared c' = true.
Proof. exact into_ssa_versions_stmt_declared. Qed.
Print Assumptions C14_construction_versions_stmt_declared.

(* Cytron et al.'s theorem for this construction: the output satisfies the DYNAMIC statement
   of C14 on EVERY path from the entry (no bound on length or loop unrolling): every read names
   the version most recently assigned on that path, every phi finds the arriving version
   among its arguments.  Hypotheses:
     ssa_dyn_pre_ok c   (Model.SsaPre, decidable, evaluated per explored definition) the graph before
                        conversion: pre_ssa_ok, at least one block, no variable carries a version,
                        update expressions stand only as  x = update(x, ..) , the Local tag of an
                        assignment agrees with the declarations, parameters are pairwise distinct,
                        successors are blocks of the graph and never the entry block
     children_treeb     (decidable) the pre-order of the children table holds every block exactly once
     creach c           every block is reachable from block 0
     children_sound     the parent of a child is its immediate dominator    } path-based definitions of
     frontier_exact     the frontier table is the dominance frontier        } Spec.SsaDomSpec (as C15's) *)
Require Import Spec.SsaDomSpec Proofs.SsaDominance.
Theorem C14_construction_paths_ok : forall frontier children c c',
  ssa_dyn_pre_ok c = true ->
  children_treeb children (length (c_blocks c)) = true ->
  creach c -> children_sound c children -> frontier_exact c frontier ->
  into_ssa frontier children c = SOk c' ->
  forall pi, path_from_entry c' pi -> exists L, exec_path c' (params_map (c_params c')) pi = Some L.
Proof. exact into_ssa_paths_ok. Qed.
Print Assumptions C14_construction_paths_ok.

(* hence, in the output of the construction, every read is dominated by its definition: on EVERY
   path from the entry that ends in the block of the read, the version the read names has been
   assigned by a statement of that path (or is the parameter's version, or the fresh base version
   of an element-wise update of a never-assigned array) *)
Theorem C14_construction_read_defined_on_every_path : forall frontier children c c' pi bi b s v n,
  ssa_dyn_pre_ok c = true ->
  children_treeb children (length (c_blocks c)) = true ->
  creach c -> children_sound c children -> frontier_exact c frontier ->
  into_ssa frontier children c = SOk c' ->
  path_from_entry c' (pi ++ [bi]) ->
  nth_error (c_blocks c') bi = Some b -> In s (b_stmts b) -> is_phi_stmt s = false ->
  In v (stmt_reads s) -> vn_version v = Some n ->
  update_base s = Some v \/
  vget (params_map (c_params c')) (key_of v) = Some n \/
  defined_on c' (pi ++ [bi]) (key_of v) n.
Proof. exact into_ssa_read_defined_on_path. Qed.
Print Assumptions C14_construction_read_defined_on_every_path.

(* non-vacuity: a two-block loop graph  x.1 = phi(x.0, x.2); x.2 = x.1 + 1  is
   accepted, and the same graph reading the stale x.0 in the loop is rejected *)
Definition k0 : know := {| kval := None; kdeg := None |}.
Definition xv (n : N) : vname := {| vn_name := [120%N]; vn_suffix := None; vn_version := Some n |}.
Definition m0 : meta := {| m_start := 0%N; m_end := 0%N; m_file := None |}.
Definition loop_graph (readv : N) : cfg :=
  {| c_kind := KFunction; c_params := [xv 0];
     c_decls := [(xv 0, TLocal); (xv 1, TLocal); (xv 2, TLocal)];
     c_blocks :=
       [ {| b_index := 0%N; b_depth := 0%N; b_stmts := []; b_preds := []; b_succs := [1%N] |};
         {| b_index := 1%N; b_depth := 1%N;
            b_stmts := [ SSubst m0 (xv 1) OpVar (EPhi [xv 0; xv 2] k0) None (Some TLocal);
                         SSubst m0 (xv 2) OpVar (EInfix IAdd (EVar (xv readv) k0) (ENum 1 k0) k0) None (Some TLocal) ];
            b_preds := [0%N; 1%N]; b_succs := [1%N] |} ] |}.
Example C14_validator_accepts_and_rejects :
  ssa_check (loop_graph 1) [None; Some 0%N] = true /\ ssa_check (loop_graph 0) [None; Some 0%N] = false.
Proof. vm_compute. split; reflexivity. Qed.
Example C14_long_path_executes :
  exists L, exec_path (loop_graph 1) (params_map [xv 0]) [0; 1; 1; 1; 1; 1]%nat = Some L.
Proof. vm_compute. eauto. Qed.

(* the loop graph is the SSA form of  x = x + 1  in a loop; after three rounds the
   running version x.2 has its origin at block 1, body position 0, which is where the
   original program assigned x last; a graph reading another variable is not an erasure *)
Definition xu : vname := {| vn_name := [120%N]; vn_suffix := None; vn_version := None |}.
Definition yu : vname := {| vn_name := [121%N]; vn_suffix := None; vn_version := None |}.
Definition pre_graph (readv : vname) : cfg :=
  {| c_kind := KFunction; c_params := [xu]; c_decls := [(xu, TLocal)];
     c_blocks :=
       [ {| b_index := 0%N; b_depth := 0%N; b_stmts := []; b_preds := []; b_succs := [1%N] |};
         {| b_index := 1%N; b_depth := 1%N;
            b_stmts := [ SSubst m0 xu OpVar (EInfix IAdd (EVar readv k0) (ENum 1 k0) k0) None (Some TLocal) ];
            b_preds := [0%N; 1%N]; b_succs := [1%N] |} ] |}.
Example C14_erasure_accepts_and_rejects :
  erase_check (pre_graph xu) (loop_graph 1) = true /\ erase_check (pre_graph yu) (loop_graph 1) = false.
Proof. vm_compute. split; reflexivity. Qed.
Example C14_origin_example :
  let st := org_path (loop_graph 1) (params_map [xv 0], O0) [0; 1; 1; 1]%nat in
  vget (fst st) (key_of xu) = Some 2%N /\ snd st (key_of xu) 2%N = Some (1, 0)%nat /\
  src_path (pre_graph xu) S0 [0; 1; 1; 1]%nat (key_of xu) = Some (1, 0)%nat.
Proof. vm_compute. repeat split; reflexivity. Qed.

(* the construction on a loop:   var x; x = 0; do { x = x + 1 } while (x); return x
   blocks 0 -> 1 -> 1|2, dominator tree 0 - 1 - 2, dominance frontier of block 1 = {1}.
   The hypotheses of the construction theorems hold for it; the output
     0: var x.0,x.1,x.2; x.0 = 0     1: x.1 = phi(x.0, x.2); x.2 = x.1 + 1; if x.2     2: return x.2
   passes the erasure validator and (with the declaration table rebuilt from the re-issued
   declaration statements - the mirror leaves the table itself empty) the SSA validator *)
Definition loop_pre : cfg :=
  {| c_kind := KFunction; c_params := []; c_decls := [(xu, TLocal)];
     c_blocks :=
       [ {| b_index := 0%N; b_depth := 0%N;
            b_stmts := [ SDecl m0 [xu] TLocal [];
                         SSubst m0 xu OpVar (ENum 0 k0) None (Some TLocal) ];
            b_preds := []; b_succs := [1%N] |};
         {| b_index := 1%N; b_depth := 1%N;
            b_stmts := [ SSubst m0 xu OpVar (EInfix IAdd (EVar xu k0) (ENum 1 k0) k0) None (Some TLocal);
                         SIf m0 (EVar xu k0) 1%N (Some 2%N) ];
            b_preds := [0%N; 1%N]; b_succs := [1%N; 2%N] |};
         {| b_index := 2%N; b_depth := 0%N;
            b_stmts := [ SRet m0 (EVar xu k0) ];
            b_preds := [1%N]; b_succs := [] |} ] |}.
Definition loop_frontier : list (list N) := [[]; [1%N]; []].
Definition loop_children : list (list N) := [[1%N]; [2%N]; []].
(* with_stmt_decls: Model.SsaDecls (the table rebuilt from the Declaration statements) *)
Example C14_construction_hypotheses_satisfiable :
  pre_ssa_ok loop_pre = true /\ unversioned loop_pre /\
  children_cover loop_children (length (c_blocks loop_pre)).
Proof.
  split; [vm_compute; reflexivity|]. split.
  - apply unversioned_of_forallb. vm_compute. reflexivity.
  - apply children_coverb_spec. vm_compute. reflexivity.
Qed.
Example C14_construction_example :
  exists c', into_ssa loop_frontier loop_children loop_pre = SOk c' /\
    map (fun b => length (b_stmts b)) (c_blocks c') = [2; 3; 1]%nat /\
    erase_check loop_pre c' = true /\
    ssa_check (with_stmt_decls c') [None; Some 0%N; Some 1%N] = true.
Proof. vm_compute. eexists. repeat split. Qed.

(* ---- the dominance hypotheses of C14_construction_paths_ok are what C15 proves ----
   For a graph whose predecessor / successor lists are rooted (Spec.DomSpec.rooted, C15's
   hypothesis) the mirror of DominatorTree::new returns a tree t (C15_no_panic) whose frontier
   and children masks, enumerated in ANY order (the HashSet iteration orders), are tables that
   satisfy creach / children_sound / frontier_exact (Proofs.SsaDomBridge, from
   C15_frontier_exact, C15_dom_tree_children_invert_idom, C15_idom_exact) and children_treeb
   (the pre-order of an immediate-dominator tree holds every block once: the number of
   dominators grows strictly from parent to child, Proofs.SsaTreeRank).  So the construction
   run on the computed tables satisfies the dynamic statement; what remains as hypothesis
   about the graph handed to SSA conversion is decidable (ssa_dyn_pre_ok, evaluated per
   explored definition) or C15's own hypothesis (rooted). *)
Require Spec.DomSpec Model.Dom Proofs.SsaDomBridge.
From Coq Require Import Permutation.
Theorem C14_construction_paths_ok_on_computed_tables : forall c ord horder t c',
  DomSpec.rooted (SsaDomBridge.graph_of c) -> DomSpec.order_ok ord -> (forall l, Permutation (horder l) l) ->
  Dom.dominator_tree (Dom.dom_fuel (SsaDomBridge.graph_of c)) ord (SsaDomBridge.graph_of c) = Ok t ->
  ssa_dyn_pre_ok c = true ->
  into_ssa (SsaDomBridge.sets_of horder (Dom.dt_frontier t)) (SsaDomBridge.sets_of horder (Dom.dt_children t)) c = SOk c' ->
  forall pi, path_from_entry c' pi -> exists L, exec_path c' (params_map (c_params c')) pi = Some L.
Proof. exact SsaDomBridge.into_ssa_paths_ok_c15. Qed.
Print Assumptions C14_construction_paths_ok_on_computed_tables.

(* the hypotheses of C14_construction_paths_ok hold for the loop graph above (the dominance
   hypotheses through the bridge: the mirror of DominatorTree::new computes exactly
   loop_frontier and loop_children for it) ... *)
Example C14_construction_paths_hypotheses_satisfiable :
  ssa_dyn_pre_ok loop_pre = true /\ children_treeb loop_children (length (c_blocks loop_pre)) = true /\
  creach loop_pre /\ children_sound loop_pre loop_children /\ frontier_exact loop_pre loop_frontier.
Proof. exact SsaDomBridge.Example.loop_hypotheses. Qed.
(* ... so every path through its SSA form executes, however often the loop is taken *)
Example C14_construction_paths_example :
  exists c', into_ssa loop_frontier loop_children loop_pre = SOk c' /\
    forall pi, path_from_entry c' pi -> exists L, exec_path c' (params_map (c_params c')) pi = Some L.
Proof.
  destruct C14_construction_paths_hypotheses_satisfiable as (H1 & H2 & H3 & H4 & H5).
  destruct (into_ssa loop_frontier loop_children loop_pre) as [c'| | |] eqn:E; try (vm_compute in E; discriminate E).
  exists c'. split; [reflexivity|]. exact (C14_construction_paths_ok _ _ _ _ H1 H2 H3 H4 H5 E).
Qed.

(* ---- proof round 4: a template-like graph with a parameter p, locals n (reassigned under an if), q (never
   assigned), an array t whose dimensions read n and p AFTER the join (so they must name the phi versions),
   a signal s read in an access list and in a dimension; the hypotheses of the four theorems hold for it,
   the conversion succeeds and both conditions hold of the output ---- *)
Definition uv (ch : N) : vname := {| vn_name := [ch]; vn_suffix := None; vn_version := None |}.
Definition dims_pre : cfg :=
  {| c_kind := KFunction; c_params := [uv 112];
     c_decls := [(uv 112, TLocal); (uv 110, TLocal); (uv 115, TSigInt); (uv 116, TLocal); (uv 113, TLocal)];
     c_blocks :=
       [ {| b_index := 0%N; b_depth := 0%N;
            b_stmts := [ SDecl m0 [uv 110] TLocal [];
                         SSubst m0 (uv 110) OpVar (EInfix IAdd (ENum 2 k0) (EVar (uv 112) k0) k0) None (Some TLocal);
                         SDecl m0 [uv 115] TSigInt [EVar (uv 110) k0];
                         SDecl m0 [uv 113] TLocal [];
                         SIf m0 (EVar (uv 110) k0) 1%N (Some 2%N) ];
            b_preds := []; b_succs := [1%N; 2%N] |};
         {| b_index := 1%N; b_depth := 1%N;
            b_stmts := [ SSubst m0 (uv 110) OpVar (EInfix IAdd (EVar (uv 110) k0) (ENum 1 k0) k0) None (Some TLocal);
                         SSubst m0 (uv 112) OpVar (EInfix IAdd (EVar (uv 112) k0) (ENum 1 k0) k0) None (Some TLocal) ];
            b_preds := [0%N]; b_succs := [2%N] |};
         {| b_index := 2%N; b_depth := 0%N;
            b_stmts := [ SDecl m0 [uv 116] TLocal [EVar (uv 110) k0; EVar (uv 112) k0];
                         SSubst m0 (uv 116) OpVar (EUpdate (uv 116) [AIdx (EVar (uv 110) k0)] (EVar (uv 115) k0) k0) None (Some TLocal);
                         SSubst m0 (uv 115) OpSig (EAccess (uv 116) [AIdx (EVar (uv 110) k0); AIdx (EAccess (uv 115) [AIdx (EVar (uv 112) k0)] k0)] k0)
                                None (Some TSigInt);
                         SRet m0 (EVar (uv 116) k0) ];
            b_preds := [0%N; 1%N]; b_succs := [] |} ] |}.
Definition dims_frontier : list (list N) := [[]; [2%N]; []].
Definition dims_children : list (list N) := [[1%N; 2%N]; []; []].
Example C14_construction_declaration_hypotheses_satisfiable :
  children_cover dims_children (length (c_blocks dims_pre)) /\
  pre_ssa_ok dims_pre = true /\ ssa_dyn_pre_ok dims_pre = true /\
  forallb (fun b => forallb stmt_unvb (b_stmts b)) (c_blocks dims_pre) = true /\
  decl_stmts_declared dims_pre = true /\ locals_have_decl_stmt dims_pre = true.
Proof. split; [apply children_coverb_spec|]; vm_compute; repeat split; reflexivity. Qed.
Example C14_construction_declaration_example :
  exists c', into_ssa dims_frontier dims_children dims_pre = SOk c' /\
    map (fun b => length (b_stmts b)) (c_blocks c') = [5; 2; 6]%nat /\
    unversioned_reads_ok (with_stmt_decls c') = true /\ versions_stmt_declared c' = true /\
    length (stmt_decl_names c') = 7%nat.
Proof. vm_compute. eexists. repeat split. Qed.
(* the conditions are not vacuous: a graph that reads the local n without a version in a dimension, and a
   graph that assigns a version no Declaration statement lists, are rejected *)
Example C14_declaration_conditions_reject :
  unversioned_reads_ok (with_stmt_decls (set_blocks (loop_graph 1)
     [ {| b_index := 0%N; b_depth := 0%N; b_stmts := [SDecl m0 [xv 0; xv 1; xv 2] TLocal [EVar xu k0]]; b_preds := []; b_succs := [] |} ])) = false /\
  versions_stmt_declared (set_blocks (loop_graph 1)
     [ {| b_index := 0%N; b_depth := 0%N; b_stmts := [SSubst m0 {| vn_name := [121%N]; vn_suffix := None; vn_version := Some 3%N |} OpVar (ENum 0 k0) None (Some TLocal)]; b_preds := []; b_succs := [] |} ]) = false.
Proof. vm_compute. split; reflexivity. Qed.

(* ---- fourth audit: what ssa_check alone accepts although the text of C14 excludes it.  Model.SsaStrict.ssa_strict
   (phi_args_ok, fresh_bases_ok, locals_versioned_ok, decl_table_ok; evaluated with ssa_check on every real graph by
   the driver command ssacheck) closes the holes; the two theorems say what the first two conditions mean on paths
   (the other two are statements about the text of the graph: Proofs.SsaStrictProofs.locals_versioned_spec,
   locals_versioned_unversioned_reads, decl_table_spec - unfoldings, not obligations). ---- *)
Require Import Model.SsaStrict Proofs.SsaStrictProofs.

(* "or is a phi argument defined on an incoming path": every argument of a phi has the key of the phi's target and
   is, for SOME predecessor p of the block, the version of that key that is running at the end of EVERY path from
   the entry ending in p (for an argument without a version: no version is running there) - a phi argument is a read
   made along an incoming edge and names the most recent assignment on it.  An argument that arrives along no
   edge (the version of the immediate dominator at an if/else join, a foreign variable, the phi's own target) is
   rejected. *)
Theorem C14_phi_arguments_arrive : forall c idom j b s x args a,
  ssa_check c idom = true -> ssa_strict c idom = StrictOk ->
  nth_error (c_blocks c) j = Some b -> In s (fst (leading_phis (b_stmts b))) ->
  phi_parts s = Some (x, args) -> In a args ->
  key_of a = key_of x /\
  exists p, In p (b_preds b) /\
    forall pi L, path_from_entry c (pi ++ [N.to_nat p]) ->
                 exec_path c (params_map (c_params c)) (pi ++ [N.to_nat p]) = Some L ->
                 vget L (key_of x) = vn_version a.
Proof. exact ssa_strict_phi_args_arrive. Qed.
Print Assumptions C14_phi_arguments_arrive.

(* C14_read_defined_on_every_path with its first disjunct tightened: the base of an element-wise update that is
   read without a running version names a version that NO statement of the graph defines (so a read is dominated by
   its definition, is a parameter's version, or has no definition at all - never a definition that does not
   dominate it) *)
Theorem C14_read_defined_or_fresh_on_every_path : forall c idom pi bi b s v n,
  ssa_check c idom = true -> ssa_strict c idom = StrictOk ->
  path_from_entry c (pi ++ [bi]) ->
  nth_error (c_blocks c) bi = Some b -> In s (b_stmts b) -> is_phi_stmt s = false ->
  In v (stmt_reads s) -> vn_version v = Some n ->
  (update_base s = Some v /\ ~ In v (all_defs c)) \/
  vget (params_map (c_params c)) (key_of v) = Some n \/
  defined_on c (pi ++ [bi]) (key_of v) n.
Proof. exact ssa_strict_read_defined. Qed.
Print Assumptions C14_read_defined_or_fresh_on_every_path.

(* the loop graph passes all four conditions; ssa_check accepts each of the four variants below and ssa_strict
   rejects it: a phi argument x.7 that arrives along no edge; a first element-wise update that defines the
   version it reads; a local y assigned without a version and absent from the table; a table with an extra x.9 *)
Definition yv (o : option N) : vname := {| vn_name := [121%N]; vn_suffix := None; vn_version := o |}.
Definition strict_variant (phi_extra : list vname) (extra : list stmt) (decls : list (vname * vtype)) : cfg :=
  {| c_kind := KFunction; c_params := [xv 0];
     c_decls := [(xv 0, TLocal); (xv 1, TLocal); (xv 2, TLocal)] ++ decls;
     c_blocks :=
       [ {| b_index := 0%N; b_depth := 0%N; b_stmts := extra; b_preds := []; b_succs := [1%N] |};
         {| b_index := 1%N; b_depth := 1%N;
            b_stmts := [ SSubst m0 (xv 1) OpVar (EPhi ([xv 0; xv 2] ++ phi_extra) k0) None (Some TLocal);
                         SSubst m0 (xv 2) OpVar (EInfix IAdd (EVar (xv 1) k0) (ENum 1 k0) k0) None (Some TLocal) ];
            b_preds := [0%N; 1%N]; b_succs := [1%N] |} ] |}.
Example C14_strict_accepts_and_rejects :
  let idom := [None; Some 0%N] in
  (ssa_check (strict_variant [] [] []) idom, ssa_strict (strict_variant [] [] []) idom) = (true, StrictOk) /\
  (ssa_check (strict_variant [xv 7] [] [(xv 7, TLocal)]) idom,
   ssa_strict (strict_variant [xv 7] [] [(xv 7, TLocal)]) idom) = (true, BadPhiArgs) /\
  (ssa_check (strict_variant [] [SSubst m0 (yv (Some 0%N)) OpVar (EUpdate (yv (Some 0%N)) [AIdx (ENum 0 k0)] (ENum 1 k0) k0) None (Some TLocal)]
                             [(yv (Some 0%N), TLocal)]) idom,
   ssa_strict (strict_variant [] [SSubst m0 (yv (Some 0%N)) OpVar (EUpdate (yv (Some 0%N)) [AIdx (ENum 0 k0)] (ENum 1 k0) k0) None (Some TLocal)]
                              [(yv (Some 0%N), TLocal)]) idom) = (true, BadFreshBase) /\
  (ssa_check (strict_variant [] [SSubst m0 (yv None) OpVar (ENum 1 k0) None (Some TLocal)] []) idom,
   ssa_strict (strict_variant [] [SSubst m0 (yv None) OpVar (ENum 1 k0) None (Some TLocal)] []) idom) = (true, LocalUnversioned) /\
  (ssa_check (strict_variant [] [] [(xv 9, TLocal)]) idom, ssa_strict (strict_variant [] [] [(xv 9, TLocal)]) idom) = (true, BadTable).
Proof. vm_compute. repeat split; reflexivity. Qed.
