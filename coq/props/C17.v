(* C17 — findings are a function of the sources.  Property theorems only.
   Model.Runner (see C03.v) is the report path with the stage outputs as data;
   Model.RunnerSrc puts the source level on top of it: the pass results of a
   definition are a FUNCTION of the answers to the lookups its passes make (a
   modelling assumption, see "THE MODELLED INTERFACE" below), so that
   "definitions it does not reference" has a meaning in the model.
   Model.RunnerLib mirrors how the name maps are built from the parsed files
   after the repair of defect D22 (file-id order, first definition of a name
   kept).  One known finding: when a name is defined in two files that are both
   named on the command line, naming them in another order keeps another
   definition (C17_files_in_another_order needs the names distinct, and is
   refuted otherwise: C17-duplicate-name-file-order).
   Proofs.DesugarOrder covers the HashMap loops of remove_syntactic_sugar over
   Model.Desugar (the mirror of C18).  These theorems cover ALL iteration
   orders of the name maps, all lookup sequences and all orders of the
   desugaring loops; orders inside the other stages (SSA, dominators, taint
   maps, declaration maps) are observed by the repeated runs of
   lib/props/C17.py only. *)
From Coq Require Import ZArith NArith List Bool Arith Permutation String.
Require Import Model.Base Gen.Category Model.Runner Model.RunnerSrc Model.RunnerLib
               Spec.RunnerSpec Spec.RunnerSrcSpec Proofs.RunnerProofs Proofs.RunnerSrcProofs Proofs.RunnerLibProofs
               Proofs.RunnerFileIds Proofs.RunnerFileOrder.
Require Model.Ast Model.Desugar Proofs.DesugarOrder.
Import ListNotations.

(* whatever order the HashMaps of names are iterated in (and hence whichever
   template is looked up before or after it is analysed): same displayed
   multiset, same exit status, same summary, same SARIF results *)
Theorem C17_runner_order_independent : forall p o order1 order2,
  wf_project p -> analysis_order p order1 -> analysis_order p order2 ->
  Permutation (res_shown (run_keys p o order1)) (res_shown (run_keys p o order2)) /\
  res_exit (run_keys p o order1) = res_exit (run_keys p o order2) /\
  res_summary (run_keys p o order1) = res_summary (run_keys p o order2) /\
  match res_sarif (run_keys p o order1), res_sarif (run_keys p o order2) with
  | Some (r1, _), Some (r2, _) => Permutation r1 r2
  | None, None => True
  | _, _ => False
  end.
Proof. exact runner_order_independent. Qed.
Print Assumptions C17_runner_order_independent.

(* in every state the runner can be in between two operations, a lookup
   succeeds exactly when the template lifts: what a pass sees does not depend
   on the history of the caches *)
Theorem C17_lookup_result_is_lift_result : forall ds P s k,
  Inv ds P s -> (snd (cache ds k s) = true <-> lifts ds k).
Proof. exact lookup_result_is_lift_result. Qed.
Print Assumptions C17_lookup_result_is_lift_result.

Theorem C17_lookups_keep_invariant : forall ds P ns s, Inv ds P s -> Inv ds P (fold_left (lookup ds) ns s).
Proof. exact lookups_preserve. Qed.
Print Assumptions C17_lookups_keep_invariant.

(* ---- the source level: what "references" means, and what follows from it ---------- *)

(* THE MODELLED INTERFACE.  In Model.RunnerSrc the passes of a definition are a
   field [s_pass : list answer -> list report]: they receive NOTHING but the
   answers to the lookups [s_refs] (an answer = the output signals of the looked-up
   template with their numbers of dimensions, or None).  "Findings depend on other
   definitions only through the answers to the lookups" is therefore true in the
   model BY CONSTRUCTION; it is not a theorem here (the one-line lemma
   Proofs.RunnerSrcProofs.findings_function_of_answers is kept as a lemma, not as an
   obligation).  It is an ASSUMPTION about the Rust passes, and it is what check (3)
   of lib/props/C17.py evaluates on every run: harness `c17 deps` records, through
   a wrapper around the real AnalysisContext, the lookups each definition's passes
   make and exactly that summary of each answer; findings grouped by (own source,
   lookups with answers) must coincide across projects, the number of groups that can
   tell (met in two projects, with lookups; with a looked-up definition whose SOURCE
   differs) is recorded and a run with fewer than 5 is a violation.

   CONSEQUENCES OF THE INTERFACE (they hold for the real tool only as far as that
   assumption does): the whole-project theorems
   C17_unreferenced_definitions_irrelevant, C17_included_definitions_irrelevant,
   C17_definitions_reordered below.  What they add to the interface is how the
   ANSWERS behave: [answer_of] over an extended / permuted library, that the
   runner's caches give those answers in every state and that the display is
   assembled per definition.  (The per-definition statements
   findings_unchanged_by_unreferenced / _by_reordering are one-step unfoldings of
   [inst] over find_sdef_app / find_sdef_perm: lemmas of Proofs.RunnerSrcProofs,
   not obligations.) *)

(* the runner's caches answer a lookup as the source level says, in every state
   the runner can be in: Ok exactly when the template exists and lifts *)
Theorem C17_runner_answer_is_source_answer : forall ds P s n,
  Inv (map (inst ds) ds) P s ->
  (snd (cache (map (inst ds) ds) (KTemplate, n) s) = true <-> answer_of ds n <> None).
Proof. exact runner_answer_is_source_answer. Qed.
Print Assumptions C17_runner_answer_is_source_answer.

(* in a run of main, whatever was analysed and looked up before: what the
   analysis of [k] adds to the display is the kept part of its findings *)
Theorem C17_definition_findings_in_any_run : forall sp o pre k post d,
  wf_sproject sp -> analysis_order (inst_project sp) (pre ++ k :: post) ->
  find_sdef (sp_defs sp) k = Some d ->
  let ds := p_defs (inst_project sp) in
  let s0 := write_reports o (sp_user sp) (sp_parse sp) init in
  shown_by ds o (sp_user sp) (fold_left (analyze ds o (sp_user sp)) pre s0) k
  = filter (passes_filters o (sp_user sp)) (produced_def (inst (sp_defs sp) d)).
Proof. exact definition_findings_in_any_run. Qed.
Print Assumptions C17_definition_findings_in_any_run.

(* whole projects: adding definitions that no analysed definition looks up
   leaves the findings of all others untouched; the displayed multiset only
   gains the kept findings of the added user definitions *)
Theorem C17_unreferenced_definitions_irrelevant : forall sp extra o order order',
  wf_sproject (sadd sp extra) ->
  analysis_order (inst_project sp) order -> analysis_order (inst_project (sadd sp extra)) order' ->
  (forall d x, In d (filter (s_user_b (sp_user sp)) (sp_defs sp)) -> In x extra ->
               ~ (s_kind x = KTemplate /\ In (s_name x) (s_refs d))) ->
  Permutation (res_shown (run_src (sadd sp extra) o order'))
              (res_shown (run_src sp o order)
               ++ filter (keep_b o (sp_user sp))
                    (flat_map (fun x => produced_def (inst (sp_defs sp ++ extra) x))
                              (filter (s_user_b (sp_user sp)) extra))).
Proof. exact unreferenced_definitions_irrelevant_src. Qed.
Print Assumptions C17_unreferenced_definitions_irrelevant.

(* definitions that live in included files only and are not looked up change nothing at all *)
Theorem C17_included_definitions_irrelevant : forall sp extra o order,
  wf_sproject (sadd sp extra) -> analysis_order (inst_project sp) order ->
  (forall x, In x extra -> s_user_b (sp_user sp) x = false) ->
  (forall d x, In d (filter (s_user_b (sp_user sp)) (sp_defs sp)) -> In x extra ->
               ~ (s_kind x = KTemplate /\ In (s_name x) (s_refs d))) ->
  analysis_order (inst_project (sadd sp extra)) order /\
  Permutation (res_shown (run_src (sadd sp extra) o order)) (res_shown (run_src sp o order)).
Proof. exact included_unreferenced_definitions_irrelevant. Qed.
Print Assumptions C17_included_definitions_irrelevant.

(* WITHOUT the "is not looked up" hypothesis both statements are false (as they
   are for the real tool: unused_output_signal): an included template that an
   analysed template instantiates changes the findings of the latter *)
Theorem C17_referenced_definition_matters :
  exists sp extra o order,
    wf_sproject (sadd sp extra) /\
    analysis_order (inst_project sp) order /\ analysis_order (inst_project (sadd sp extra)) order /\
    (forall x, In x extra -> s_user_b (sp_user sp) x = false) /\
    (exists d x, In d (filter (s_user_b (sp_user sp)) (sp_defs sp)) /\ In x extra /\
                 s_kind x = KTemplate /\ In (s_name x) (s_refs d)) /\
    ~ Permutation (res_shown (run_src (sadd sp extra) o order))
                  (res_shown (run_src sp o order)
                   ++ filter (keep_b o (sp_user sp))
                        (flat_map (fun x => produced_def (inst (sp_defs sp ++ extra) x))
                                  (filter (s_user_b (sp_user sp)) extra))).
Proof. exact referenced_definition_matters. Qed.
Print Assumptions C17_referenced_definition_matters.

(* the same definitions enumerated in another order by the maps *)
Theorem C17_definitions_reordered : forall sp ds' o order order',
  wf_sproject sp -> Permutation (sp_defs sp) ds' ->
  analysis_order (inst_project sp) order -> analysis_order (inst_project (swith sp ds')) order' ->
  Permutation (res_shown (run_src sp o order)) (res_shown (run_src (swith sp ds') o order')) /\
  res_exit (run_src sp o order) = res_exit (run_src (swith sp ds') o order').
Proof. exact definitions_reordered. Qed.
Print Assumptions C17_definitions_reordered.

(* ---- the HashMap loops of remove_syntactic_sugar (Model.Desugar) ------------------- *)

(* the table of templates handed to remove_anonymous_from_statement is read by
   name only: tables that answer every lookup alike desugar every body alike *)
Theorem C17_desugar_lookup_by_name_only : forall e1 e2 lib,
  (forall id, Desugar.lookup_template id e1 = Desugar.lookup_template id e2) ->
  forall body, Desugar.desugar_template e1 lib body = Desugar.desugar_template e2 lib body.
Proof. exact DesugarOrder.desugar_template_env. Qed.
Print Assumptions C17_desugar_lookup_by_name_only.

(* `for (name, template) in templates`: every iteration order gives the same
   surviving templates and the same reports (as multisets), or no result in both *)
Theorem C17_desugar_templates_order_independent : forall env lib ts ts',
  Permutation ts ts' ->
  match Desugar.desugar_templates env lib ts [] [], Desugar.desugar_templates env lib ts' [] [] with
  | Desugar.DOk (x, r), Desugar.DOk (x', r') => Permutation x x' /\ Permutation r r'
  | Desugar.DOk _, _ | _, Desugar.DOk _ => False
  | _, _ => True
  end.
Proof. exact DesugarOrder.desugar_templates_order_independent. Qed.
Print Assumptions C17_desugar_templates_order_independent.

(* the whole function, both maps enumerated in any order (the lookup table is
   built from the same map, enumerated in the same other order) *)
Theorem C17_remove_syntactic_sugar_order_independent : forall lib ts ts' fs fs',
  NoDup (map fst ts) -> Permutation ts ts' -> Permutation fs fs' ->
  match Desugar.remove_syntactic_sugar lib ts fs, Desugar.remove_syntactic_sugar lib ts' fs' with
  | Desugar.DOk x, Desugar.DOk y =>
      Permutation (Desugar.d_templates x) (Desugar.d_templates y) /\
      Permutation (Desugar.d_functions x) (Desugar.d_functions y) /\
      Permutation (Desugar.d_reports x) (Desugar.d_reports y)
  | Desugar.DOk _, _ | _, Desugar.DOk _ => False
  | _, _ => True
  end.
Proof. exact DesugarOrder.remove_syntactic_sugar_order_independent. Qed.
Print Assumptions C17_remove_syntactic_sugar_order_independent.

(* the statement distinguishes: for the loop that removes dropped templates
   from its lookup table while iterating (seeded/C17-desugar-known-templates-
   hash-order; not the code of /repo) it is false *)
Theorem C17_desugar_tracking_variant_order_dependent :
  exists lib ts ts',
    NoDup (map fst ts) /\ Permutation ts ts' /\
    ~ DesugarOrder.same_up_to_order
        (DesugarOrder.desugar_templates_tracking (Desugar.env_of ts) lib ts [] [])
        (DesugarOrder.desugar_templates_tracking (Desugar.env_of ts) lib ts' [] []) /\
    DesugarOrder.same_up_to_order
        (Desugar.desugar_templates (Desugar.env_of ts) lib ts [] [])
        (Desugar.desugar_templates (Desugar.env_of ts) lib ts' [] []).
Proof. exact DesugarOrder.tracking_variant_order_dependent. Qed.
Print Assumptions C17_desugar_tracking_variant_order_dependent.

(* ---- the name maps built from the parsed files (Model.RunnerLib: the code of
   TemplateLibrary::new / ProgramArchive::new / Merger after the repair of D22,
   /repo f1ec9dc) ----------------------------------------------------------------- *)

(* `collect(); sort_unstable_by_key(file_id)`: whatever order the
   HashMap<FileID, Vec<Definition>> is iterated in, the same sequence of files *)
Theorem C17_files_sorted_the_same_for_every_map_order : forall es1 es2,
  NoDup (map fst es1) -> Permutation es1 es2 -> sort_entries es1 = sort_entries es2.
Proof. exact sort_entries_order_irrelevant. Qed.
Print Assumptions C17_files_sorted_the_same_for_every_map_order.

(* ... and that sequence IS the files in FileID order: sorted, and nothing lost or
   invented (without this, "first" in C17_library_keeps_first_definition would hang
   on an unpinned function) *)
Theorem C17_files_are_sorted_by_file_id : forall es,
  sorted_ids (sort_entries es) /\ Permutation es (sort_entries es).
Proof. intros es. split. apply sort_entries_sorted. apply sort_entries_perm. Qed.
Print Assumptions C17_files_are_sorted_by_file_id.

(* ... hence the same name maps and the same definitions blamed as duplicates,
   DUPLICATED NAMES INCLUDED (no carve-out any more) *)
Theorem C17_library_same_for_every_map_order : forall es1 es2,
  NoDup (map fst es1) -> Permutation es1 es2 ->
  library_of es1 = library_of es2 /\ duplicates_of es1 = duplicates_of es2.
Proof. exact library_order_irrelevant. Qed.
Print Assumptions C17_library_same_for_every_map_order.

(* a name denotes the FIRST definition in (file id, source position) order,
   function or template alike *)
Theorem C17_library_keeps_first_definition : forall es n,
  first_named n (library_of es) = first_named n (definitions_in_file_order es).
Proof. exact library_keeps_first_definition. Qed.
Print Assumptions C17_library_keeps_first_definition.

(* the hypothesis [wf_project] of the runner theorems holds for every project
   the tool can build: it is not an assumption about the input *)
Theorem C17_library_is_well_formed : forall parse es user,
  NoDup (map d_name (library_of es)) /\            (* one definition per NAME, function or template *)
  wf_project (mkProject parse (library_of es) user).
Proof. intros. split. apply library_names_distinct. apply library_wf. Qed.
Print Assumptions C17_library_is_well_formed.

(* whole runs, FileIDs FIXED: the order in which the map of parsed files is ITERATED,
   the order of the parser's reports and the order of the name maps are all
   irrelevant; [NoDup (map fst es1)] says that [es1] lists the entries of a map
   (FileIDs are its keys).  This is NOT the clause "input files given in another
   order" (the files then get other FileIDs): that is C17_files_in_another_order. *)
Theorem C17_file_map_iteration_order_irrelevant : forall parse1 parse2 es1 es2 user o order1 order2,
  NoDup (map fst es1) -> Permutation es1 es2 -> Permutation parse1 parse2 ->
  let p1 := mkProject parse1 (library_of es1) user in
  let p2 := mkProject parse2 (library_of es2) user in
  analysis_order p1 order1 -> analysis_order p2 order2 ->
  Permutation (res_shown (run_keys p1 o order1)) (res_shown (run_keys p2 o order2)) /\
  res_exit (run_keys p1 o order1) = res_exit (run_keys p2 o order2) /\
  duplicates_of es1 = duplicates_of es2.
Proof. exact file_order_irrelevant_lib. Qed.
Print Assumptions C17_file_map_iteration_order_irrelevant.

(* files given in another order are NUMBERED differently (FileLibrary hands out
   consecutive FileIDs as the files are read): every [d_file], every
   primary-label file of every report and the list of user inputs change
   together.  Renumbering by any injective map changes nothing but those
   numbers: the same findings are displayed (with their files renumbered), the
   same exit status.  (It renumbers an already built project; composed with the construction of the
   name maps below.) *)
Theorem C17_file_ids_are_names : forall f,
  (forall x y, f x = f y -> x = y) ->
  forall p o order order',
  wf_project p -> analysis_order p order -> analysis_order p order' ->
  Permutation (res_shown (run_keys (rn_project f p) o order'))
              (map (rn_report f) (res_shown (run_keys p o order))) /\
  res_exit (run_keys (rn_project f p) o order') = res_exit (run_keys p o order).
Proof. exact file_ids_renumbered. Qed.
Print Assumptions C17_file_ids_are_names.

Example C17_file_ids_swap_is_injective : forall x y, swap01 x = swap01 y -> x = y.
Proof. exact swap01_injective. Qed.

(* "input files given in another order", end to end over the models: the files get
   other FileIDs (any injective [f]), the map of parsed files [es'] is any
   enumeration of the renumbered entries, and the name maps are REBUILT from them.
   If no name is defined twice: the same findings (renumbered), the same exit. *)
Theorem C17_files_in_another_order : forall f parse es es' user o order order',
  (forall x y, f x = f y -> x = y) ->
  NoDup (map d_name (flat_map snd es)) ->
  Permutation es' (map (rn_entry f) es) ->
  let p := mkProject parse (library_of es) user in
  let p' := mkProject (map (rn_report f) parse) (library_of es') (map f user) in
  analysis_order p order -> analysis_order p' order' ->
  Permutation (res_shown (run_keys p' o order')) (map (rn_report f) (res_shown (run_keys p o order))) /\
  res_exit (run_keys p' o order') = res_exit (run_keys p o order).
Proof. exact files_in_another_order. Qed.
Print Assumptions C17_files_in_another_order.

(* the hypothesis is needed: with a name defined in two files the definition with
   the smaller NEW FileID is kept, so the name maps differ - known finding
   C17-duplicate-name-file-order (`a.circom b.circom` vs `b.circom a.circom`) *)
Theorem C17_files_in_another_order_refuted_with_duplicated_name :
  exists f es,
    (forall x y, f x = f y -> x = y) /\ NoDup (map fst es) /\
    ~ NoDup (map d_name (flat_map snd es)) /\
    ~ Permutation (library_of (map (rn_entry f) es)) (map (rn_def f) (library_of es)).
Proof. exact files_in_another_order_refuted_with_duplicated_name. Qed.
Print Assumptions C17_files_in_another_order_refuted_with_duplicated_name.

(* non-vacuity with a duplicated name: both orders of the map keep the
   definitions of file 0 and blame those of file 1 *)
Example C17_duplicates_first_file_kept :
  library_of [(1%Z, [ex_b; ex_g]); (0%Z, [ex_a; ex_f])] = [ex_a; ex_f] /\
  library_of [(0%Z, [ex_a; ex_f]); (1%Z, [ex_b; ex_g])] = [ex_a; ex_f] /\
  duplicates_of [(1%Z, [ex_b; ex_g]); (0%Z, [ex_a; ex_f])] = [(ex_b, ex_a); (ex_g, ex_f)].
Proof. exact duplicates_first_file_kept. Qed.

(* non-vacuity: two orders of a project in which U looks T up *)
Definition ex_shadow : report := mkReport Warning 1 1 [0%Z] 100.
Definition ex_unused : report := mkReport Warning 18 18 [0%Z] 101.
Definition ex_T : def := mkDef KTemplate 1 0 [ex_shadow] None [] [].
Definition ex_U : def := mkDef KTemplate 2 0 [] None [ex_unused] [1%Z; 1%Z; 9%Z].
Definition ex_p : project := mkProject [] [ex_T; ex_U] [0%Z].

Example C17_witnesses :
  wf_project ex_p /\
  analysis_order ex_p [(KTemplate, 1%Z); (KTemplate, 2%Z)] /\ analysis_order ex_p [(KTemplate, 2%Z); (KTemplate, 1%Z)] /\
  res_shown (run_keys ex_p (mkOpts Info [] false true) [(KTemplate, 1%Z); (KTemplate, 2%Z)]) = [ex_shadow; ex_unused] /\
  res_shown (run_keys ex_p (mkOpts Info [] false true) [(KTemplate, 2%Z); (KTemplate, 1%Z)]) = [ex_unused; ex_shadow].
Proof.
  split. { unfold wf_project. simpl. repeat constructor; simpl; intuition discriminate. }
  split. { vm_compute. apply Permutation_refl. }
  split. { vm_compute. apply perm_swap. }
  vm_compute. split; reflexivity.
Qed.

(* non-vacuity of the source-level hypotheses: U looks T up (and reports iff T
   answers with an output signal), X is added next to them and nobody looks it up *)
Definition ex_sT : sdef := mkSDef KTemplate 1 0 [ex_shadow] None [(7%Z, 0%nat)] [] (fun _ => []).
Definition ex_sU : sdef :=
  mkSDef KTemplate 2 0 [] None [] [1%Z; 1%Z; 9%Z]
         (fun a => match a with Some (_ :: _) :: _ => [ex_unused] | _ => [] end).
Definition ex_sX : sdef := mkSDef KTemplate 3 0 [] None [(8%Z, 0%nat)] [2%Z] (fun _ => [ex_shadow]).
Definition ex_sp : sproject := mkSProject [] [ex_sT; ex_sU] [0%Z].

Example C17_src_witnesses :
  wf_sproject (sadd ex_sp [ex_sX]) /\
  (forall d x, In d (filter (s_user_b (sp_user ex_sp)) (sp_defs ex_sp)) -> In x [ex_sX] ->
               ~ (s_kind x = KTemplate /\ In (s_name x) (s_refs d))) /\
  inst_project ex_sp = ex_p /\
  answer_of (sp_defs ex_sp) 1%Z = Some [(7%Z, 0%nat)] /\
  res_shown (run_src (sadd ex_sp [ex_sX]) (mkOpts Info [] false true)
                     [(KTemplate, 3%Z); (KTemplate, 2%Z); (KTemplate, 1%Z)]) = [ex_shadow; ex_unused; ex_shadow] /\
  (* without T the lookup of U fails and U has no finding *)
  res_shown (run_src (mkSProject [] [ex_sU] [0%Z]) (mkOpts Info [] false true) [(KTemplate, 2%Z)]) = [].
Proof.
  split. { unfold wf_sproject. simpl. repeat constructor; simpl; intuition discriminate. }
  split. { simpl. intros d x [<-|[<-|[]]] [<-|[]] [_ H]; simpl in H; intuition discriminate. }
  vm_compute. repeat split; reflexivity.
Qed.
