(* C17 — findings are a function of the sources.  Property theorems only
   (see C03.v for the model).  These theorems cover ALL iteration orders of the
   name maps and all lookup sequences at the level of Model.Runner; orders
   inside the stages are observed by the repeated runs of lib/props/C17.py. *)
From Coq Require Import ZArith List Bool Arith Permutation.
Require Import Model.Base Gen.Category Model.Runner Spec.RunnerSpec Proofs.RunnerProofs.
Import ListNotations.

(* whatever order the HashMaps of names are iterated in (and hence whichever
   template is looked up before or after it is analysed): same displayed
   multiset, same exit status, same summary, same SARIF results *)
Theorem C17_runner_order_independent : forall p o order1 order2,
  wf_project p -> analysis_order p order1 -> analysis_order p order2 ->
  Permutation (res_shown (run_keys p o order1)) (res_shown (run_keys p o order2)) /\
  res_exit (run_keys p o order1) = res_exit (run_keys p o order2) /\
  res_summary (run_keys p o order1) = res_summary (run_keys p o order2) /\
  match res_sarif (run_keys p o order1), res_sarif (run_keys p o order2) with
  | Some (r1, _), Some (r2, _) => Permutation r1 r2
  | None, None => True
  | _, _ => False
  end.
Proof. exact runner_order_independent. Qed.
Print Assumptions C17_runner_order_independent.

(* in every state the runner can be in between two operations, a lookup
   succeeds exactly when the template lifts: what a pass sees does not depend
   on the history of the caches *)
Theorem C17_lookup_result_is_lift_result : forall ds P s k,
  Inv ds P s -> (snd (cache ds k s) = true <-> lifts ds k).
Proof. exact lookup_result_is_lift_result. Qed.
Print Assumptions C17_lookup_result_is_lift_result.

Theorem C17_lookups_keep_invariant : forall ds P ns s, Inv ds P s -> Inv ds P (fold_left (lookup ds) ns s).
Proof. exact lookups_preserve. Qed.
Print Assumptions C17_lookups_keep_invariant.

(* adding definitions (under fresh names) leaves the findings of all others
   untouched: the displayed multiset only gains the kept findings of the added
   user definitions *)
Theorem C17_unreferenced_definitions_irrelevant : forall p extra o order order',
  wf_project (add_defs p extra) -> analysis_order p order -> analysis_order (add_defs p extra) order' ->
  Permutation (res_shown (run_keys (add_defs p extra) o order'))
              (res_shown (run_keys p o order)
               ++ filter (keep_b o (p_user p)) (flat_map produced_def (filter (user_def_b (p_user p)) extra))).
Proof. exact unreferenced_definitions_irrelevant. Qed.
Print Assumptions C17_unreferenced_definitions_irrelevant.

(* definitions that live in included files only change nothing at all *)
Theorem C17_included_definitions_irrelevant : forall p extra o order,
  wf_project (add_defs p extra) -> analysis_order p order ->
  (forall d, In d extra -> user_def_b (p_user p) d = false) ->
  analysis_order (add_defs p extra) order /\
  Permutation (res_shown (run_keys (add_defs p extra) o order)) (res_shown (run_keys p o order)).
Proof. exact included_definitions_irrelevant. Qed.
Print Assumptions C17_included_definitions_irrelevant.

(* the order in which the files were parsed (order of the parser's reports,
   order in which TemplateLibrary::new inserts the definitions): irrelevant,
   unless two sources share a name (known finding D22) *)
Theorem C17_file_order_irrelevant : forall parse1 parse2 srcs1 srcs2 user o order1 order2,
  Permutation parse1 parse2 -> Permutation srcs1 srcs2 ->
  KF_duplicate_definition_b srcs1 = false ->
  let p1 := mkProject parse1 (build_library srcs1) user in
  let p2 := mkProject parse2 (build_library srcs2) user in
  analysis_order p1 order1 -> analysis_order p2 order2 ->
  Permutation (res_shown (run_keys p1 o order1)) (res_shown (run_keys p2 o order2)) /\
  res_exit (run_keys p1 o order1) = res_exit (run_keys p2 o order2).
Proof. exact file_order_irrelevant. Qed.
Print Assumptions C17_file_order_irrelevant.

(* the carve-out is decidable and narrow: exactly a repeated (kind, name) *)
Theorem C17_KF_duplicate_definition_decides : forall srcs,
  KF_duplicate_definition_b srcs = false <-> NoDup (map d_key srcs).
Proof. exact KF_duplicate_definition_decides. Qed.
Print Assumptions C17_KF_duplicate_definition_decides.

(* and inside it the full statement is false: known finding D22 *)
Definition C17_file_order_full_statement : Prop :=
  forall srcs1 srcs2 user o order,
    Permutation srcs1 srcs2 ->
    analysis_order (mkProject [] (build_library srcs1) user) order ->
    analysis_order (mkProject [] (build_library srcs2) user) order ->
    Permutation (res_shown (run_keys (mkProject [] (build_library srcs1) user) o order))
                (res_shown (run_keys (mkProject [] (build_library srcs2) user) o order)).

Theorem C17_KF_duplicate_definition_refuted :
  exists srcs1 srcs2 user o order,
    Permutation srcs1 srcs2 /\ KF_duplicate_definition_b srcs1 = true /\
    analysis_order (mkProject [] (build_library srcs1) user) order /\
    analysis_order (mkProject [] (build_library srcs2) user) order /\
    ~ Permutation (res_shown (run_keys (mkProject [] (build_library srcs1) user) o order))
                  (res_shown (run_keys (mkProject [] (build_library srcs2) user) o order)) /\
    res_exit (run_keys (mkProject [] (build_library srcs1) user) o order) <>
    res_exit (run_keys (mkProject [] (build_library srcs2) user) o order).
Proof. exact file_order_refuted_with_duplicates. Qed.
Print Assumptions C17_KF_duplicate_definition_refuted.

(* non-vacuity: two orders of a project in which U looks T up *)
Definition ex_shadow : report := mkReport Warning 1 1 [0%Z] 100.
Definition ex_unused : report := mkReport Warning 18 18 [0%Z] 101.
Definition ex_T : def := mkDef KTemplate 1 0 [ex_shadow] None [] [].
Definition ex_U : def := mkDef KTemplate 2 0 [] None [ex_unused] [1%Z; 1%Z; 9%Z].
Definition ex_p : project := mkProject [] [ex_T; ex_U] [0%Z].

Example C17_witnesses :
  wf_project ex_p /\
  analysis_order ex_p [(KTemplate, 1%Z); (KTemplate, 2%Z)] /\ analysis_order ex_p [(KTemplate, 2%Z); (KTemplate, 1%Z)] /\
  res_shown (run_keys ex_p (mkOpts Info [] false true) [(KTemplate, 1%Z); (KTemplate, 2%Z)]) = [ex_shadow; ex_unused] /\
  res_shown (run_keys ex_p (mkOpts Info [] false true) [(KTemplate, 2%Z); (KTemplate, 1%Z)]) = [ex_unused; ex_shadow].
Proof.
  split. { unfold wf_project. simpl. repeat constructor; simpl; intuition discriminate. }
  split. { vm_compute. apply Permutation_refl. }
  split. { vm_compute. apply perm_swap. }
  vm_compute. split; reflexivity.
Qed.
