(* C02 — no silent failure.  Property theorems only (see C03.v for the model). *)
From Coq Require Import ZArith List Bool Arith Permutation.
Require Import Model.Base Gen.Category Model.Runner Spec.RunnerSpec Proofs.RunnerProofs.
Import ListNotations.

(* every failure class of the property text: the error-level report by which
   it manifests itself (Spec.RunnerSpec.manifests: a label-less parse report for a
   missing / unreadable file, an unsupported pragma, several mains; a parse
   report located in a user file for lexical / syntactic errors, invalid tuples
   and anonymous components, duplicate definitions; the lift error of a user
   definition for duplicate parameters and other CFG/SSA failures) is displayed
   and the exit status is 1 — for all definition sets, analysis orders, lookups
   and all options that do not allow-list that very id *)
Theorem C02_failure_classes_reported : forall p o order c r,
  wf_project p -> analysis_order p order ->
  manifests p c r -> ~ In (r_id r) (o_allow o) ->
  In r (res_shown (run_keys p o order)) /\ r_level r = Error /\ res_exit (run_keys p o order) = 1%Z.
Proof. exact failure_classes_reported. Qed.
Print Assumptions C02_failure_classes_reported.

(* exit status 0 ("No issues found.") only if nothing that was produced is to
   be kept and every definition of a user file was taken up for analysis; and,
   when nothing is allow-listed, only if every error-level report of the
   parser and every lift/SSA error of a user definition is located solely in
   an included file (for a project without such reports: every user file was
   read and every user definition was lifted and analysed) *)
Theorem C02_clean_only_if_all_analysed : forall p o order,
  wf_project p -> analysis_order p order ->
  res_exit (run_keys p o order) = 0%Z ->
  (forall r, In r (produced p) -> ~ keep o (p_user p) r) /\
  (forall d, In d (user_defs p) -> In (d_key d) order) /\
  (o_allow o = [] ->
     (forall r, In r (p_parse p) -> r_level r = Error -> located_only_in_included (p_user p) r) /\
     (forall d e, In d (user_defs p) -> d_err d = Some e -> r_level e = Error -> located_only_in_included (p_user p) e)).
Proof. exact clean_only_if_all_analysed. Qed.
Print Assumptions C02_clean_only_if_all_analysed.

(* the summary line belongs to the exit status *)
Theorem C02_exit_zero_iff_nothing_displayed : forall p o order,
  wf_project p -> analysis_order p order ->
  (res_exit (run_keys p o order) = 0%Z <-> res_shown (run_keys p o order) = []) /\
  (res_exit (run_keys p o order) = 0%Z \/ res_exit (run_keys p o order) = 1%Z).
Proof. exact exit_zero_iff_nothing_displayed. Qed.
Print Assumptions C02_exit_zero_iff_nothing_displayed.

(* known finding C02-duplicate-definition-library (D22): TemplateLibrary::new
   overwrites silently; with a duplicated name one user definition is dropped
   and the run can still end with exit status 0 *)
Theorem C02_KF_duplicate_definition_refuted :
  exists srcs user o order d,
    KF_duplicate_definition_b srcs = true /\ In d srcs /\ user_def_b user d = true /\
    analysis_order (mkProject [] (build_library srcs) user) order /\
    ~ In d (build_library srcs) /\
    res_exit (run_keys (mkProject [] (build_library srcs) user) o order) = 0%Z.
Proof. exact duplicate_definition_dropped_silently. Qed.
Print Assumptions C02_KF_duplicate_definition_refuted.

(* outside that class nothing is dropped: the library is the list of sources *)
Theorem C02_no_definition_dropped : forall srcs,
  KF_duplicate_definition_b srcs = false -> build_library srcs = srcs.
Proof. exact build_library_nodup. Qed.
Print Assumptions C02_no_definition_dropped.

(* non-vacuity: each kind of manifestation with a concrete project *)
Definition ex_missing : report := mkReport Error 1000 1000 [] 1.
Definition ex_syntax : report := mkReport Error 1000 1000 [0%Z] 2.
Definition ex_collision : report := mkReport Error 2 2 [0%Z] 3.
Definition ex_T : def := mkDef KTemplate 1 0 [] (Some ex_collision) [] [].
Definition ex_p : project := mkProject [ex_missing; ex_syntax] [ex_T] [0%Z].

Example C02_witnesses :
  wf_project ex_p /\ analysis_order ex_p [(KTemplate, 1%Z)] /\
  manifests ex_p MissingFile ex_missing /\ manifests ex_p SyntaxError ex_syntax /\
  manifests ex_p DuplicateParameter ex_collision /\
  res_exit (run_keys ex_p (mkOpts Error [] false false) [(KTemplate, 1%Z)]) = 1%Z /\
  res_shown (run_keys ex_p (mkOpts Error [] false false) [(KTemplate, 1%Z)]) = [ex_missing; ex_syntax; ex_collision].
Proof.
  split. { unfold wf_project. simpl. repeat constructor. intros []. }
  split. { vm_compute. apply Permutation_refl. }
  split. { split. reflexivity. simpl. auto. }
  split. { split. reflexivity. simpl. split; auto. exists 0%Z. simpl. auto. }
  split. { split. reflexivity. simpl. exists ex_T. split. vm_compute; auto. split. reflexivity. right. exists 0%Z. simpl. auto. }
  vm_compute. split; reflexivity.
Qed.
