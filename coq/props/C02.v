(* C02 — no silent failure.  Property theorems only.

   The mirrors joined here: Model.Includes (C19: FileStack, the parse_files
   loop — which files are read, the FileLibrary with its user flags, the OS /
   include / parse error reports), Model.FrontStages (the version check and the
   main-component match of parser/src/lib.rs; fourth pass: the `definitions`
   map of parse_files, Merger::add_definitions over the files as run by
   ProgramArchive::new / duplicate_definitions, and TemplateLibrary::new, all
   three mirrored there; the desugaring stage = Model.Desugar, C18; the error
   values of generate_cfg = Model.LiftFull, C13, and the chain
   Model.PipelineMirrors, C01) and Model.Runner (C03: caches, writers, filters,
   exit status), by Model.Front (errors.rs `into_report`,
   FileLibrary::user_inputs, the hand-over in cli/src/main.rs).

   The PROGRAM IS NOT A FREE VARIABLE.  The theorems about a run speak of
   [FrontStages.tied_project]: the library handed to the desugarer and the
   runner is [program_of lib (all_definitions content defs_of (ps_files s))] —
   what TemplateLibrary::new keeps (the first definition of every name, one
   name space for templates and functions) of the definitions of the files of
   the FileLibrary that parse, in the order of the file ids, then source order
   — and the reports of Merger::add_definitions over the same definitions are
   in the report collection.

   Parameters (universally quantified): the file system (any type of paths
   with decidable equality, any canon, is_dir, is_file, read_dir, join, parent,
   file_name, ext_circom, starts_dot, has_sep, content with canon idempotent),
   the command line, the -L list; THE PARSER PER FILE — for a file that parses
   its version pragma [pragma], whether it has a main component [has_main],
   its definitions with their syntax trees in source order [defs_of], and the
   line tables [lib]; the compiler version, the report codes, the hash orders
   and budgets of the chain; [rest'], the reports of the one stage no mirror
   covers (the anonymous-main check); what lifting / SSA / the passes produce
   besides the error ([after]); the options and the analysis order.

   The project of a run is WELL FORMED BY THEOREM (C02_tied_project_is_wf): the
   keys of the definitions handed to the runner are the images under [name_id]
   of names that are pairwise different (TemplateLibrary::new keeps one
   definition per name, functions and templates in one name space; the
   desugarer hands back a selection of the names that went in; the new maps
   have one entry per name handed back).  The theorems about a run therefore
   do not ask for [wf_project] of the tied project: their hypothesis is that
   [name_id] — the caller's numbering of the names — is injective.  Only the
   runner-level theorems, stated for an arbitrary project, keep [wf_project].

   FileStack::new as it is now (fix 517e7a0, Model.Includes.add_files_once)
   skips a directory whose canonical path it has met before.  The theorems
   about a run that speak of the specification's [named] (every spelling of
   the command line expanded) carry the premise
   [dirs_revisited canon is_dir read_dir join ext_circom dfuel argv libs = false]:
   no directory was met twice while the command line was expanded.  It is
   decidable and evaluated on every explored project.

   All TEN failure classes of the property text (Spec.NoSilentSpec) have their
   class theorem (C02_failure_classes_reported).  NINE are Derived: a named
   path that cannot be opened, a file whose content cannot be read, a named
   file that does not parse, an include of a named file that resolves nowhere,
   an unsupported compiler version, several main components, a template /
   function of a named file the desugarer rejects (invalid tuple or anonymous
   component), a repeated parameter name, and — fourth pass — a duplicated
   definition: two definitions of one name among the definitions of the files
   read, one of them in a named file (a function and a template of the same
   name included).  For these the event ([failure_event_tied]) is a fact about
   the file system / the syntax trees; that the error report is in the project
   handed to the runner, that it is error level, with a location that passes
   the file filter, is derived.  LiftFailure is DerivedUpToLocation: the event
   is that the mirrors of into_cfg / into_ssa answer with
   InvalidVariableNameError / UndefinedVariableError for a definition of a
   named file; existence, level and code of the report are derived, the file
   id inside the error value (not returned by those mirrors: parameter
   [err_file]) is asked to be absent or the definition's own file.
   That errors.rs / program_merger.rs give the reports the category, the code
   and the primary file ids Model.Front.report_of /
   Model.FrontStages.item_report say, and that the definitions handed on are
   those of [keep_first], is compared on every project of the matrix (engine
   front). *)
From Coq Require Import ZArith NArith Permutation Ascii String.
Require Import Gen.Category Model.Runner Spec.RunnerSpec Proofs.RunnerProofs.
From stdpp Require Import list strings countable.
Require Import Model.Includes Model.Front Model.FrontStages Spec.IncludesSpec Spec.NoSilentSpec Proofs.NoSilentProofs.
Require Model.Ast Model.Desugar Model.LiftFull Model.PipelineMirrors Spec.ExpandSpec.
Require Proofs.NoSilentStages Proofs.DesugarErrLoc Proofs.NoSilentMerger.

(* the project of a run is well formed — one definition per (kind, name) key
   in what is handed to the runner — for every file system, parser output and
   desugarer answer, as soon as the numbering [name_id] of the names is
   injective: [wf_project] of the tied project is not a hypothesis of the
   theorems below *)
Theorem C02_tied_project_is_wf :
  forall (path : Type) (content : path -> file_content path)
         (pf_id pf_name : Z) (payload : Includes.report (path:=path) -> Z)
         (pragma : path -> option version) (has_main : path -> bool) (cv : version) (cs : codes)
         (spay : stage_item path -> Z) (ord : nat -> list nat -> list nat) (horder : list nat -> list nat)
         (prime : Z) (kv kd : nat) (err_file : PM.definition -> option N)
         (name_id : String.string -> Z) (after : PM.definition -> def)
         (s : parse_state (path:=path)) (lib : list (list N)) (defs_of : path -> list PM.definition)
         (sd : Desugar.desugared) (rest' : list Runner.report),
    sugar_input (program_of lib (all_definitions content defs_of (ps_files s))) = Desugar.DOk sd ->
    (forall a b : String.string, name_id a = name_id b -> a = b) ->
    wf_project (tied_project content pragma has_main cv pf_id pf_name cs spay ord horder prime kv kd err_file name_id after payload s lib defs_of sd rest').
Proof. exact @NoSilentMerger.tied_project_is_wf. Qed.
Print Assumptions C02_tied_project_is_wf.

(* what `remove_syntactic_sugar` hands back is a selection of what went in: when
   the names of the templates (of the functions) that go in are pairwise
   different, so are those that come out, and each of them went in *)
Theorem C02_desugarer_hands_back_a_selection : forall lib ts fs d,
  Desugar.remove_syntactic_sugar lib ts fs = Desugar.DOk d ->
  (List.NoDup (map fst ts) ->
     List.NoDup (map fst (Desugar.d_templates d)) /\
     forall n, In n (map fst (Desugar.d_templates d)) -> In n (map fst ts)) /\
  (List.NoDup (map fst fs) ->
     List.NoDup (map fst (Desugar.d_functions d)) /\
     forall n, In n (map fst (Desugar.d_functions d)) -> In n (map fst fs)).
Proof. exact NoSilentMerger.remove_syntactic_sugar_names. Qed.
Print Assumptions C02_desugarer_hands_back_a_selection.

(* all ten failure classes, on the project tied to the files that were read:
   the report of the event is displayed, it is error level, and the exit
   status is 1 — unless that very id is allow-listed.  The event is a
   statement about the file system, the FileLibrary and the syntax trees the
   parser yields for the files read only (for LiftFailure also about the file
   id inside the error value, see above); for DuplicateDefinition: two
   definitions of one name in [all_definitions], the first of them the first
   of that name, one of the two in a named file. *)
Theorem C02_failure_classes_reported :
  forall (path : Type) (EqDecision0 : EqDecision path)
         (canon : path -> option path) (is_dir is_file : path -> bool)
         (read_dir : path -> option (list path)) (join : path -> path -> path)
         (parent : path -> path) (file_name : path -> option path)
         (ext_circom starts_dot has_sep : path -> bool) (content : path -> file_content path),
    (forall p c, canon p = Some c -> canon c = Some c) ->
    forall (pf_id pf_name : Z) (payload : Includes.report (path:=path) -> Z)
           (pragma : path -> option version) (has_main : path -> bool) (cv : version) (cs : codes)
           (spay : stage_item path -> Z) (ord : nat -> list nat -> list nat) (horder : list nat -> list nat)
           (prime : Z) (kv kd : nat) (err_file : PM.definition -> option N)
           (name_id : String.string -> Z) (after : PM.definition -> def)
           (dfuel fuel : nat) (argv libs : list path) (s : parse_state),
      parse_files canon is_dir is_file read_dir join parent file_name ext_circom starts_dot has_sep content
                  false dfuel fuel argv libs = Base.Ok s ->
      dirs_revisited canon is_dir read_dir join ext_circom dfuel argv libs = false ->
      forall (lib : list (list N)) (defs_of : path -> list PM.definition) (sd : Desugar.desugared)
             (rest' : list Runner.report),
        sugar_input (program_of lib (all_definitions content defs_of (ps_files s))) = Desugar.DOk sd ->
        forall (o : opts) (order : list key) (c : failure_class) (r : Runner.report),
          (forall a b : String.string, name_id a = name_id b -> a = b) ->
          analysis_order (tied_project content pragma has_main cv pf_id pf_name cs spay ord horder prime kv kd err_file name_id after payload s lib defs_of sd rest') order ->
          failure_event_tied canon is_dir is_file read_dir join parent file_name ext_circom starts_dot has_sep content pf_id pf_name payload pragma has_main cv cs spay ord horder prime kv kd err_file argv libs s lib defs_of sd rest' c r ->
          ~ In (r_id r) (o_allow o) ->
          In r (res_shown (run_keys (tied_project content pragma has_main cv pf_id pf_name cs spay ord horder prime kv kd err_file name_id after payload s lib defs_of sd rest') o order)) /\
          r_level r = Error /\
          res_exit (run_keys (tied_project content pragma has_main cv pf_id pf_name cs spay ord horder prime kv kd err_file name_id after payload s lib defs_of sd rest') o order) = 1%Z.
Proof. exact @NoSilentMerger.inj_classes_reported. Qed.
Print Assumptions C02_failure_classes_reported.

(* the events are not hypothetical: a named file that does not parse, an
   include statement of a named file that resolves nowhere, a template / a
   function the library keeps, of a named file, that `remove_syntactic_sugar`
   does not hand on has its event (for a path that cannot be opened, an
   unreadable file, a pragma, two main components, a repeated parameter, a
   duplicated definition the event is the fact itself, see Spec.NoSilentSpec) *)
Theorem C02_front_failures_have_reports :
  forall (path : Type) (EqDecision0 : EqDecision path)
         (canon : path -> option path) (is_dir is_file : path -> bool)
         (read_dir : path -> option (list path)) (join : path -> path -> path)
         (parent : path -> path) (file_name : path -> option path)
         (ext_circom starts_dot has_sep : path -> bool) (content : path -> file_content path),
    (forall p c, canon p = Some c -> canon c = Some c) ->
    forall (pf_id pf_name : Z) (payload : Includes.report (path:=path) -> Z)
           (pragma : path -> option version) (has_main : path -> bool) (cv : version) (cs : codes)
           (spay : stage_item path -> Z) (ord : nat -> list nat -> list nat) (horder : list nat -> list nat)
           (prime : Z) (kv kd : nat) (err_file : PM.definition -> option N)
           (dfuel fuel : nat) (argv libs : list path) (s : parse_state),
      parse_files canon is_dir is_file read_dir join parent file_name ext_circom starts_dot has_sep content
                  false dfuel fuel argv libs = Base.Ok s ->
      dirs_revisited canon is_dir read_dir join ext_circom dfuel argv libs = false ->
      forall (lib : list (list N)) (defs_of : path -> list PM.definition) (sd : Desugar.desugared)
             (rest' : list Runner.report),
        sugar_input (program_of lib (all_definitions content defs_of (ps_files s))) = Desugar.DOk sd ->
        (forall f, named canon is_dir read_dir join ext_circom argv f -> content f = Unparsable ->
           exists r, failure_event_tied canon is_dir is_file read_dir join parent file_name ext_circom starts_dot has_sep content pf_id pf_name payload pragma has_main cv cs spay ord horder prime kv kd err_file argv libs s lib defs_of sd rest' SyntaxError r) /\
        (forall f incs p a b,
           named canon is_dir read_dir join ext_circom argv f -> content f = Parsed incs -> (p, a, b) ∈ incs ->
           resolves canon is_file join parent file_name starts_dot has_sep f
                    (the_libraries canon is_dir ext_circom libs) p None ->
           exists r, failure_event_tied canon is_dir is_file read_dir join parent file_name ext_circom starts_dot has_sep content pf_id pf_name payload pragma has_main cv cs spay ord horder prime kv kd err_file argv libs s lib defs_of sd rest' UnresolvedInclude r) /\
        (forall n body fid,
           In (n, body) (PM.named_bodies (PM.pr_templates (program_of lib (all_definitions content defs_of (ps_files s))))) -> body_in_file fid body ->
           file_is_named canon is_dir read_dir join ext_circom argv s (Z.of_N fid) ->
           ~ In n (map fst (Desugar.d_templates sd)) ->
           exists r, failure_event_tied canon is_dir is_file read_dir join parent file_name ext_circom starts_dot has_sep content pf_id pf_name payload pragma has_main cv cs spay ord horder prime kv kd err_file argv libs s lib defs_of sd rest' InvalidTupleOrAnonymous r) /\
        (forall n body fid,
           In (n, body) (PM.named_bodies (PM.pr_functions (program_of lib (all_definitions content defs_of (ps_files s))))) -> body_in_file fid body ->
           file_is_named canon is_dir read_dir join ext_circom argv s (Z.of_N fid) ->
           ~ In n (map fst (Desugar.d_functions sd)) ->
           exists r, failure_event_tied canon is_dir is_file read_dir join parent file_name ext_circom starts_dot has_sep content pf_id pf_name payload pragma has_main cv cs spay ord horder prime kv kd err_file argv libs s lib defs_of sd rest' InvalidTupleOrAnonymous r).
Proof. exact @NoSilentMerger.tied_front_failures_have_reports. Qed.
Print Assumptions C02_front_failures_have_reports.

(* exit status 0 ("No issues found.") with the parse-failure id not allow-listed
   only if every path the command line stands for could be opened, every file
   reached was readable, every named file parsed and had each include served
   by a file that was read; and every definition living in a named file that
   is handed to the runner was taken up (its `analyzing` line is in the log)
   and, unless the id of its error is allow-listed, lifted *)
Theorem C02_clean_only_if_all_read_and_analysed :
  forall (path : Type) (EqDecision0 : EqDecision path)
         (canon : path -> option path) (is_dir is_file : path -> bool)
         (read_dir : path -> option (list path)) (join : path -> path -> path)
         (parent : path -> path) (file_name : path -> option path)
         (ext_circom starts_dot has_sep : path -> bool) (content : path -> file_content path),
    (forall p c, canon p = Some c -> canon c = Some c) ->
    forall (pf_id pf_name : Z) (payload : Includes.report (path:=path) -> Z)
           (pragma : path -> option version) (has_main : path -> bool) (cv : version) (cs : codes)
           (spay : stage_item path -> Z) (ord : nat -> list nat -> list nat) (horder : list nat -> list nat)
           (prime : Z) (kv kd : nat) (err_file : PM.definition -> option N)
           (name_id : String.string -> Z) (after : PM.definition -> def)
           (dfuel fuel : nat) (argv libs : list path) (s : parse_state),
      parse_files canon is_dir is_file read_dir join parent file_name ext_circom starts_dot has_sep content
                  false dfuel fuel argv libs = Base.Ok s ->
      dirs_revisited canon is_dir read_dir join ext_circom dfuel argv libs = false ->
      forall (lib : list (list N)) (defs_of : path -> list PM.definition) (sd : Desugar.desugared)
             (rest' : list Runner.report),
        sugar_input (program_of lib (all_definitions content defs_of (ps_files s))) = Desugar.DOk sd ->
        forall (o : opts) (order : list key),
          (forall a b : String.string, name_id a = name_id b -> a = b) ->
          analysis_order (tied_project content pragma has_main cv pf_id pf_name cs spay ord horder prime kv kd err_file name_id after payload s lib defs_of sd rest') order ->
          res_exit (run_keys (tied_project content pragma has_main cv pf_id pf_name cs spay ord horder prime kv kd err_file name_id after payload s lib defs_of sd rest') o order) = 0%Z ->
          ~ In pf_id (o_allow o) ->
          all_named_read canon is_dir is_file read_dir join parent file_name ext_circom starts_dot has_sep content
                         argv libs s /\
          (forall d, In d (stage_defs pf_id pf_name cs spay ord horder prime kv kd err_file name_id after (program_of lib (all_definitions content defs_of (ps_files s))) sd) ->
             file_is_named canon is_dir read_dir join ext_circom argv s (d_file d) ->
             In (MAnalyzing (d_key d))
                (res_log (run_keys (tied_project content pragma has_main cv pf_id pf_name cs spay ord horder prime kv kd err_file name_id after payload s lib defs_of sd rest') o order)) /\
             (forall e, d_err d = Some e -> r_level e = Error ->
                        not_in_included_only canon is_dir read_dir join ext_circom argv s e ->
                        In (r_id e) (o_allow o))).
Proof. exact @NoSilentMerger.inj_clean_only_if_all_read_and_analysed. Qed.
Print Assumptions C02_clean_only_if_all_read_and_analysed.

(* exit status 0 with none of the error codes of the mirrored stages
   allow-listed only if, besides: every file that was reached asks for a
   supported compiler version or for none; at most one of them has a main
   component; the desugarer handed on every template and every function the
   library keeps of the named files; and every definition of a named file that
   is handed to the runner was taken up, does not repeat a parameter name, and
   was answered with no error by the mirrors of into_cfg / into_ssa (unless
   the id of that error is allow-listed, or the file id inside the error value
   points into another file) *)
Theorem C02_clean_only_if_stages_passed :
  forall (path : Type) (EqDecision0 : EqDecision path)
         (canon : path -> option path) (is_dir is_file : path -> bool)
         (read_dir : path -> option (list path)) (join : path -> path -> path)
         (parent : path -> path) (file_name : path -> option path)
         (ext_circom starts_dot has_sep : path -> bool) (content : path -> file_content path),
    (forall p c, canon p = Some c -> canon c = Some c) ->
    forall (pf_id pf_name : Z) (payload : Includes.report (path:=path) -> Z)
           (pragma : path -> option version) (has_main : path -> bool) (cv : version) (cs : codes)
           (spay : stage_item path -> Z) (ord : nat -> list nat -> list nat) (horder : list nat -> list nat)
           (prime : Z) (kv kd : nat) (err_file : PM.definition -> option N)
           (name_id : String.string -> Z) (after : PM.definition -> def)
           (dfuel fuel : nat) (argv libs : list path) (s : parse_state),
      parse_files canon is_dir is_file read_dir join parent file_name ext_circom starts_dot has_sep content
                  false dfuel fuel argv libs = Base.Ok s ->
      dirs_revisited canon is_dir read_dir join ext_circom dfuel argv libs = false ->
      forall (lib : list (list N)) (defs_of : path -> list PM.definition) (sd : Desugar.desugared)
             (rest' : list Runner.report),
        sugar_input (program_of lib (all_definitions content defs_of (ps_files s))) = Desugar.DOk sd ->
        forall (o : opts) (order : list key),
          (forall a b : String.string, name_id a = name_id b -> a = b) ->
          analysis_order (tied_project content pragma has_main cv pf_id pf_name cs spay ord horder prime kv kd err_file name_id after payload s lib defs_of sd rest') order ->
          res_exit (run_keys (tied_project content pragma has_main cv pf_id pf_name cs spay ord horder prime kv kd err_file name_id after payload s lib defs_of sd rest') o order) = 0%Z ->
          (forall z, In z (stage_ids cs) -> ~ In z (o_allow o)) ->
          all_stages_passed canon is_dir is_file read_dir join parent file_name ext_circom starts_dot has_sep content
                            pragma has_main cv argv libs s (program_of lib (all_definitions content defs_of (ps_files s))) sd /\
          (forall dd, In dd (handed_on (program_of lib (all_definitions content defs_of (ps_files s))) sd) ->
             def_in_named_file canon is_dir read_dir join ext_circom argv s dd ->
             In (MAnalyzing (runner_kind (PM.d_kind dd), name_id (PM.d_name dd)))
                (res_log (run_keys (tied_project content pragma has_main cv pf_id pf_name cs spay ord horder prime kv kd err_file name_id after payload s lib defs_of sd rest') o order)) /\
             (LiftFull.is_block (PM.d_body dd) = true -> List.NoDup (PM.d_params dd)) /\
             (forall e, lift_outcome ord horder prime kv kd dd = Some e -> e <> LEParamCollision ->
                        err_file dd = None \/ err_file dd = PM.d_pfile dd ->
                        In (r_id (item_report pf_id pf_name cs spay (SILiftError dd e (err_file dd)))) (o_allow o))).
Proof. exact @NoSilentMerger.inj_clean_only_if_stages_passed. Qed.
Print Assumptions C02_clean_only_if_stages_passed.

(* "... exit 0 only when every definition in it was analysed": exit status 0,
   with none of the error codes of the mirrored stages nor SameSymbolDeclaredTwice
   allow-listed, only if EVERY DEFINITION THE PARSER YIELDS FOR A NAMED FILE that
   parses was taken up by the runner (its `analyzing` line is in the log) —
   the definitions of the named files themselves, not the elements of some
   program.  [defs_file_ok]: the definitions of the i-th file of the
   FileLibrary carry the file id i (the parser's `Parameters::from(.., file_id,
   ..)`); [bodies_in_file]: every meta of a body lies in the file of its
   definition (`FillMeta::fill(file_id, ..)`); both are evaluated on every
   explored project (sv_defs_file_ok, sv_metas_ok of the extracted instance) *)
Theorem C02_clean_only_if_every_definition_analysed :
  forall (path : Type) (EqDecision0 : EqDecision path)
         (canon : path -> option path) (is_dir is_file : path -> bool)
         (read_dir : path -> option (list path)) (join : path -> path -> path)
         (parent : path -> path) (file_name : path -> option path)
         (ext_circom starts_dot has_sep : path -> bool) (content : path -> file_content path),
    (forall p c, canon p = Some c -> canon c = Some c) ->
    forall (pf_id pf_name : Z) (payload : Includes.report (path:=path) -> Z)
           (pragma : path -> option version) (has_main : path -> bool) (cv : version) (cs : codes)
           (spay : stage_item path -> Z) (ord : nat -> list nat -> list nat) (horder : list nat -> list nat)
           (prime : Z) (kv kd : nat) (err_file : PM.definition -> option N)
           (name_id : String.string -> Z) (after : PM.definition -> def)
           (dfuel fuel : nat) (argv libs : list path) (s : parse_state),
      parse_files canon is_dir is_file read_dir join parent file_name ext_circom starts_dot has_sep content
                  false dfuel fuel argv libs = Base.Ok s ->
      dirs_revisited canon is_dir read_dir join ext_circom dfuel argv libs = false ->
      forall (lib : list (list N)) (defs_of : path -> list PM.definition) (sd : Desugar.desugared)
             (rest' : list Runner.report),
        sugar_input (program_of lib (all_definitions content defs_of (ps_files s))) = Desugar.DOk sd ->
        forall (o : opts) (order : list key),
          (forall a b : String.string, name_id a = name_id b -> a = b) ->
          analysis_order (tied_project content pragma has_main cv pf_id pf_name cs spay ord horder prime kv kd err_file name_id after payload s lib defs_of sd rest') order ->
          res_exit (run_keys (tied_project content pragma has_main cv pf_id pf_name cs spay ord horder prime kv kd err_file name_id after payload s lib defs_of sd rest') o order) = 0%Z ->
          (forall z, In z (stage_ids cs) -> ~ In z (o_allow o)) ->
          ~ In (c_id (c_same_symbol cs)) (o_allow o) ->
          defs_file_ok content s defs_of ->
          bodies_in_file content s defs_of ->
          forall (i : nat) (f : path) (u : bool) (d : PM.definition),
            ps_files s !! i = Some (f, u) ->
            named canon is_dir read_dir join ext_circom argv f ->
            parses content f = true ->
            In d (defs_of f) ->
            In (MAnalyzing (runner_kind (PM.d_kind d), name_id (PM.d_name d)))
               (res_log (run_keys (tied_project content pragma has_main cv pf_id pf_name cs spay ord horder prime kv kd err_file name_id after payload s lib defs_of sd rest') o order)).
Proof. exact @NoSilentMerger.inj_clean_only_if_every_definition_analysed. Qed.
Print Assumptions C02_clean_only_if_every_definition_analysed.

(* the boolean the extracted instance evaluates on every run decides [defs_file_ok] *)
Theorem C02_defs_file_ok_decided :
  forall (path : Type) (content : path -> file_content path) (s : parse_state (path:=path))
         (defs_of : path -> list PM.definition),
    defs_file_ok_from content defs_of 0 (ps_files s) = true -> defs_file_ok content s defs_of.
Proof. exact @NoSilentMerger.defs_file_ok_decided. Qed.
Print Assumptions C02_defs_file_ok_decided.

(* the mirror of Merger::add_definitions over the files: of two definitions of
   one name the second is reported, with the first definition of that name as
   the other label (templates and functions share the name space: only
   [PM.d_name] is compared); and nothing else is reported: every item is the
   report of a definition whose name another definition of the list has *)
Theorem C02_merger_reports_duplicates :
  forall (path : Type) (all : list PM.definition),
    (forall l1 d1 l2 d2 l3,
       all = l1 ++ d1 :: l2 ++ d2 :: l3 ->
       PM.d_name d1 = PM.d_name d2 -> (forall x, In x l1 -> PM.d_name x <> PM.d_name d1) ->
       In (SIDuplicate d2 d1) (merger_items (path:=path) all)) /\
    (forall it, In it (merger_items (path:=path) all) ->
       exists d first, it = SIDuplicate d first /\ In d all /\ In first all /\ PM.d_name first = PM.d_name d).
Proof. exact (fun path all => conj (@NoSilentMerger.merger_reports_duplicates path all) (@NoSilentMerger.merger_items_sound path all)). Qed.
Print Assumptions C02_merger_reports_duplicates.

(* the mirror of TemplateLibrary::new: the first definition of every name is
   kept, the names kept are pairwise different, every definition kept is one
   of those that went in *)
Theorem C02_library_keeps_first :
  forall all : list PM.definition,
    (forall l1 d1 l3, all = l1 ++ d1 :: l3 -> (forall x, In x l1 -> PM.d_name x <> PM.d_name d1) ->
                      In d1 (keep_first all)) /\
    List.NoDup (map PM.d_name (keep_first all)) /\
    (forall x, In x (keep_first all) -> In x all).
Proof. exact NoSilentMerger.library_keeps_first. Qed.
Print Assumptions C02_library_keeps_first.

(* the desugarer (C18's mirror Model.Desugar): the error report it raises for a
   template body, and every report it pushes for a function body, is located
   at a meta of that body — any predicate that holds of all metas of the body
   holds of (start, end, file) of the report; in particular the report lies in
   the file of the definition *)
Theorem C02_desugarer_errors_located_in_body :
  (forall (Q : Ast.meta -> Prop) env lib body r,
     Forall Q (ExpandSpec.stmt_metas body) -> Desugar.desugar_template env lib body = Desugar.DErr r ->
     Q (DesugarErrLoc.report_meta r)) /\
  (forall (Q : Ast.meta -> Prop) body rs,
     Forall Q (ExpandSpec.stmt_metas body) -> Desugar.check_function body = Desugar.DOk (Some rs) ->
     Forall (fun r => Q (DesugarErrLoc.report_meta r)) rs).
Proof. exact (conj DesugarErrLoc.desugar_template_error_located DesugarErrLoc.check_function_located). Qed.
Print Assumptions C02_desugarer_errors_located_in_body.

(* ... and a template / function that goes into `remove_syntactic_sugar` and has
   no entry in what comes out was rejected with such a report, which is in the
   collection handed back (the reports parse_files appends to its own) *)
Theorem C02_dropped_definitions_are_reported : forall lib ts fs d,
  Desugar.remove_syntactic_sugar lib ts fs = Desugar.DOk d ->
  (forall n b, In (n, b) ts -> ~ In n (map fst (Desugar.d_templates d)) ->
     exists r, Desugar.desugar_template (Desugar.env_of ts) lib b = Desugar.DErr r /\ In r (Desugar.d_reports d)) /\
  (forall n b, In (n, b) fs -> ~ In n (map fst (Desugar.d_functions d)) ->
     exists rs r, Desugar.check_function b = Desugar.DOk (Some rs) /\ In r rs /\
                  forall r', In r' rs -> In r' (Desugar.d_reports d)) /\
  (forall n b r, In (n, b) ts -> Desugar.desugar_template (Desugar.env_of ts) lib b = Desugar.DErr r ->
                 In r (Desugar.d_reports d)) /\
  (forall n b rs r, In (n, b) fs -> Desugar.check_function b = Desugar.DOk (Some rs) -> In r rs ->
                    In r (Desugar.d_reports d)).
Proof. exact DesugarErrLoc.remove_syntactic_sugar_drop_reported. Qed.
Print Assumptions C02_dropped_definitions_are_reported.

(* the lifter (C13's mirror Model.LiftFull): `function f(a, a)` / `template T(n, n)`
   with a block as body — try_lift_impl answers ParameterNameCollisionError *)
Theorem C02_repeated_parameter_collides : forall kind params pfile ploc body,
  LiftFull.is_block body = true -> ~ List.NoDup params ->
  LiftFull.try_lift_impl kind params pfile ploc body = Base.Err LiftFull.err_param_collision.
Proof. exact NoSilentStages.repeated_parameter_collides. Qed.
Print Assumptions C02_repeated_parameter_collides.

(* the user-input set handed to the file filter is the set of file ids of the
   named files — also for a named file that another named file includes and
   that is therefore read before its own turn *)
Theorem C02_user_ids_are_named_files :
  forall (path : Type) (EqDecision0 : EqDecision path)
         (canon : path -> option path) (is_dir is_file : path -> bool)
         (read_dir : path -> option (list path)) (join : path -> path -> path)
         (parent : path -> path) (file_name : path -> option path)
         (ext_circom starts_dot has_sep : path -> bool) (content : path -> file_content path),
    (forall p c, canon p = Some c -> canon c = Some c) ->
    forall (dfuel fuel : nat) (argv libs : list path) (s : parse_state),
      parse_files canon is_dir is_file read_dir join parent file_name ext_circom starts_dot has_sep content
                  false dfuel fuel argv libs = Base.Ok s ->
      dirs_revisited canon is_dir read_dir join ext_circom dfuel argv libs = false ->
      forall z, In z (user_ids s) <-> file_is_named canon is_dir read_dir join ext_circom argv s z.
Proof. exact @user_id_iff_named. Qed.
Print Assumptions C02_user_ids_are_named_files.

(* runner level, for any project (also one that is not the image of a run of
   the Includes mirror): an error-level report that is produced and is not
   located solely in included files is displayed and makes the exit status 1 *)
Theorem C02_error_report_displayed : forall p o order r,
  wf_project p -> analysis_order p order ->
  In r (produced p) -> r_level r = Error -> ~ located_only_in_included (p_user p) r ->
  ~ In (r_id r) (o_allow o) ->
  In r (res_shown (run_keys p o order)) /\ r_level r = Error /\ res_exit (run_keys p o order) = 1%Z.
Proof. exact error_report_displayed. Qed.
Print Assumptions C02_error_report_displayed.

(* runner level: exit status 0 only if nothing that was produced is to be
   kept and every definition of a user file was taken up by the runner (its
   `analyzing` line was written); and, when nothing is allow-listed, only if
   every error-level report of the parser and every lift/SSA error of a user
   definition is located solely in an included file *)
Theorem C02_clean_only_if_all_analysed : forall p o order,
  wf_project p -> analysis_order p order ->
  res_exit (run_keys p o order) = 0%Z ->
  (forall r, In r (produced p) -> ~ keep o (p_user p) r) /\
  (forall d, In d (user_defs p) -> In (MAnalyzing (d_key d)) (res_log (run_keys p o order))) /\
  (o_allow o = [] ->
     (forall r, In r (p_parse p) -> r_level r = Error -> located_only_in_included (p_user p) r) /\
     (forall d e, In d (user_defs p) -> d_err d = Some e -> r_level e = Error -> located_only_in_included (p_user p) e)).
Proof. exact NoSilentProofs.clean_only_if_all_analysed. Qed.
Print Assumptions C02_clean_only_if_all_analysed.

(* ---- non-vacuity ----------------------------------------------------------
   A concrete file system run through the extracted instance
   (Includes.run_project): `circomspect b.circom a.circom nosuch.circom bad.circom`
   in /r.  a.circom includes x.circom (which is nowhere) and b.circom;
   bad.circom does not parse; nosuch.circom does not exist.  The stack is LIFO:
   bad.circom is read first, then a.circom, whose include pulls b.circom before
   the turn its own place on the command line would give it (the shape of the
   seeded change C02-user-input-by-pop-order).  The three reports are there,
   the user-input ids are those of all three files that were read (b.circom,
   id 2, included), and the runner displays the three reports and exits with 1. *)
Definition ex_fs : fs_data := FsData
  [ (str "a.circom", Some (str "/r/a.circom")); (str "nosuch.circom", None);
    (str "bad.circom", Some (str "/r/bad.circom")); (str "b.circom", Some (str "/r/b.circom"));
    (str "/r/a.circom", Some (str "/r/a.circom")); (str "/r/bad.circom", Some (str "/r/bad.circom"));
    (str "/r/b.circom", Some (str "/r/b.circom")); (str "/r/x.circom", None) ]
  []
  [ str "/r/a.circom"; str "/r/bad.circom"; str "/r/b.circom" ]
  [ (str "/r/a.circom", Parsed [ (str "x.circom", 21, 40); (str "b.circom", 41, 60) ]);
    (str "/r/bad.circom", Unparsable);
    (str "/r/b.circom", Parsed []) ].
Definition ex_argv : list spath := [ str "b.circom"; str "a.circom"; str "nosuch.circom"; str "bad.circom" ].
Definition ex_pay (r : Includes.report (path:=spath)) : Z :=
  match r with FileOsError _ => 1 | ParsingError _ => 2 | IncludeError _ _ _ _ => 3 end%Z.
Definition ex_opts : opts := mkOpts Error [] false false.

Example C02_witnesses :
  canon_idempotent_b ex_fs = true /\
  dirs_revisited_b ex_fs ex_argv [] = false /\
  exists s, run_project false ex_fs ex_argv [] = Base.Ok s /\
    ps_read s = [ str "/r/bad.circom"; str "/r/a.circom"; str "/r/b.circom" ] /\
    ps_reports s = [ FileOsError (str "nosuch.circom"); ParsingError 0; IncludeError (str "x.circom") (Some 1) 21 40 ] /\
    user_ids s = [ 0; 1; 2 ]%Z /\
    res_exit (run_keys (front_project 1000 1000 ex_pay s [] []) ex_opts []) = 1%Z /\
    res_shown (run_keys (front_project 1000 1000 ex_pay s [] []) ex_opts []) =
      [ mkReport Error 1000 1000 [] 1; mkReport Error 1000 1000 [0%Z] 2; mkReport Error 1000 1000 [1%Z] 3 ].
Proof.
  split; [reflexivity|]. split; [vm_compute; reflexivity|]. eexists. split; [vm_compute; reflexivity|].
  repeat split; vm_compute; reflexivity.
Qed.

(* the hypotheses of C02_failure_classes_reported are satisfiable on that file
   system for nine of the ten classes (all but UnreadableFile): the named path nosuch.circom
   cannot be canonicalised; bad.circom, file id 0, does not parse; the include
   of x.circom in a.circom, file id 1, resolves nowhere; a.circom asks for
   circom 3.0.0 (the compiler version being 2.1.4); a.circom and b.circom both
   have a main component; the template T of a.circom uses a tuple as a condition
   and is rejected by the desugarer (C18's mirror, evaluated); the function f of
   a.circom is `f(a, a)`; the function g of a.circom is
   `function g(a) { var yy; return yy; }` (the syntax tree the parser yields for
   it), for which the chain of lifting and SSA mirrors answers with
   UndefinedVariableError (evaluated); b.circom, file id 2, defines a template T
   as well: the second definition of that name among the definitions of the
   files read (bad.circom yields none), the first being that of a.circom *)
Definition ex_pragma (p : spath) : option version :=
  if decide (p = str "/r/a.circom") then Some (3, 0, 0) else Some (2, 0, 0).
Definition ex_main (p : spath) : bool := true.
Definition ex_cs : codes :=
  Codes (Code 1003 1003) (Code 1004 1004) (Code 1002 1002) (Code 2002 2002) (Code 2001 2001) (Code 3002 3002) (Code 2003 2003) (Code 4001 4001).
Definition ex_spay (it : stage_item spath) : Z := 9.
Definition ex_ord (n : nat) (l : list nat) : list nat := l.
Definition ex_horder (l : list nat) : list nat := l.
Definition ex_after (d : PM.definition) : def := no_def.
Definition ex_m : Ast.meta := Ast.Meta 0 1 (Some 1%N).
Definition ex_T_body : Ast.statement :=
  Ast.Block ex_m [Ast.IfThenElse ex_m (Ast.Tuple ex_m []) (Ast.Block ex_m []) None].
Definition ex_f_body : Ast.statement := Ast.Block ex_m [Ast.Return ex_m (Ast.Number ex_m 0)].
Definition ex_T : PM.definition := PM.Def "T" Ir.KTemplate [] (Some 1%N) (0%N, 0%N) ex_T_body.
Definition ex_f : PM.definition := PM.Def "f" Ir.KFunction ["a"%string; "a"%string] (Some 1%N) (0%N, 0%N) ex_f_body.
Definition ex_mk (a b : N) : Ast.meta := Ast.Meta a b (Some 1%N).
Definition ex_g_body : Ast.statement :=
  Ast.Block (ex_mk 14 36)
    [Ast.InitializationBlock (ex_mk 16 22) Ast.VVar [Ast.Declaration (ex_mk 16 22) Ast.VVar "yy" [] true];
     Ast.Return (ex_mk 24 34) (Ast.Variable_ (ex_mk 31 33) "yy" [])].
Definition ex_g : PM.definition := PM.Def "g" Ir.KFunction ["a"%string] (Some 1%N) (11%N, 12%N) ex_g_body.
(* the numbering of the names: stdpp's encoding of strings as positive numbers (injective) *)
Definition ex_name2 (n : String.string) : Z := Z.pos (encode n).
Definition ex_m2 : Ast.meta := Ast.Meta 0 1 (Some 2%N).
Definition ex_T2 : PM.definition := PM.Def "T" Ir.KTemplate [] (Some 2%N) (0%N, 0%N) (Ast.Block ex_m2 []).
Definition ex_lib : list (list N) := [[0%N]; [0%N]; [0%N]].
(* what the parser yields per file *)
Definition ex_defs_of (p : spath) : list PM.definition :=
  if decide (p = str "/r/a.circom") then [ex_T; ex_f; ex_g]
  else if decide (p = str "/r/b.circom") then [ex_T2] else [].
(* the state [run_project false ex_fs ex_argv []] ends in *)
Definition ex_s : parse_state (path:=spath) :=
  {| ps_stack := FileStack (Some (str "/r")) [str "/r/b.circom"; str "/r/a.circom"; str "/r/bad.circom"]
                   [str "/r/bad.circom"; str "/r/a.circom"; str "/r/b.circom"] [] [];
     ps_files := [(str "/r/bad.circom", true); (str "/r/a.circom", true); (str "/r/b.circom", true)];
     ps_reports := [FileOsError (str "nosuch.circom"); ParsingError 0; IncludeError (str "x.circom") (Some 1) 21 40];
     ps_read := [str "/r/bad.circom"; str "/r/a.circom"; str "/r/b.circom"] |}.
Definition ex_r0 : Desugar.report := Desugar.Report Desugar.RCTupleError Desugar.MTupleCond 0 1 1 Desugar.LProblem.
Definition ex_sd : Desugar.desugared :=
  Desugar.Desugared [] [("f"%string, ex_f_body); ("g"%string, ex_g_body)] [ex_r0].

Example C02_events_satisfiable :
  run_project false ex_fs ex_argv [] = Base.Ok ex_s /\
  dirs_revisited (d_canon ex_fs) (d_is_dir ex_fs) (d_read_dir ex_fs) s_join s_ext_circom dir_fuel ex_argv [] = false /\
  all_definitions (d_content ex_fs) ex_defs_of (ps_files ex_s) = [ex_T; ex_f; ex_g; ex_T2] /\
  sugar_input (program_of ex_lib (all_definitions (d_content ex_fs) ex_defs_of (ps_files ex_s))) = Desugar.DOk ex_sd /\
  (forall a b : String.string, ex_name2 a = ex_name2 b -> a = b) /\
  analysis_order (tied_project (d_content ex_fs) ex_pragma ex_main (2, 1, 4) 1000 1000 ex_cs ex_spay ex_ord ex_horder 7%Z 0 0 PM.d_pfile ex_name2 ex_after ex_pay ex_s ex_lib ex_defs_of ex_sd []) [(KFunction, ex_name2 "f"); (KFunction, ex_name2 "g")] /\
    failure_event_tied (d_canon ex_fs) (d_is_dir ex_fs) (d_is_file ex_fs) (d_read_dir ex_fs) s_join s_parent s_file_name
                  s_ext_circom s_starts_dot s_has_sep (d_content ex_fs) 1000 1000 ex_pay ex_pragma ex_main (2, 1, 4) ex_cs ex_spay
                  ex_ord ex_horder 7%Z 0 0 PM.d_pfile ex_argv [] ex_s ex_lib ex_defs_of ex_sd [] MissingFile (mkReport Error 1000 1000 [] 1) /\
    failure_event_tied (d_canon ex_fs) (d_is_dir ex_fs) (d_is_file ex_fs) (d_read_dir ex_fs) s_join s_parent s_file_name
                  s_ext_circom s_starts_dot s_has_sep (d_content ex_fs) 1000 1000 ex_pay ex_pragma ex_main (2, 1, 4) ex_cs ex_spay
                  ex_ord ex_horder 7%Z 0 0 PM.d_pfile ex_argv [] ex_s ex_lib ex_defs_of ex_sd [] SyntaxError (mkReport Error 1000 1000 [0%Z] 2) /\
    failure_event_tied (d_canon ex_fs) (d_is_dir ex_fs) (d_is_file ex_fs) (d_read_dir ex_fs) s_join s_parent s_file_name
                  s_ext_circom s_starts_dot s_has_sep (d_content ex_fs) 1000 1000 ex_pay ex_pragma ex_main (2, 1, 4) ex_cs ex_spay
                  ex_ord ex_horder 7%Z 0 0 PM.d_pfile ex_argv [] ex_s ex_lib ex_defs_of ex_sd [] UnresolvedInclude (mkReport Error 1000 1000 [1%Z] 3) /\
    failure_event_tied (d_canon ex_fs) (d_is_dir ex_fs) (d_is_file ex_fs) (d_read_dir ex_fs) s_join s_parent s_file_name
                  s_ext_circom s_starts_dot s_has_sep (d_content ex_fs) 1000 1000 ex_pay ex_pragma ex_main (2, 1, 4) ex_cs ex_spay
                  ex_ord ex_horder 7%Z 0 0 PM.d_pfile ex_argv [] ex_s ex_lib ex_defs_of ex_sd [] BadPragma (mkReport Error 1003 1003 [] 9) /\
    failure_event_tied (d_canon ex_fs) (d_is_dir ex_fs) (d_is_file ex_fs) (d_read_dir ex_fs) s_join s_parent s_file_name
                  s_ext_circom s_starts_dot s_has_sep (d_content ex_fs) 1000 1000 ex_pay ex_pragma ex_main (2, 1, 4) ex_cs ex_spay
                  ex_ord ex_horder 7%Z 0 0 PM.d_pfile ex_argv [] ex_s ex_lib ex_defs_of ex_sd [] SeveralMains (mkReport Error 1002 1002 [] 9) /\
    failure_event_tied (d_canon ex_fs) (d_is_dir ex_fs) (d_is_file ex_fs) (d_read_dir ex_fs) s_join s_parent s_file_name
                  s_ext_circom s_starts_dot s_has_sep (d_content ex_fs) 1000 1000 ex_pay ex_pragma ex_main (2, 1, 4) ex_cs ex_spay
                  ex_ord ex_horder 7%Z 0 0 PM.d_pfile ex_argv [] ex_s ex_lib ex_defs_of ex_sd [] InvalidTupleOrAnonymous (mkReport Error 2002 2002 [1%Z] 9) /\
    failure_event_tied (d_canon ex_fs) (d_is_dir ex_fs) (d_is_file ex_fs) (d_read_dir ex_fs) s_join s_parent s_file_name
                  s_ext_circom s_starts_dot s_has_sep (d_content ex_fs) 1000 1000 ex_pay ex_pragma ex_main (2, 1, 4) ex_cs ex_spay
                  ex_ord ex_horder 7%Z 0 0 PM.d_pfile ex_argv [] ex_s ex_lib ex_defs_of ex_sd [] DuplicateParameter (mkReport Error 3002 3002 [1%Z] 9) /\
    failure_event_tied (d_canon ex_fs) (d_is_dir ex_fs) (d_is_file ex_fs) (d_read_dir ex_fs) s_join s_parent s_file_name
                  s_ext_circom s_starts_dot s_has_sep (d_content ex_fs) 1000 1000 ex_pay ex_pragma ex_main (2, 1, 4) ex_cs ex_spay
                  ex_ord ex_horder 7%Z 0 0 PM.d_pfile ex_argv [] ex_s ex_lib ex_defs_of ex_sd [] LiftFailure (mkReport Error 2003 2003 [1%Z] 9) /\
    failure_event_tied (d_canon ex_fs) (d_is_dir ex_fs) (d_is_file ex_fs) (d_read_dir ex_fs) s_join s_parent s_file_name
                  s_ext_circom s_starts_dot s_has_sep (d_content ex_fs) 1000 1000 ex_pay ex_pragma ex_main (2, 1, 4) ex_cs ex_spay
                  ex_ord ex_horder 7%Z 0 0 PM.d_pfile ex_argv [] ex_s ex_lib ex_defs_of ex_sd [] DuplicateDefinition (mkReport Error 4001 4001 [2%Z; 1%Z] 9).
Proof.
  split; [vm_compute; reflexivity|].
  split; [vm_compute; reflexivity|].
  split; [vm_compute; reflexivity|].
  split; [vm_compute; reflexivity|].
  assert (Hnamed : named (d_canon ex_fs) (d_is_dir ex_fs) (d_read_dir ex_fs) s_join s_ext_circom ex_argv (str "/r/a.circom")).
  { exists (str "a.circom"). split; [right; left|]. apply expands_file; reflexivity. }
  assert (Hbad : named (d_canon ex_fs) (d_is_dir ex_fs) (d_read_dir ex_fs) s_join s_ext_circom ex_argv (str "/r/bad.circom")).
  { exists (str "bad.circom"). split; [do 3 right; left|]. apply expands_file; reflexivity. }
  assert (Hb : named (d_canon ex_fs) (d_is_dir ex_fs) (d_read_dir ex_fs) s_join s_ext_circom ex_argv (str "/r/b.circom")).
  { exists (str "b.circom"). split; [left|]. apply expands_file; reflexivity. }
  assert (Hfile1 : file_is_named (d_canon ex_fs) (d_is_dir ex_fs) (d_read_dir ex_fs) s_join s_ext_circom ex_argv ex_s 1%Z).
  { exists 1, (str "/r/a.circom"), true. split; [reflexivity|]. split; [reflexivity|exact Hnamed]. }
  split.
  { intros a b H. unfold ex_name2 in H. injection H. apply (inj encode). }
  split. { vm_compute. apply Permutation_refl. }
  split. { simpl. exists (str "nosuch.circom"), (str "nosuch.circom"). split; [do 2 right; left|].
           split; [apply fto_file; reflexivity|reflexivity]. }
  split.
  { simpl. exists (str "/r/bad.circom"), 0, true. split; [exact Hbad|]. repeat split; reflexivity. }
  split.
  { simpl. exists (str "/r/a.circom"), [ (str "x.circom", 21, 40); (str "b.circom", 41, 60) ], (str "x.circom"), 21, 40, 1, true.
    split; [exact Hnamed|]. split; [reflexivity|]. split; [left|].
    split; [|split; reflexivity].
    apply resolves_nowhere; [reflexivity|]. unfold the_libraries. simpl. constructor. }
  split.
  { simpl. exists (str "/r/a.circom"), [ (str "x.circom", 21, 40); (str "b.circom", 41, 60) ], (3, 0, 0).
    split; [by apply reach_named|]. repeat split; reflexivity. }
  split.
  { simpl. exists (str "/r/a.circom"), (str "/r/b.circom").
    split; [intros H; vm_compute in H; discriminate H|].
    split; [by apply reach_named|]. split; [by apply reach_named|]. repeat split; reflexivity. }
  split.
  { exists "T"%string, ex_T_body, 1%N, ex_r0. split; [left; split; [left; reflexivity|vm_compute; reflexivity]|].
    split; [unfold body_in_file; vm_compute; repeat constructor|]. split; [exact Hfile1|reflexivity]. }
  split.
  { exists ex_f. split; [vm_compute; left; reflexivity|].
    split; [exists 1%N; split; [reflexivity|exact Hfile1]|].
    split; [reflexivity|]. split; [|reflexivity].
    intros H. inversion H as [|x l Hx Hl]; subst. apply Hx. left. reflexivity. }
  split.
  { exists ex_g, LEUndefined. split; [vm_compute; right; left; reflexivity|].
    split; [exists 1%N; split; [reflexivity|exact Hfile1]|].
    split; [vm_compute; reflexivity|]. split; [discriminate|]. split; [right; reflexivity|reflexivity]. }
  exists [], ex_T, [ex_f; ex_g], ex_T2, []. split; [vm_compute; reflexivity|]. split; [reflexivity|].
  split; [intros x []|]. split; [left; exists 1%N; split; [reflexivity|exact Hfile1]|reflexivity].
Qed.

(* the hypotheses of C02_clean_only_if_every_definition_analysed (and of the
   other two C02_clean_only_if_ theorems about a run) are satisfiable:
   `circomspect c.circom` in /r, c.circom being `pragma circom 2.0.0; template
   C() {} component main = C();`.  The run ends with exit status 0; the file
   is named, parses, its definition C carries the file id 0 and its metas lie
   in file 0; and the `analyzing` line of C is in the log *)
Definition ex2_fs : fs_data := FsData
  [ (str "c.circom", Some (str "/r/c.circom")); (str "/r/c.circom", Some (str "/r/c.circom")) ]
  []
  [ str "/r/c.circom" ]
  [ (str "/r/c.circom", Parsed []) ].
Definition ex2_argv : list spath := [ str "c.circom" ].
Definition ex2_m : Ast.meta := Ast.Meta 0 1 (Some 0%N).
Definition ex2_C : PM.definition := PM.Def "C" Ir.KTemplate [] (Some 0%N) (0%N, 0%N) (Ast.Block ex2_m []).
Definition ex2_defs_of (p : spath) : list PM.definition := if decide (p = str "/r/c.circom") then [ex2_C] else [].
Definition ex2_lib : list (list N) := [[0%N]].
(* what the desugarer hands back for it (the two empty declaration blocks it puts in front) *)
Definition ex2_sd : Desugar.desugared :=
  Desugar.Desugared
    [("C"%string, Ast.Block ex2_m [Ast.InitializationBlock ex2_m Ast.VVar []; Ast.InitializationBlock ex2_m Ast.VComponent []])]
    [] [].

Example C02_clean_run_satisfiable :
  exists s, run_project false ex2_fs ex2_argv [] = Base.Ok s /\
    dirs_revisited (d_canon ex2_fs) (d_is_dir ex2_fs) (d_read_dir ex2_fs) s_join s_ext_circom dir_fuel ex2_argv [] = false /\
    sugar_input (program_of ex2_lib (all_definitions (d_content ex2_fs) ex2_defs_of (ps_files s))) = Desugar.DOk ex2_sd /\
    (forall a b : String.string, ex_name2 a = ex_name2 b -> a = b) /\
    analysis_order (tied_project (d_content ex2_fs) ex_pragma ex_main (2, 1, 4) 1000 1000 ex_cs ex_spay ex_ord ex_horder 7%Z 0 0 PM.d_pfile ex_name2 ex_after ex_pay s ex2_lib ex2_defs_of ex2_sd []) [(KTemplate, ex_name2 "C")] /\
    res_exit (run_keys (tied_project (d_content ex2_fs) ex_pragma ex_main (2, 1, 4) 1000 1000 ex_cs ex_spay ex_ord ex_horder 7%Z 0 0 PM.d_pfile ex_name2 ex_after ex_pay s ex2_lib ex2_defs_of ex2_sd []) ex_opts [(KTemplate, ex_name2 "C")]) = 0%Z /\
    o_allow ex_opts = [] /\
    defs_file_ok (d_content ex2_fs) s ex2_defs_of /\
    bodies_in_file (d_content ex2_fs) s ex2_defs_of /\
    ps_files s !! 0 = Some (str "/r/c.circom", true) /\
    named (d_canon ex2_fs) (d_is_dir ex2_fs) (d_read_dir ex2_fs) s_join s_ext_circom ex2_argv (str "/r/c.circom") /\
    parses (d_content ex2_fs) (str "/r/c.circom") = true /\
    In ex2_C (ex2_defs_of (str "/r/c.circom")) /\
    In (MAnalyzing (runner_kind (PM.d_kind ex2_C), ex_name2 (PM.d_name ex2_C)))
       (res_log (run_keys (tied_project (d_content ex2_fs) ex_pragma ex_main (2, 1, 4) 1000 1000 ex_cs ex_spay ex_ord ex_horder 7%Z 0 0 PM.d_pfile ex_name2 ex_after ex_pay s ex2_lib ex2_defs_of ex2_sd []) ex_opts [(KTemplate, ex_name2 "C")])).
Proof.
  eexists. split; [vm_compute; reflexivity|].
  split; [vm_compute; reflexivity|].
  split; [vm_compute; reflexivity|].
  split. { intros a b H. unfold ex_name2 in H. injection H. apply (inj encode). }
  split. { vm_compute. apply Permutation_refl. }
  split; [vm_compute; reflexivity|].
  split; [reflexivity|].
  split. { apply NoSilentMerger.defs_file_ok_decided. vm_compute. reflexivity. }
  split. { intros d fid Hin Hpf. vm_compute in Hin. destruct Hin as [<-|[]]. inversion Hpf; subst.
           unfold body_in_file. vm_compute. repeat constructor. }
  split; [reflexivity|].
  split. { exists (str "c.circom"). split; [left|]. apply expands_file; reflexivity. }
  split; [reflexivity|].
  split; [left; reflexivity|].
  vm_compute. left. reflexivity.
Qed.
