(* C02 — no silent failure.  Property theorems only.

   Two mirrors are joined here: Model.Includes (C19: FileStack, the parse_files
   loop — which files are read, the FileLibrary with its user flags, the OS /
   include / parse error reports) and Model.Runner (C03: caches, writers,
   filters, exit status), by Model.Front (errors.rs `into_report`,
   FileLibrary::user_inputs, the hand-over in cli/src/main.rs).  The file
   system (any type of paths with decidable equality, any canon, is_dir,
   is_file, read_dir, join, parent, file_name, ext_circom, starts_dot, has_sep,
   content with canon idempotent), the command line, the -L list, the reports
   of the stages outside the mirrors ([others]), the definitions with what
   lifting and the passes produce for them ([defs]), the options and the
   analysis order are universally quantified.

   Of the ten failure classes of the property text, FOUR are derived here —
   a named path that cannot be opened, a file whose content cannot be read, a
   named file that does not parse, an include of a named file that resolves
   nowhere ([class_producer c = ByIncludes]): the hypothesis ([failure_event],
   Spec.NoSilentSpec) is a fact about the FILE SYSTEM; that the error report
   is in the project handed to the runner, that it is error level, with a
   location that passes the file filter, is derived (that errors.rs gives
   these reports the category and the code Model.Front.report_of says is
   compared on every project of the matrix, engine front).  The other SIX
   (version pragma, several main components, invalid tuple / anonymous
   component, duplicate parameter, lift failure, duplicate definition) are
   produced by stages outside both mirrors; for them there is NO class
   theorem: once such a report exists with error level, C02_error_report_displayed
   (the runner's filter law) applies, and that the real stages produce it is
   covered by the injection matrix of lib/props/C02.py only. *)
From Coq Require Import ZArith Permutation Ascii String.
Require Import Gen.Category Model.Runner Spec.RunnerSpec Proofs.RunnerProofs.
From stdpp Require Import list strings.
Require Import Model.Includes Model.Front Spec.IncludesSpec Spec.NoSilentSpec Proofs.NoSilentProofs.

(* the four derived failure classes (class_producer c = ByIncludes: MissingFile,
   UnreadableFile, SyntaxError, UnresolvedInclude): the report of the event is
   displayed, it is error level, and the exit status is 1 — unless that very id
   is allow-listed.  The hypothesis failure_event is, for these classes, a
   statement about the file system and the FileLibrary only. *)
Theorem C02_failure_classes_reported :
  forall (path : Type) (EqDecision0 : EqDecision path)
         (canon : path -> option path) (is_dir is_file : path -> bool)
         (read_dir : path -> option (list path)) (join : path -> path -> path)
         (parent : path -> path) (file_name : path -> option path)
         (ext_circom starts_dot has_sep : path -> bool) (content : path -> file_content path),
    (forall p c, canon p = Some c -> canon c = Some c) ->
    forall (pf_id pf_name : Z) (payload : Includes.report (path:=path) -> Z)
           (dfuel fuel : nat) (argv libs : list path) (s : parse_state),
      parse_files canon is_dir is_file read_dir join parent file_name ext_circom starts_dot has_sep content
                  false dfuel fuel argv libs = Base.Ok s ->
      forall (others : list Runner.report) (defs : list def) (o : opts) (order : list key)
             (c : failure_class) (r : Runner.report),
        class_producer c = ByIncludes ->
        wf_project (front_project pf_id pf_name payload s others defs) ->
        analysis_order (front_project pf_id pf_name payload s others defs) order ->
        failure_event canon is_dir is_file read_dir join parent file_name ext_circom starts_dot has_sep content
                      pf_id pf_name payload argv libs s others defs c r ->
        ~ In (r_id r) (o_allow o) ->
        In r (res_shown (run_keys (front_project pf_id pf_name payload s others defs) o order)) /\
        r_level r = Error /\
        res_exit (run_keys (front_project pf_id pf_name payload s others defs) o order) = 1%Z.
Proof. exact @derived_classes_reported. Qed.
Print Assumptions C02_failure_classes_reported.

(* the events of the Includes mirror are not hypothetical: a named file that
   does not parse, an include statement of a named file that resolves nowhere,
   has its event (for a path that cannot be opened and for an unreadable file
   the event is the file-system fact itself, see Spec.NoSilentSpec) *)
Theorem C02_front_failures_have_reports :
  forall (path : Type) (EqDecision0 : EqDecision path)
         (canon : path -> option path) (is_dir is_file : path -> bool)
         (read_dir : path -> option (list path)) (join : path -> path -> path)
         (parent : path -> path) (file_name : path -> option path)
         (ext_circom starts_dot has_sep : path -> bool) (content : path -> file_content path),
    (forall p c, canon p = Some c -> canon c = Some c) ->
    forall (pf_id pf_name : Z) (payload : Includes.report (path:=path) -> Z)
           (dfuel fuel : nat) (argv libs : list path) (s : parse_state),
      parse_files canon is_dir is_file read_dir join parent file_name ext_circom starts_dot has_sep content
                  false dfuel fuel argv libs = Base.Ok s ->
      forall (others : list Runner.report) (defs : list def),
        (forall f, named canon is_dir read_dir join ext_circom argv f -> content f = Unparsable ->
           exists r, failure_event canon is_dir is_file read_dir join parent file_name ext_circom starts_dot
                                   has_sep content pf_id pf_name payload argv libs s others defs SyntaxError r) /\
        (forall f incs p a b,
           named canon is_dir read_dir join ext_circom argv f -> content f = Parsed incs -> (p, a, b) ∈ incs ->
           resolves canon is_file join parent file_name starts_dot has_sep f
                    (the_libraries canon is_dir ext_circom libs) p None ->
           exists r, failure_event canon is_dir is_file read_dir join parent file_name ext_circom starts_dot
                                   has_sep content pf_id pf_name payload argv libs s others defs UnresolvedInclude r).
Proof. exact @front_failures_have_reports. Qed.
Print Assumptions C02_front_failures_have_reports.

(* exit status 0 ("No issues found.") with the parse-failure id not allow-listed
   only if every path the command line stands for could be opened, every file
   reached was readable, every named file parsed and had each include served
   by a file that was read; and every definition living in a named file was
   taken up by the runner (its `analyzing` line is in the log) and, unless the
   id of its error is allow-listed, lifted *)
Theorem C02_clean_only_if_all_read_and_analysed :
  forall (path : Type) (EqDecision0 : EqDecision path)
         (canon : path -> option path) (is_dir is_file : path -> bool)
         (read_dir : path -> option (list path)) (join : path -> path -> path)
         (parent : path -> path) (file_name : path -> option path)
         (ext_circom starts_dot has_sep : path -> bool) (content : path -> file_content path),
    (forall p c, canon p = Some c -> canon c = Some c) ->
    forall (pf_id pf_name : Z) (payload : Includes.report (path:=path) -> Z)
           (dfuel fuel : nat) (argv libs : list path) (s : parse_state),
      parse_files canon is_dir is_file read_dir join parent file_name ext_circom starts_dot has_sep content
                  false dfuel fuel argv libs = Base.Ok s ->
      forall (others : list Runner.report) (defs : list def) (o : opts) (order : list key),
        wf_project (front_project pf_id pf_name payload s others defs) ->
        analysis_order (front_project pf_id pf_name payload s others defs) order ->
        res_exit (run_keys (front_project pf_id pf_name payload s others defs) o order) = 0%Z ->
        ~ In pf_id (o_allow o) ->
        all_named_read canon is_dir is_file read_dir join parent file_name ext_circom starts_dot has_sep content
                       argv libs s /\
        (forall d, In d defs -> file_is_named canon is_dir read_dir join ext_circom argv s (d_file d) ->
           In (MAnalyzing (d_key d))
              (res_log (run_keys (front_project pf_id pf_name payload s others defs) o order)) /\
           (forall e, d_err d = Some e -> r_level e = Error ->
                      not_in_included_only canon is_dir read_dir join ext_circom argv s e ->
                      In (r_id e) (o_allow o))).
Proof. exact @clean_only_if_all_read_and_analysed. Qed.
Print Assumptions C02_clean_only_if_all_read_and_analysed.

(* the user-input set handed to the file filter is the set of file ids of the
   named files — also for a named file that another named file includes and
   that is therefore read before its own turn *)
Theorem C02_user_ids_are_named_files :
  forall (path : Type) (EqDecision0 : EqDecision path)
         (canon : path -> option path) (is_dir is_file : path -> bool)
         (read_dir : path -> option (list path)) (join : path -> path -> path)
         (parent : path -> path) (file_name : path -> option path)
         (ext_circom starts_dot has_sep : path -> bool) (content : path -> file_content path),
    (forall p c, canon p = Some c -> canon c = Some c) ->
    forall (dfuel fuel : nat) (argv libs : list path) (s : parse_state),
      parse_files canon is_dir is_file read_dir join parent file_name ext_circom starts_dot has_sep content
                  false dfuel fuel argv libs = Base.Ok s ->
      forall z, In z (user_ids s) <-> file_is_named canon is_dir read_dir join ext_circom argv s z.
Proof. exact @user_id_iff_named. Qed.
Print Assumptions C02_user_ids_are_named_files.

(* runner level, for any project (also one that is not the image of a run of
   the Includes mirror): an error-level report that is produced and is not
   located solely in included files is displayed and makes the exit status 1 *)
Theorem C02_error_report_displayed : forall p o order r,
  wf_project p -> analysis_order p order ->
  In r (produced p) -> r_level r = Error -> ~ located_only_in_included (p_user p) r ->
  ~ In (r_id r) (o_allow o) ->
  In r (res_shown (run_keys p o order)) /\ r_level r = Error /\ res_exit (run_keys p o order) = 1%Z.
Proof. exact error_report_displayed. Qed.
Print Assumptions C02_error_report_displayed.

(* runner level: exit status 0 only if nothing that was produced is to be
   kept and every definition of a user file was taken up by the runner (its
   `analyzing` line was written); and, when nothing is allow-listed, only if
   every error-level report of the parser and every lift/SSA error of a user
   definition is located solely in an included file *)
Theorem C02_clean_only_if_all_analysed : forall p o order,
  wf_project p -> analysis_order p order ->
  res_exit (run_keys p o order) = 0%Z ->
  (forall r, In r (produced p) -> ~ keep o (p_user p) r) /\
  (forall d, In d (user_defs p) -> In (MAnalyzing (d_key d)) (res_log (run_keys p o order))) /\
  (o_allow o = [] ->
     (forall r, In r (p_parse p) -> r_level r = Error -> located_only_in_included (p_user p) r) /\
     (forall d e, In d (user_defs p) -> d_err d = Some e -> r_level e = Error -> located_only_in_included (p_user p) e)).
Proof. exact NoSilentProofs.clean_only_if_all_analysed. Qed.
Print Assumptions C02_clean_only_if_all_analysed.

(* the summary line belongs to the exit status *)
Theorem C02_exit_zero_iff_nothing_displayed : forall p o order,
  wf_project p -> analysis_order p order ->
  (res_exit (run_keys p o order) = 0%Z <-> res_shown (run_keys p o order) = []) /\
  (res_exit (run_keys p o order) = 0%Z \/ res_exit (run_keys p o order) = 1%Z).
Proof. exact exit_zero_iff_nothing_displayed. Qed.
Print Assumptions C02_exit_zero_iff_nothing_displayed.

(* known finding C02-duplicate-definition-library (D22): TemplateLibrary::new
   overwrites silently; with a duplicated name one user definition is dropped
   and the run can still end with exit status 0 *)
Theorem C02_KF_duplicate_definition_refuted :
  exists srcs user o order d,
    KF_duplicate_definition_b srcs = true /\ In d srcs /\ user_def_b user d = true /\
    analysis_order (mkProject [] (build_library srcs) user) order /\
    ~ In d (build_library srcs) /\
    res_exit (run_keys (mkProject [] (build_library srcs) user) o order) = 0%Z.
Proof. exact duplicate_definition_dropped_silently. Qed.
Print Assumptions C02_KF_duplicate_definition_refuted.

(* outside that class nothing is dropped: the library is the list of sources *)
Theorem C02_no_definition_dropped : forall srcs,
  KF_duplicate_definition_b srcs = false -> build_library srcs = srcs.
Proof. exact build_library_nodup. Qed.
Print Assumptions C02_no_definition_dropped.

(* ---- non-vacuity ----------------------------------------------------------
   A concrete file system run through the extracted instance
   (Includes.run_project): `circomspect b.circom a.circom nosuch.circom bad.circom`
   in /r.  a.circom includes x.circom (which is nowhere) and b.circom;
   bad.circom does not parse; nosuch.circom does not exist.  The stack is LIFO:
   bad.circom is read first, then a.circom, whose include pulls b.circom before
   the turn its own place on the command line would give it (the shape of the
   seeded change C02-user-input-by-pop-order).  The three reports are there,
   the user-input ids are those of all three files that were read (b.circom,
   id 2, included), and the runner displays the three reports and exits with 1. *)
Definition ex_fs : fs_data := FsData
  [ (str "a.circom", Some (str "/r/a.circom")); (str "nosuch.circom", None);
    (str "bad.circom", Some (str "/r/bad.circom")); (str "b.circom", Some (str "/r/b.circom"));
    (str "/r/a.circom", Some (str "/r/a.circom")); (str "/r/bad.circom", Some (str "/r/bad.circom"));
    (str "/r/b.circom", Some (str "/r/b.circom")); (str "/r/x.circom", None) ]
  []
  [ str "/r/a.circom"; str "/r/bad.circom"; str "/r/b.circom" ]
  [ (str "/r/a.circom", Parsed [ (str "x.circom", 21, 40); (str "b.circom", 41, 60) ]);
    (str "/r/bad.circom", Unparsable);
    (str "/r/b.circom", Parsed []) ].
Definition ex_argv : list spath := [ str "b.circom"; str "a.circom"; str "nosuch.circom"; str "bad.circom" ].
Definition ex_pay (r : Includes.report (path:=spath)) : Z :=
  match r with FileOsError _ => 1 | ParsingError _ => 2 | IncludeError _ _ _ _ => 3 end%Z.
Definition ex_opts : opts := mkOpts Error [] false false.

Example C02_witnesses :
  canon_idempotent_b ex_fs = true /\
  exists s, run_project false ex_fs ex_argv [] = Base.Ok s /\
    ps_read s = [ str "/r/bad.circom"; str "/r/a.circom"; str "/r/b.circom" ] /\
    ps_reports s = [ FileOsError (str "nosuch.circom"); ParsingError 0; IncludeError (str "x.circom") (Some 1) 21 40 ] /\
    user_ids s = [ 0; 1; 2 ]%Z /\
    res_exit (run_keys (front_project 1000 1000 ex_pay s [] []) ex_opts []) = 1%Z /\
    res_shown (run_keys (front_project 1000 1000 ex_pay s [] []) ex_opts []) =
      [ mkReport Error 1000 1000 [] 1; mkReport Error 1000 1000 [0%Z] 2; mkReport Error 1000 1000 [1%Z] 3 ].
Proof.
  split; [reflexivity|]. eexists. split; [vm_compute; reflexivity|].
  repeat split; vm_compute; reflexivity.
Qed.

(* the hypotheses of C02_failure_classes_reported are satisfiable for three of
   the four derived classes on that file system (the named path nosuch.circom
   cannot be canonicalised; bad.circom, file id 0, does not parse; the include
   of x.circom in a.circom, file id 1, resolves nowhere), next to a lift error
   and a pragma report that play no role for them *)
Definition ex_lift_err : Runner.report := mkReport Error 2 2 [1%Z] 7.
Definition ex_T : def := mkDef KTemplate 1 1 [] (Some ex_lift_err) [] [].
Definition ex_pragma : Runner.report := mkReport Error 3 3 [] 8.

Example C02_events_satisfiable :
  exists s, run_project false ex_fs ex_argv [] = Base.Ok s /\
    wf_project (front_project 1000 1000 ex_pay s [ex_pragma] [ex_T]) /\
    analysis_order (front_project 1000 1000 ex_pay s [ex_pragma] [ex_T]) [(KTemplate, 1%Z)] /\
    class_producer MissingFile = ByIncludes /\ class_producer SyntaxError = ByIncludes /\
    class_producer UnresolvedInclude = ByIncludes /\
    failure_event (d_canon ex_fs) (d_is_dir ex_fs) (d_is_file ex_fs) (d_read_dir ex_fs) s_join s_parent s_file_name
                  s_ext_circom s_starts_dot s_has_sep (d_content ex_fs) 1000 1000 ex_pay ex_argv [] s
                  [ex_pragma] [ex_T] MissingFile (mkReport Error 1000 1000 [] 1) /\
    failure_event (d_canon ex_fs) (d_is_dir ex_fs) (d_is_file ex_fs) (d_read_dir ex_fs) s_join s_parent s_file_name
                  s_ext_circom s_starts_dot s_has_sep (d_content ex_fs) 1000 1000 ex_pay ex_argv [] s
                  [ex_pragma] [ex_T] SyntaxError (mkReport Error 1000 1000 [0%Z] 2) /\
    failure_event (d_canon ex_fs) (d_is_dir ex_fs) (d_is_file ex_fs) (d_read_dir ex_fs) s_join s_parent s_file_name
                  s_ext_circom s_starts_dot s_has_sep (d_content ex_fs) 1000 1000 ex_pay ex_argv [] s
                  [ex_pragma] [ex_T] UnresolvedInclude (mkReport Error 1000 1000 [1%Z] 3).
Proof.
  eexists. split; [vm_compute; reflexivity|].
  assert (Hnamed : named (d_canon ex_fs) (d_is_dir ex_fs) (d_read_dir ex_fs) s_join s_ext_circom ex_argv (str "/r/a.circom")).
  { exists (str "a.circom"). split; [right; left|]. apply expands_file; reflexivity. }
  assert (Hbad : named (d_canon ex_fs) (d_is_dir ex_fs) (d_read_dir ex_fs) s_join s_ext_circom ex_argv (str "/r/bad.circom")).
  { exists (str "bad.circom"). split; [do 3 right; left|]. apply expands_file; reflexivity. }
  split. { unfold wf_project. simpl. repeat constructor. intros []. }
  split. { vm_compute. apply Permutation_refl. }
  split; [reflexivity|]. split; [reflexivity|]. split; [reflexivity|].
  split. { simpl. exists (str "nosuch.circom"), (str "nosuch.circom"). split; [do 2 right; left|].
           split; [apply fto_file; reflexivity|reflexivity]. }
  split.
  { simpl. exists (str "/r/bad.circom"), 0, true. split; [exact Hbad|]. repeat split; reflexivity. }
  simpl. exists (str "/r/a.circom"), [ (str "x.circom", 21, 40); (str "b.circom", 41, 60) ], (str "x.circom"), 21, 40, 1, true.
  split; [exact Hnamed|]. split; [reflexivity|]. split; [left|].
  split; [|split; reflexivity].
  apply resolves_nowhere; [reflexivity|]. unfold the_libraries. simpl. constructor.
Qed.
