(* C06 - constant propagation is sound: a claimed constant holds in every run.
   The claims are judged through the verified validator Justify.vjust_cfg,
   which the check runs on the implementation's real annotated SSA graph of
   every explored definition (and which Model.Propagate is compared with). *)
From Coq Require Import ZArith List Bool Znumtheory String.
Require Import Model.Base Model.Field Model.Ir Model.Propagate Model.Justify.
Require Import Model.ConstCond Proofs.ConstCondProofs.
Require Import Model.SsaCheck Spec.FieldSpec Spec.ValueSem Spec.SsaSpec Spec.SsaRun Proofs.ValueProofs Proofs.SsaRunProofs.
Import ListNotations.
Local Open Scope Z_scope.

(* every constant attached to a node of a validated graph equals the value the
   node evaluates to, in every state reachable by the execution steps *)
Theorem C06_validated_graph_claims_true : forall p c s0 s e v k,
  prime p -> 2 < p -> Z.log2 p < 2 ^ 64 ->
  vjust_cfg p c = true ->
  init_ok (all_stmts (c_blocks c)) p s0 -> reachable (all_stmts (c_blocks c)) p s0 s ->
  occurs_in c e -> evalR p s e v -> expr_val e = Some k -> claim_ok k v.
Proof. exact validated_graph_claims_true. Qed.
Print Assumptions C06_validated_graph_claims_true.

(* the same along CONCRETE executions of the SSA graph: walk any path from the
   entry; a phi copies the argument whose version arrives along the edge taken
   (Spec.SsaRun, using the running version map of C14); every claim met is true *)
Theorem C06_claims_true_along_paths : forall c p s0 pi s e v k,
  prime p -> 2 < p -> Z.log2 p < 2 ^ 64 ->
  vjust_cfg p c = true -> init_ok (all_stmts (c_blocks c)) p s0 ->
  run_path c p (params_map (c_params c)) s0 pi s ->
  occurs_in c e -> evalR p s e v -> expr_val e = Some k -> claim_ok k v.
Proof. exact claims_true_along_paths. Qed.
Print Assumptions C06_claims_true_along_paths.

(* and such executions do not get stuck at a phi: on a graph accepted by the SSA
   validator, whenever a version of the phi's variable arrives along the edge,
   it is one of the phi's arguments (an edge that carries NO version used to be the
   finding C06-phi-missing-default, repaired in /repo 2b7419e: such an edge now
   contributes the unversioned name, for which nothing is claimed) *)
Theorem C06_phi_arguments_available : forall c idom pi i b L,
  ssa_check c idom = true -> path_from_entry c (pi ++ [i]) ->
  exec_path c (params_map (c_params c)) pi = Some L -> nth_error (c_blocks c) i = Some b ->
  forall s x args n, In s (fst (leading_phis (b_stmts b))) -> phi_parts s = Some (x, args) ->
  vget L (key_of x) = Some n ->
  exists a, In a args /\ key_of a = key_of x /\ vn_version a = Some n.
Proof. exact phi_arguments_available. Qed.
Print Assumptions C06_phi_arguments_available.

(* `constant branch condition`: a condition claimed always true (false) never evaluates to false (true) *)
(* third audit: the corollary `constant_condition_claim_true` (claim_ok unfolded for a Boolean claim:
   v <> 0 <-> b = true) is no longer an obligation - it restates C06_validated_graph_claims_true; the statement
   about the FINDING is C06_constant_condition_finding_true below. Lemma Proofs.*.constant_condition_claim_true stays. *)

(* THE FINDING ITSELF (CS0009, constant_conditional.rs, mirrored by Model.ConstCond and
   compared with the real pass, label text included, on every explored definition; that
   the mirror reports exactly the if statements whose condition carries a boolean claim,
   with "always true" exactly for the claim true, are definitional facts about the mirror
   kept as lemmas in Proofs.ConstCondProofs, not counted as obligations): *)
(* on a validated graph a reported condition never takes the other truth value *)
Theorem C06_constant_condition_finding_true : forall p c s0 s bi i b,
  prime p -> 2 < p -> Z.log2 p < 2 ^ 64 ->
  vjust_cfg p c = true ->
  init_ok (all_stmts (c_blocks c)) p s0 -> reachable (all_stmts (c_blocks c)) p s0 s ->
  In (bi, i, b) (find_constant_conditional c) ->
  exists blk k m e t f, In blk (c_blocks c) /\ b_index blk = bi /\ i = N.of_nat k /\
                        nth_error (b_stmts blk) k = Some (SIf m e t f) /\
                        forall v, evalR p s e v -> (v <> 0 <-> b = true).
Proof. exact constant_condition_finding_true. Qed.
Print Assumptions C06_constant_condition_finding_true.
(* Num2Bits/Bits2Num: a size claimed to be a constant below a bound is below it *)
(* third audit: `size_claim_true` (v = z and z < bound give v < bound) is no longer an obligation: it is claim_ok
   unfolded for a field claim and says nothing about the Num2Bits pass; the threshold itself is C11's. *)

(* operator level: the table of expression_impl.rs over field elements *)
Theorem C06_infix_field_sound : forall p, prime p -> 2 < p -> Z.log2 p < 2 ^ 64 ->
  forall op a b c v, 0 <= a < p -> 0 <= b < p ->
  infix_values op (Some (VField a)) (Some (VField b)) p = Ok (Some c) ->
  sem_infix op a b p v -> claim_ok c v.
Proof. exact infix_field_sound. Qed.
Print Assumptions C06_infix_field_sound.

Theorem C06_infix_bool_sound : forall p op (x y : bool) c v,
  infix_values op (Some (VBool x)) (Some (VBool y)) p = Ok (Some c) ->
  sem_infix op (b2z x) (b2z y) p v -> claim_ok c v.
Proof. exact infix_bool_sound. Qed.
Print Assumptions C06_infix_bool_sound.

(* prefix operators (-, !, ~) at operator level (third audit: no theorem covered them on their own): whatever
   prefix_values attaches to `op x`, for an operand whose claim is true, is the value Circom's semantics gives *)
Theorem C06_prefix_sound : forall p, 2 < p -> Z.log2 p < 2 ^ 64 ->
  forall op cl a c v, 0 <= a < p -> claim_ok cl a ->
  prefix_values op (Some cl) p = Some c -> sem_prefix op a p v -> claim_ok c v.
Proof. exact prefix_sound. Qed.
Print Assumptions C06_prefix_sound.

(* the step relation keeps every defined cell consistent with the claims about it *)
Theorem C06_step_preserves : forall p, prime p -> 2 < p -> Z.log2 p < 2 ^ 64 ->
  forall ss, forallb (vjust_stmt ss p) ss = true ->
  forall s s', store_ok p ss s -> step ss p s s' -> store_ok p ss s'.
Proof. exact step_preserves. Qed.
Print Assumptions C06_step_preserves.

(* non-vacuity: a validated graph with a non-literal claim, and a false claim rejected *)
Definition ex_k (v : option vred) : know := {| kval := v; kdeg := None |}.
Definition ex_x1 : vname := {| vn_name := [120%N]; vn_suffix := None; vn_version := Some 1%N |}.
Definition ex_m : meta := {| m_start := 0%N; m_end := 0%N; m_file := None |}.
Definition ex_graph (claim : Z) : cfg :=
  {| c_kind := KFunction; c_params := []; c_decls := [];
     c_blocks := [ {| b_index := 0%N; b_depth := 0%N; b_preds := []; b_succs := [];
       b_stmts := [ SSubst ex_m ex_x1 OpVar (EInfix IAdd (ENum 2 (ex_k (Some (VField 2)))) (ENum 3 (ex_k (Some (VField 3)))) (ex_k (Some (VField 5))))
                           (Some (VField 5)) (Some TLocal);
                    SRet ex_m (EInfix IMul (EVar ex_x1 (ex_k (Some (VField 5)))) (ENum 2 (ex_k (Some (VField 2)))) (ex_k (Some (VField claim)))) ] |} ] |}.
Example C06_finding_example :
  find_constant_conditional
    {| c_kind := KFunction; c_params := []; c_decls := [];
       c_blocks := [ {| b_index := 0%N; b_depth := 0%N; b_preds := []; b_succs := [1%N];
         b_stmts := [ SIf ex_m (EInfix IEq (ENum 2 (ex_k (Some (VField 2)))) (ENum 3 (ex_k (Some (VField 3)))) (ex_k (Some (VBool false)))) 1%N None;
                      SIf ex_m (ENum 1 (ex_k (Some (VField 1)))) 1%N None ] |} ] |}
  = [(0%N, 0%N, false)].
Proof. vm_compute. reflexivity. Qed.
Example C06_validator_accepts_and_rejects :
  vjust_cfg 7 (ex_graph 3) = true /\ vjust_cfg 7 (ex_graph 4) = false.
Proof. vm_compute. split; reflexivity. Qed.
