(* C19 — includes: each file once, cycles terminate, resolution order, located
   include errors, only named files are user inputs.  Property theorems only:
   each is closed by [exact] of a lemma of Proofs.IncludesProofs, followed by
   Print Assumptions.

   The file system is universally quantified: any type of paths with decidable
   equality and any functions canon (fs::canonicalize), is_dir, is_file, read_dir, join
   (PathBuf::push), parent (PathBuf::pop), file_name, ext_circom, starts_dot,
   has_sep, content.  The only premises about them are
     * [canon] is idempotent: the canonical form of a path canonicalises to itself;
     * (termination only) the canonical paths are finitely many ([universe])
       and the named directories nest to a finite depth ([depth_le]).
   Every theorem is about the current code ([d23 = false]); C19_D23_refuted is
   about the code before the repair.

   Fourth audit (fix 517e7a0: `add_files` reads each canonical directory once):
   the mirror follows the fix ([add_files_once]).  The theorems that speak
   about the set [named] of files the command line stands for carry the
   premise [dirs_revisited .. = false] — no named directory was met twice while
   the arguments were expanded (then the fix changes nothing:
   C19_fix_changes_nothing_without_revisit).  The premise is a boolean of the
   mirror, printed by the driver for every project; where it is false (a
   directory linked back to itself or a parent) these theorems are silent and
   the premise-free ones remain: every user input is a named file and every
   non-directory argument is a user input (C19_user_set_sound), every file read
   is reachable from a named one (C19_reads_only_reachable), each file once,
   termination, located include errors, every include served.  That skipping a
   directory already read loses no file needs a coherence property of the file
   system (two spellings of a directory list the same entries) that a finite
   table cannot state: open, checked by the oracle on every project.

   The last group composes this model with Model.Runner (C03's mirror of
   cli/src/main.rs and analysis_runner.rs) through
   Model.IncludesRunner.file_library_user_inputs (FileLibrary::add_file):
   "files that were only included never produce findings of their own" is
   stated about what `main` displays, not only about the stored flag. *)
From Coq Require Import ZArith Ascii String.
From stdpp Require Import list strings.
Require Model.Runner Spec.RunnerSpec.
Require Import Model.Includes Spec.IncludesSpec Proofs.IncludesProofs.
Require Import Model.IncludesRunner Proofs.IncludesRunnerProofs.

(* no canonical path is read and parsed twice: every path handed to parse_file
   is canonical, and two positions of the read sequence holding paths with the
   same canonical form are the same position *)
Theorem C19_each_canonical_file_once :
  forall (path : Type) (EqDecision0 : EqDecision path)
         (canon : path -> option path) (is_dir is_file : path -> bool)
         (read_dir : path -> option (list path)) (join : path -> path -> path)
         (parent : path -> path) (file_name : path -> option path)
         (ext_circom starts_dot has_sep : path -> bool) (content : path -> file_content path),
    (forall p c, canon p = Some c -> canon c = Some c) ->
    forall (dfuel fuel : nat) (paths libs : list path) (s : parse_state),
      parse_files canon is_dir is_file read_dir join parent file_name ext_circom starts_dot has_sep content
                  false dfuel fuel paths libs = Ok s ->
      Forall (canonical canon) (ps_read s) /\
      (forall (i j : nat) (p q : path),
          ps_read s !! i = Some p -> ps_read s !! j = Some q -> canon p = canon q -> i = j).
Proof. exact @each_canonical_file_once. Qed.
Print Assumptions C19_each_canonical_file_once.

(* cyclic and diamond-shaped include graphs terminate: with more loop fuel than
   there are canonical paths (and more directory fuel than the nesting depth
   of the named directories) parse_files never runs out of fuel *)
Theorem C19_include_terminates :
  forall (path : Type) (EqDecision0 : EqDecision path)
         (canon : path -> option path) (is_dir is_file : path -> bool)
         (read_dir : path -> option (list path)) (join : path -> path -> path)
         (parent : path -> path) (file_name : path -> option path)
         (ext_circom starts_dot has_sep : path -> bool) (content : path -> file_content path),
    (forall p c, canon p = Some c -> canon c = Some c) ->
    forall (universe : list path) (k fuel : nat) (paths libs : list path),
      (forall p c, canon p = Some c -> c ∈ universe) ->
      Forall (depth_le is_dir read_dir join k) paths ->
      length universe < fuel ->
      parse_files canon is_dir is_file read_dir join parent file_name ext_circom starts_dot has_sep content
                  false (S k) fuel paths libs <> OutOfFuel.
Proof. exact @include_terminates. Qed.
Print Assumptions C19_include_terminates.

(* the measure: the number of files read never exceeds the number of canonical paths *)
Theorem C19_reads_bounded :
  forall (path : Type) (EqDecision0 : EqDecision path)
         (canon : path -> option path) (is_dir is_file : path -> bool)
         (read_dir : path -> option (list path)) (join : path -> path -> path)
         (parent : path -> path) (file_name : path -> option path)
         (ext_circom starts_dot has_sep : path -> bool) (content : path -> file_content path),
    (forall p c, canon p = Some c -> canon c = Some c) ->
    forall (universe : list path) (dfuel fuel : nat) (paths libs : list path) (s : parse_state),
      (forall p c, canon p = Some c -> c ∈ universe) ->
      parse_files canon is_dir is_file read_dir join parent file_name ext_circom starts_dot has_sep content
                  false dfuel fuel paths libs = Ok s ->
      length (ps_read s) <= length universe.
Proof. exact @reads_bounded. Qed.
Print Assumptions C19_reads_bounded.

(* resolution order, one include statement (only a file can be included, a
   directory of the name does not count): relative to the directory of the
   including file first, then the first -L library in the order given that
   offers the name (a directory library for names not starting with '.', a
   file library for single-component names equal to its file name); a resolved
   include is pushed (or skipped when already visited), an unresolved one
   yields the include error carrying the statement's file id and range *)
Theorem C19_resolution_order :
  forall (path : Type) (EqDecision0 : EqDecision path)
         (canon : path -> option path) (is_file : path -> bool) (join : path -> path -> path)
         (parent : path -> path) (file_name : path -> option path)
         (starts_dot has_sep : path -> bool)
         (st : file_stack) (inc : include) (cur : path) (st' : file_stack) (rep : option report),
    current_location st = Some (parent cur) ->
    add_include canon is_file join file_name starts_dot has_sep false st inc = Ok (st', rep) ->
    exists r : option path,
      resolves canon is_file join parent file_name starts_dot has_sep cur (libraries st) (inc_path inc) r /\
      match r with
      | Some c => rep = None /\ (st' = push c st \/ (c ∈ black_paths st /\ st' = st))
      | None => rep = Some (IncludeError (inc_path inc) (inc_file inc) (inc_start inc) (inc_end inc)) /\ st' = st
      end.
Proof. exact @add_include_spec. Qed.
Print Assumptions C19_resolution_order.

(* resolution order, whole run: the files read are exactly the files reachable
   from the named ones through includes resolved by that rule *)
Theorem C19_reads_exactly_reachable :
  forall (path : Type) (EqDecision0 : EqDecision path)
         (canon : path -> option path) (is_dir is_file : path -> bool)
         (read_dir : path -> option (list path)) (join : path -> path -> path)
         (parent : path -> path) (file_name : path -> option path)
         (ext_circom starts_dot has_sep : path -> bool) (content : path -> file_content path),
    (forall p c, canon p = Some c -> canon c = Some c) ->
    forall (dfuel fuel : nat) (paths libs : list path) (s : parse_state),
      dirs_revisited canon is_dir read_dir join ext_circom dfuel paths libs = false ->
      parse_files canon is_dir is_file read_dir join parent file_name ext_circom starts_dot has_sep content
                  false dfuel fuel paths libs = Ok s ->
      forall c : path,
        c ∈ ps_read s <->
        reachable canon is_file join parent file_name starts_dot has_sep content
                  (named canon is_dir read_dir join ext_circom paths)
                  (add_libraries canon is_dir ext_circom libs []).1 c.
Proof. exact @reads_exactly_reachable. Qed.
Print Assumptions C19_reads_exactly_reachable.

(* an include error carries the file id of a file that was read and the range
   of one of its include statements, and that statement is unresolvable;
   conversely every unresolvable include statement of a parsed file has its error *)
Theorem C19_unresolved_include_error_located :
  forall (path : Type) (EqDecision0 : EqDecision path)
         (canon : path -> option path) (is_dir is_file : path -> bool)
         (read_dir : path -> option (list path)) (join : path -> path -> path)
         (parent : path -> path) (file_name : path -> option path)
         (ext_circom starts_dot has_sep : path -> bool) (content : path -> file_content path),
    (forall p c, canon p = Some c -> canon c = Some c) ->
    forall (dfuel fuel : nat) (paths libs : list path) (s : parse_state),
      parse_files canon is_dir is_file read_dir join parent file_name ext_circom starts_dot has_sep content
                  false dfuel fuel paths libs = Ok s ->
      (forall (p : path) (fid : option nat) (a b : nat),
          IncludeError p fid a b ∈ ps_reports s ->
          exists (i : nat) (f : path) (u : bool) (incs : list (path * nat * nat)),
            fid = Some i /\ ps_files s !! i = Some (f, u) /\ f ∈ ps_read s /\
            content f = Parsed incs /\ (p, a, b) ∈ incs /\
            resolves canon is_file join parent file_name starts_dot has_sep f
                     (add_libraries canon is_dir ext_circom libs []).1 p None) /\
      (forall (f : path) (incs : list (path * nat * nat)) (p : path) (a b : nat),
          f ∈ ps_read s -> content f = Parsed incs -> (p, a, b) ∈ incs ->
          resolves canon is_file join parent file_name starts_dot has_sep f
                   (add_libraries canon is_dir ext_circom libs []).1 p None ->
          exists (i : nat) (u : bool),
            ps_files s !! i = Some (f, u) /\ IncludeError p (Some i) a b ∈ ps_reports s).
Proof. exact @unresolved_include_error_located. Qed.
Print Assumptions C19_unresolved_include_error_located.

(* the user-input set built by FileStack::new is the set of canonical files the
   command line names (a named path that is not a directory is an input file
   whatever its suffix, a named directory stands for the .circom files below it) *)
Theorem C19_user_set_is_argv_files :
  forall (path : Type) (EqDecision0 : EqDecision path)
         (canon : path -> option path) (is_dir : path -> bool)
         (read_dir : path -> option (list path)) (join : path -> path -> path)
         (ext_circom : path -> bool),
    (forall p c, canon p = Some c -> canon c = Some c) ->
    forall (dfuel : nat) (paths libs : list path) (st : file_stack) (reps : list report),
      dirs_revisited canon is_dir read_dir join ext_circom dfuel paths libs = false ->
      new canon is_dir read_dir join ext_circom dfuel paths libs [] = Ok (st, reps) ->
      forall c : path,
        is_user_input st c = true <-> named canon is_dir read_dir join ext_circom paths c.
Proof. exact @user_set_is_argv_files. Qed.
Print Assumptions C19_user_set_is_argv_files.

(* at this model's level "included-only files produce no findings" reads: the
   flag stored with every file of the library is true exactly for named files,
   so a file that was only included is never a user input (the report filter
   that uses the flag is C03's) *)
Theorem C19_included_only_files_are_not_user_inputs :
  forall (path : Type) (EqDecision0 : EqDecision path)
         (canon : path -> option path) (is_dir is_file : path -> bool)
         (read_dir : path -> option (list path)) (join : path -> path -> path)
         (parent : path -> path) (file_name : path -> option path)
         (ext_circom starts_dot has_sep : path -> bool) (content : path -> file_content path),
    (forall p c, canon p = Some c -> canon c = Some c) ->
    forall (dfuel fuel : nat) (paths libs : list path) (s : parse_state),
      dirs_revisited canon is_dir read_dir join ext_circom dfuel paths libs = false ->
      parse_files canon is_dir is_file read_dir join parent file_name ext_circom starts_dot has_sep content
                  false dfuel fuel paths libs = Ok s ->
      (forall c : path,
          is_user_input (ps_stack s) c = true <-> named canon is_dir read_dir join ext_circom paths c) /\
      (forall (i : nat) (f : path) (u : bool),
          ps_files s !! i = Some (f, u) ->
          f ∈ ps_read s /\ (u = true <-> named canon is_dir read_dir join ext_circom paths f)).
Proof. exact @included_only_files_are_not_user_inputs. Qed.
Print Assumptions C19_included_only_files_are_not_user_inputs.

(* D23 (repaired by the fix: commit recorded in known_findings.jsonl): on a
   well-formed two-file file system the code as it was read one canonical file
   under two spellings *)
Theorem C19_D23_refuted :
  canon_idempotent_b d23_fs = true /\
  parsed_twice d23_fs (run_project true d23_fs d23_argv d23_libs).
Proof. exact (conj d23_witness_wellformed d23_old_code_parses_twice). Qed.
Print Assumptions C19_D23_refuted.

(* the premises are satisfiable, and the concrete instance that is run against
   the implementation is an instance of the theorems: on the witness file
   system canon is idempotent, and the repaired code reads each file once *)
Example C19_premises_satisfiable :
  (forall p c, d_canon d23_fs p = Some c -> d_canon d23_fs c = Some c) /\
  exists s, run_project false d23_fs d23_argv d23_libs = Ok s /\
            ps_read s = [str "/r/p/main.circom"; str "/r/lib/x.circom"].
Proof. exact (conj d23_canon_idem d23_repaired_code_reads). Qed.

(* the extracted instance (file system given as tables): whenever the table's
   canon is idempotent — [canon_idempotent_b], evaluated on every generated
   project; a project whose table fails it is reported by the check — the run
   reads no canonical path twice and its fuel suffices *)
Theorem C19_run_project_each_file_once :
  forall (d : fs_data) (argv libs : list spath) (s : parse_state),
    canon_idempotent_b d = true ->
    run_project false d argv libs = Ok s ->
    forall (i j : nat) (p q : spath),
      ps_read s !! i = Some p -> ps_read s !! j = Some q -> d_canon d p = d_canon d q -> i = j.
Proof. exact run_project_each_file_once. Qed.
Print Assumptions C19_run_project_each_file_once.

(* both premises are booleans computed on the table; the driver prints them for
   every project and lib/props/C19.py reports a project on which one of them
   is false (third audit: the nesting-depth premise used to be the inductive
   [depth_le], which nothing evaluated) *)
Theorem C19_run_project_fuel_ok :
  forall (d : fs_data) (argv libs : list spath),
    canon_idempotent_b d = true ->
    depth_ok_b d argv = true ->
    run_project false d argv libs <> OutOfFuel.
Proof. exact run_project_fuel_ok_decided. Qed.
Print Assumptions C19_run_project_fuel_ok.

(* every include statement of a parsed file resolves to a file that is read,
   or is reported at the statement — without exception since the repair
   recorded as C19-include-unreadable (an include naming a directory used to
   end in an OS error without location) *)
Theorem C19_every_include_served :
  forall (path : Type) (EqDecision0 : EqDecision path)
         (canon : path -> option path) (is_dir is_file : path -> bool)
         (read_dir : path -> option (list path)) (join : path -> path -> path)
         (parent : path -> path) (file_name : path -> option path)
         (ext_circom starts_dot has_sep : path -> bool) (content : path -> file_content path),
    (forall p c, canon p = Some c -> canon c = Some c) ->
    forall (dfuel fuel : nat) (paths libs : list path) (s : parse_state)
           (f : path) (incs : list (path * nat * nat)) (p : path) (a b : nat),
      parse_files canon is_dir is_file read_dir join parent file_name ext_circom starts_dot has_sep content
                  false dfuel fuel paths libs = Ok s ->
      f ∈ ps_read s -> content f = Parsed incs -> (p, a, b) ∈ incs ->
      (exists c, resolves canon is_file join parent file_name starts_dot has_sep f
                          (add_libraries canon is_dir ext_circom libs []).1 p (Some c) /\ c ∈ ps_read s) \/
      (resolves canon is_file join parent file_name starts_dot has_sep f
                (add_libraries canon is_dir ext_circom libs []).1 p None /\
       exists (i : nat) (u : bool),
         ps_files s !! i = Some (f, u) /\ IncludeError p (Some i) a b ∈ ps_reports s).
Proof. exact @every_include_served. Qed.
Print Assumptions C19_every_include_served.

(* the former witness: `include "sub";` with sub a directory next to the
   including file now yields the include error at bytes 21..35 of file 0, and
   the directory is not read *)
Theorem C19_dir_include_is_located :
  canon_idempotent_b kf_dir_fs = true /\
  exists s, run_project false kf_dir_fs [str "q/main.circom"] [] = Ok s /\
            ps_read s = [str "/r/q/main.circom"] /\
            ps_reports s = [IncludeError (str "sub") (Some 0) 21 35].
Proof. exact dir_include_is_located. Qed.
Print Assumptions C19_dir_include_is_located.

(* ------------------------------------------------------------------------ *)
(* named files are user inputs: every argument order, every include graph    *)
(* ------------------------------------------------------------------------ *)

(* a path p given on the command line that is not a directory, with canonical
   form c: c is a user input at the end of the run, c is read, every
   FileLibrary entry for c carries the flag true, and unless c cannot be opened
   it has such an entry whose file id is in FileLibrary::user_inputs.
   [paths] is any list (so: whichever position p has in it, whichever other
   arguments precede it), [content] is any function (so: whichever files
   include c, named or not, before or after c's own stack entry is popped). *)
Theorem C19_named_file_is_user_input :
  forall (path : Type) (EqDecision0 : EqDecision path)
         (canon : path -> option path) (is_dir is_file : path -> bool)
         (read_dir : path -> option (list path)) (join : path -> path -> path)
         (parent : path -> path) (file_name : path -> option path)
         (ext_circom starts_dot has_sep : path -> bool) (content : path -> file_content path),
    (forall p c, canon p = Some c -> canon c = Some c) ->
    forall (dfuel fuel : nat) (paths libs : list path) (s : parse_state) (p c : path),
      dirs_revisited canon is_dir read_dir join ext_circom dfuel paths libs = false ->
      parse_files canon is_dir is_file read_dir join parent file_name ext_circom starts_dot has_sep content
                  false dfuel fuel paths libs = Ok s ->
      p ∈ paths -> is_dir p = false -> canon p = Some c ->
      is_user_input (ps_stack s) c = true /\
      c ∈ ps_read s /\
      (forall (i : nat) (u : bool), ps_files s !! i = Some (c, u) -> u = true) /\
      (content c <> Unreadable ->
       exists i : nat, ps_files s !! i = Some (c, true) /\
                       In (Z.of_nat i) (file_library_user_inputs (ps_files s))).
Proof. exact @named_file_is_user_input. Qed.
Print Assumptions C19_named_file_is_user_input.

(* two runs on the same arguments in different orders (each with whatever fuel
   let it finish): the same files are read, the FileLibrary holds the same
   (file, is_user_input) entries, the stack answers is_user_input alike; only
   the numbering of the files depends on the order *)
Theorem C19_user_inputs_independent_of_argument_order :
  forall (path : Type) (EqDecision0 : EqDecision path)
         (canon : path -> option path) (is_dir is_file : path -> bool)
         (read_dir : path -> option (list path)) (join : path -> path -> path)
         (parent : path -> path) (file_name : path -> option path)
         (ext_circom starts_dot has_sep : path -> bool) (content : path -> file_content path),
    (forall p c, canon p = Some c -> canon c = Some c) ->
    forall (dfuel fuel dfuel' fuel' : nat) (paths paths' libs : list path) (s s' : parse_state),
      Permutation paths paths' ->
      dirs_revisited canon is_dir read_dir join ext_circom dfuel paths libs = false ->
      dirs_revisited canon is_dir read_dir join ext_circom dfuel' paths' libs = false ->
      parse_files canon is_dir is_file read_dir join parent file_name ext_circom starts_dot has_sep content
                  false dfuel fuel paths libs = Ok s ->
      parse_files canon is_dir is_file read_dir join parent file_name ext_circom starts_dot has_sep content
                  false dfuel' fuel' paths' libs = Ok s' ->
      (forall c : path, c ∈ ps_read s <-> c ∈ ps_read s') /\
      (forall (f : path) (u : bool), (f, u) ∈ ps_files s <-> (f, u) ∈ ps_files s') /\
      (forall c : path, is_user_input (ps_stack s) c = is_user_input (ps_stack s') c).
Proof. exact @user_inputs_order_independent. Qed.
Print Assumptions C19_user_inputs_independent_of_argument_order.

(* the FileLibrary, exactly: (f, u) is an entry iff f was read, could be
   opened, and u says whether f is named *)
Theorem C19_file_library_characterised :
  forall (path : Type) (EqDecision0 : EqDecision path)
         (canon : path -> option path) (is_dir is_file : path -> bool)
         (read_dir : path -> option (list path)) (join : path -> path -> path)
         (parent : path -> path) (file_name : path -> option path)
         (ext_circom starts_dot has_sep : path -> bool) (content : path -> file_content path),
    (forall p c, canon p = Some c -> canon c = Some c) ->
    forall (dfuel fuel : nat) (paths libs : list path) (s : parse_state),
      dirs_revisited canon is_dir read_dir join ext_circom dfuel paths libs = false ->
      parse_files canon is_dir is_file read_dir join parent file_name ext_circom starts_dot has_sep content
                  false dfuel fuel paths libs = Ok s ->
      forall (f : path) (u : bool),
        (f, u) ∈ ps_files s <->
        f ∈ ps_read s /\ content f <> Unreadable /\
        (u = true <-> named canon is_dir read_dir join ext_circom paths f).
Proof. exact @files_characterised. Qed.
Print Assumptions C19_file_library_characterised.

(* ------------------------------------------------------------------------ *)
(* composition with main (Model.Runner): included-only files produce no       *)
(* findings of their own                                                      *)
(* ------------------------------------------------------------------------ *)

(* a report with at least one primary label, all of whose primary labels lie in
   files of the FileLibrary for which is_user_input answers false: rejected by
   filter_by_file applied to FileLibrary::user_inputs, hence by the filter
   chain under every option set, hence neither on stdout nor in the SARIF file
   of any run of main on any project with that user-input set (all
   definitions, all analysis orders; no well-formedness premise) *)
Theorem C19_included_only_report_never_displayed :
  forall (path : Type) (EqDecision0 : EqDecision path)
         (canon : path -> option path) (is_dir is_file : path -> bool)
         (read_dir : path -> option (list path)) (join : path -> path -> path)
         (parent : path -> path) (file_name : path -> option path)
         (ext_circom starts_dot has_sep : path -> bool) (content : path -> file_content path),
    (forall p c, canon p = Some c -> canon c = Some c) ->
    forall (dfuel fuel : nat) (paths libs : list path) (s : parse_state) (r : Runner.report),
      dirs_revisited canon is_dir read_dir join ext_circom dfuel paths libs = false ->
      parse_files canon is_dir is_file read_dir join parent file_name ext_circom starts_dot has_sep content
                  false dfuel fuel paths libs = Ok s ->
      Runner.r_pfiles r <> [] ->
      (forall z : Z, In z (Runner.r_pfiles r) ->
                     exists (i : nat) (f : path) (u : bool),
                       z = Z.of_nat i /\ ps_files s !! i = Some (f, u) /\
                       is_user_input (ps_stack s) f = false) ->
      Runner.filter_by_file r (file_library_user_inputs (ps_files s)) = false /\
      (forall o : Runner.opts, Runner.passes_filters o (file_library_user_inputs (ps_files s)) r = false) /\
      (forall (p : Runner.project) (o : Runner.opts) (order : list Runner.key),
          Runner.p_user p = file_library_user_inputs (ps_files s) ->
          ~ In r (Runner.res_shown (Runner.run_keys p o order)) /\
          (forall (results : list Runner.report) (rules : list Runner.rule),
              Runner.res_sarif (Runner.run_keys p o order) = Some (results, rules) -> ~ In r results)).
Proof. exact @included_only_report_never_displayed. Qed.
Print Assumptions C19_included_only_report_never_displayed.

(* conversely the file filter lets through every report with a primary label
   in a named file (so a named file that another named file includes keeps its
   findings) *)
Theorem C19_named_file_report_passes_file_filter :
  forall (path : Type) (EqDecision0 : EqDecision path)
         (canon : path -> option path) (is_dir is_file : path -> bool)
         (read_dir : path -> option (list path)) (join : path -> path -> path)
         (parent : path -> path) (file_name : path -> option path)
         (ext_circom starts_dot has_sep : path -> bool) (content : path -> file_content path),
    (forall p c, canon p = Some c -> canon c = Some c) ->
    forall (dfuel fuel : nat) (paths libs : list path) (s : parse_state) (r : Runner.report)
           (i : nat) (f : path) (u : bool),
      dirs_revisited canon is_dir read_dir join ext_circom dfuel paths libs = false ->
      parse_files canon is_dir is_file read_dir join parent file_name ext_circom starts_dot has_sep content
                  false dfuel fuel paths libs = Ok s ->
      In (Z.of_nat i) (Runner.r_pfiles r) -> ps_files s !! i = Some (f, u) ->
      named canon is_dir read_dir join ext_circom paths f ->
      Runner.filter_by_file r (file_library_user_inputs (ps_files s)) = true.
Proof. exact @named_file_report_passes_file_filter. Qed.
Print Assumptions C19_named_file_report_passes_file_filter.

(* everything main displays was produced by the parser or for a definition
   living in a named file, and is located nowhere (no primary label) or, at
   least with one primary label, in a named file *)
Theorem C19_displayed_findings_come_from_named_files :
  forall (path : Type) (EqDecision0 : EqDecision path)
         (canon : path -> option path) (is_dir is_file : path -> bool)
         (read_dir : path -> option (list path)) (join : path -> path -> path)
         (parent : path -> path) (file_name : path -> option path)
         (ext_circom starts_dot has_sep : path -> bool) (content : path -> file_content path),
    (forall p c, canon p = Some c -> canon c = Some c) ->
    forall (dfuel fuel : nat) (paths libs : list path) (s : parse_state)
           (p : Runner.project) (o : Runner.opts) (order : list Runner.key) (r : Runner.report),
      dirs_revisited canon is_dir read_dir join ext_circom dfuel paths libs = false ->
      parse_files canon is_dir is_file read_dir join parent file_name ext_circom starts_dot has_sep content
                  false dfuel fuel paths libs = Ok s ->
      Runner.p_user p = file_library_user_inputs (ps_files s) ->
      RunnerSpec.wf_project p -> RunnerSpec.analysis_order p order ->
      In r (Runner.res_shown (Runner.run_keys p o order)) ->
      (In r (Runner.p_parse p) \/
       exists (d : Runner.def) (i : nat) (f : path),
         In d (Runner.p_defs p) /\ In r (RunnerSpec.produced_def d) /\
         Runner.d_file d = Z.of_nat i /\ ps_files s !! i = Some (f, true) /\
         named canon is_dir read_dir join ext_circom paths f) /\
      (Runner.r_pfiles r = [] \/
       exists (i : nat) (f : path),
         In (Z.of_nat i) (Runner.r_pfiles r) /\ ps_files s !! i = Some (f, true) /\
         named canon is_dir read_dir join ext_circom paths f).
Proof. exact @displayed_findings_come_from_named_files. Qed.
Print Assumptions C19_displayed_findings_come_from_named_files.

(* ------------------------------------------------------------------------ *)
(* fourth audit: the visited-directory set of fix 517e7a0                     *)
(* ------------------------------------------------------------------------ *)

(* when no directory was met twice the repaired FileStack::new computes what
   the code before the fix computed ([new_all]: every spelling expanded) *)
Theorem C19_fix_changes_nothing_without_revisit :
  forall (path : Type) (EqDecision0 : EqDecision path)
         (canon : path -> option path) (is_dir : path -> bool)
         (read_dir : path -> option (list path)) (join : path -> path -> path)
         (ext_circom : path -> bool)
         (fuel : nat) (paths libs : list path) (st : file_stack) (reps : list report),
    new canon is_dir read_dir join ext_circom fuel paths libs [] = Ok (st, reps) ->
    dirs_revisited canon is_dir read_dir join ext_circom fuel paths libs = false ->
    new_all canon is_dir read_dir join ext_circom fuel paths libs [] = Ok (st, reps).
Proof. exact @new_is_new_all. Qed.
Print Assumptions C19_fix_changes_nothing_without_revisit.

(* without the premise: a user input is a file the command line names, and an
   argument that is not a directory is a user input *)
Theorem C19_user_set_sound :
  forall (path : Type) (EqDecision0 : EqDecision path)
         (canon : path -> option path) (is_dir : path -> bool)
         (read_dir : path -> option (list path)) (join : path -> path -> path)
         (ext_circom : path -> bool),
    (forall p c, canon p = Some c -> canon c = Some c) ->
    forall (dfuel : nat) (paths libs : list path) (st : file_stack) (reps : list report),
      new canon is_dir read_dir join ext_circom dfuel paths libs [] = Ok (st, reps) ->
      (forall c : path, is_user_input st c = true -> named canon is_dir read_dir join ext_circom paths c) /\
      (forall p c : path, p ∈ paths -> is_dir p = false -> canon p = Some c -> is_user_input st c = true).
Proof. exact @user_set_sound. Qed.
Print Assumptions C19_user_set_sound.

(* without the premise: every file read is reachable from a named file through
   includes resolved by the rule, and the files read are closed under resolved includes *)
Theorem C19_reads_only_reachable :
  forall (path : Type) (EqDecision0 : EqDecision path)
         (canon : path -> option path) (is_dir is_file : path -> bool)
         (read_dir : path -> option (list path)) (join : path -> path -> path)
         (parent : path -> path) (file_name : path -> option path)
         (ext_circom starts_dot has_sep : path -> bool) (content : path -> file_content path),
    (forall p c, canon p = Some c -> canon c = Some c) ->
    forall (dfuel fuel : nat) (paths libs : list path) (s : parse_state),
      parse_files canon is_dir is_file read_dir join parent file_name ext_circom starts_dot has_sep content
                  false dfuel fuel paths libs = Ok s ->
      (forall c : path,
          c ∈ ps_read s ->
          reachable canon is_file join parent file_name starts_dot has_sep content
                    (named canon is_dir read_dir join ext_circom paths)
                    (add_libraries canon is_dir ext_circom libs []).1 c) /\
      (forall (f : path) (incs : list (path * nat * nat)) (x : path * nat * nat) (c : path),
          f ∈ ps_read s -> content f = Parsed incs -> x ∈ incs ->
          resolves canon is_file join parent file_name starts_dot has_sep f
                   (add_libraries canon is_dir ext_circom libs []).1 x.1.1 (Some c) ->
          c ∈ ps_read s).
Proof.
  intros path E canon is_dir is_file read_dir join parent file_name ext_circom starts_dot has_sep content Hc
         dfuel fuel paths libs s Hp.
  split.
  - exact (reads_only_reachable canon is_dir is_file read_dir join parent file_name ext_circom starts_dot has_sep content
             Hc dfuel fuel paths libs s Hp).
  - intros f incs x c. exact (reads_closed canon is_dir is_file read_dir join parent file_name ext_circom starts_dot has_sep
             content Hc dfuel fuel paths libs s f incs x c Hp).
Qed.
Print Assumptions C19_reads_only_reachable.

(* the hypotheses are satisfiable and the conclusions not vacuous: main.circom
   includes lib.circom and inc.circom, lib.circom and main.circom are named in
   both orders.  Named first, lib.circom is first reached through main's
   include entry and is a user input all the same; a finding located only in
   inc.circom (file 1, is_user_input = false) is filtered, one that also has a
   primary label in lib.circom (file 2) is not *)
Example C19_argument_order_witness :
  canon_idempotent_b ord_fs = true /\
  exists s s' : parse_state,
    run_project false ord_fs [str "lib.circom"; str "main.circom"] [] = Ok s /\
    run_project false ord_fs [str "main.circom"; str "lib.circom"] [] = Ok s' /\
    ps_files s = [(str "/r/main.circom", true); (str "/r/inc.circom", false); (str "/r/lib.circom", true)] /\
    ps_files s' = [(str "/r/lib.circom", true); (str "/r/main.circom", true); (str "/r/inc.circom", false)] /\
    file_library_user_inputs (ps_files s) = [0%Z; 2%Z] /\
    file_library_user_inputs (ps_files s') = [0%Z; 1%Z] /\
    is_user_input (ps_stack s) (str "/r/inc.circom") = false /\
    Runner.filter_by_file ord_report_inc (file_library_user_inputs (ps_files s)) = false /\
    Runner.filter_by_file ord_report_both (file_library_user_inputs (ps_files s)) = true.
Proof. exact ord_witness. Qed.
