(* C03 — report conservation and the output contract.  Property theorems only:
   each is closed by [exact] of a lemma of Proofs.RunnerProofs and followed by
   Print Assumptions.  Model.Runner mirrors analysis_runner.rs / writers.rs /
   sarif_conversion.rs / cli main.rs after the fix: commits 62ddfef, 9edc4b5,
   77caaad; Gen.Category is regenerated from the current MessageCategory. *)
From Coq Require Import ZArith List Bool Arith Permutation String.
Require Import Model.Base Gen.Category Model.Runner Spec.RunnerSpec Proofs.RunnerProofs Proofs.RunnerC03.
Import ListNotations.

(* every finding produced for a definition of a user file (and every parser
   finding) is displayed exactly once iff it is to be kept — as multisets, for
   all definition sets, all analysis orders (HashMap orders), all lookups the
   passes make, all option sets *)
Theorem C03_conservation : forall p o order,
  wf_project p -> analysis_order p order ->
  Permutation (res_shown (run_keys p o order)) (filter (keep_b o (p_user p)) (produced p)).
Proof. exact conservation. Qed.
Print Assumptions C03_conservation.

(* the executable keep_b is the `keep` of the property text *)
Theorem C03_keep_b_is_keep : forall o user r, keep_b o user r = true <-> keep o user r.
Proof. exact keep_b_keep. Qed.
Print Assumptions C03_keep_b_is_keep.

(* and the three filters of main.rs compute it *)
Theorem C03_filters_are_keep : forall o user r, passes_filters o user r = true <-> keep o user r.
Proof. exact passes_filters_keep. Qed.
Print Assumptions C03_filters_are_keep.

Theorem C03_displayed_iff_kept : forall p o order r,
  wf_project p -> analysis_order p order ->
  (In r (res_shown (run_keys p o order)) <-> In r (produced p) /\ keep o (p_user p) r).
Proof. exact displayed_iff_kept. Qed.
Print Assumptions C03_displayed_iff_kept.

Theorem C03_summary_counts_displayed : forall p o order,
  wf_project p -> analysis_order p order ->
  res_summary (run_keys p o order) = length (res_shown (run_keys p o order)) /\
  exists pre, res_log (run_keys p o order) = pre ++ [MSummary (length (res_shown (run_keys p o order)))].
Proof. exact summary_counts_displayed. Qed.
Print Assumptions C03_summary_counts_displayed.

(* the SARIF results are exactly the displayed list (same reports, same
   order), with one rule descriptor per (name, id) *)
Theorem C03_sarif_equals_displayed : forall p o order,
  wf_project p -> analysis_order p order ->
  match res_sarif (run_keys p o order) with
  | None => o_sarif o = false
  | Some (results, rules) =>
      o_sarif o = true /\
      results = res_shown (run_keys p o order) /\
      NoDup rules /\
      (forall x, In x rules <-> exists r, In r results /\ x = (r_name r, r_id r)) /\
      (In MSarifWritten (res_log (run_keys p o order)) <-> results <> [])
  end.
Proof. exact sarif_equals_displayed. Qed.
Print Assumptions C03_sarif_equals_displayed.

(* filter law over the whole lattice: whatever the level and allow-set, the
   displayed list is the list displayed under (Info, no allow), filtered *)
Theorem C03_filter_law : forall p o order,
  wf_project p -> analysis_order p order ->
  res_shown (run_keys p o order) =
  filter (keep_b o (p_user p)) (res_shown (run_keys p (bottom o) order)) /\
  Permutation (res_shown (run_keys p (bottom o) order))
    (filter (fun r => negb (match r_pfiles r with [] => false | _ => true end &&
                            forallb (fun f => negb (existsb (Z.eqb f) (p_user p))) (r_pfiles r))) (produced p)).
Proof. exact filter_law. Qed.
Print Assumptions C03_filter_law.

Theorem C03_filter_monotone : forall p o1 o2 order r,
  wf_project p -> analysis_order p order ->
  (rank (o_level o1) <= rank (o_level o2))%nat -> incl (o_allow o1) (o_allow o2) ->
  In r (res_shown (run_keys p o2 order)) -> In r (res_shown (run_keys p o1 order)).
Proof. exact filter_monotone. Qed.
Print Assumptions C03_filter_monotone.

(* the regenerated MessageCategory: Info < Warning < Error is a total order,
   all comparison operators agree with it, to_level and from_str are as
   documented, the default level is WARNING *)
Theorem C03_category_total_order :
  (forall a b, Category.cmp a b = Nat.compare (rank a) (rank b)) /\
  (forall a b, Category.ge a b = (rank b <=? rank a)%nat) /\
  (forall a b, Category.gt a b = (rank b <? rank a)%nat) /\
  (forall a b, Category.le a b = (rank a <=? rank b)%nat) /\
  (forall a b, Category.lt a b = (rank a <? rank b)%nat) /\
  (forall a b, Category.eqb a b = Nat.eqb (rank a) (rank b)) /\
  (Category.to_level Info = SNote /\ Category.to_level Warning = SWarning /\ Category.to_level Error = SError) /\
  forallb (fun e => option_level_eqb (snd e) (spec_from_str (fst e))) Category.from_str_table = true /\
  spec_from_str Category.default_level = Some Warning.
Proof. exact category_total_order. Qed.
Print Assumptions C03_category_total_order.

Theorem C03_from_str_table_covers : forall s,
  In s ["info"; "INFO"; "Info"; "warning"; "WARNING"; "Warning"; "error"; "ERROR"; "Error"; "note"; "warn"; ""]%string ->
  In s (map fst Category.from_str_table).
Proof. exact from_str_table_covers. Qed.
Print Assumptions C03_from_str_table_covers.

(* (third audit) C03_verbose_invariant was removed from the obligations: Model.Runner never reads [o_verbose], so the
   statement was [reflexivity] (the lemma stays in Proofs.RunnerProofs).  That --verbose changes nothing but the codes shown
   in the headers is OBSERVED: every project is run with and without it and compared with the same model output.
   C03_exit_zero_iff_nothing_displayed was removed too: it is the second and third conjunct of C03_exit_status_all_runs
   below, which needs no hypothesis. *)

(* ---- added after the outside review (design.d/AUDIT.md, section C03) ---- *)

(* the exit-status clause for ALL runs of the mirror: no hypothesis on the
   project (duplicate keys allowed), the options or the analysis order (any
   list of keys), hence for every number of displayed diagnostics (255, 256,
   257, 512, ...): the summary number is that count, the exit status is 0
   exactly when nothing was displayed, it is 0 or 1, and 1 for every positive
   count.  (The real exit status is compared with the mirror's on every run,
   including runs with exactly 256 and 512 displayed diagnostics.) *)
Theorem C03_exit_status_all_runs : forall p o order,
  res_summary (run_keys p o order) = length (res_shown (run_keys p o order)) /\
  (res_exit (run_keys p o order) = 0%Z <-> res_shown (run_keys p o order) = []) /\
  (res_exit (run_keys p o order) = 0%Z \/ res_exit (run_keys p o order) = 1%Z) /\
  (forall n, length (res_shown (run_keys p o order)) = S n -> res_exit (run_keys p o order) = 1%Z).
Proof. exact exit_status_all_runs. Qed.
Print Assumptions C03_exit_status_all_runs.

(* "exactly once" as multiplicities: if [order] is a permutation of the user
   keys, every finding is displayed as often as the stages produced it when it
   is to be kept, and never otherwise *)
Theorem C03_each_finding_counted : forall p o order x,
  wf_project p -> analysis_order p order ->
  count_occ report_eq_dec (res_shown (run_keys p o order)) x =
  if keep_b o (p_user p) x then count_occ report_eq_dec (produced p) x else 0.
Proof. exact each_finding_counted. Qed.
Print Assumptions C03_each_finding_counted.

(* distinct produced findings (real reports differ in position or message)
   are displayed exactly once each, and nothing is displayed twice *)
Theorem C03_each_finding_exactly_once : forall p o order,
  wf_project p -> analysis_order p order -> NoDup (produced p) ->
  NoDup (res_shown (run_keys p o order)) /\
  forall x, In x (produced p) -> keep o (p_user p) x ->
            count_occ report_eq_dec (res_shown (run_keys p o order)) x = 1.
Proof. exact each_finding_exactly_once. Qed.
Print Assumptions C03_each_finding_exactly_once.

(* why [analysis_order] must be established independently of the binary: fed
   with an order that leaves a definition out, the mirror displays only the
   parser's reports and the findings of the definitions in that order, so a
   definition skipped by the binary is skipped by a mirror that reads the
   binary's log.  lib/props/C03.py therefore compares the logged order on every
   run with the definitions the generator wrote into the user files. *)
Theorem C03_only_analysed_definitions_displayed : forall p o order x,
  NoDup order -> (forall k, In k order -> exists d, find_def (p_defs p) k = Some d) ->
  In x (res_shown (run_keys p o order)) ->
  In x (p_parse p) \/
  exists d, In d (p_defs p) /\ In (d_key d) order /\ In x (produced_def d).
Proof. exact only_analysed_definitions_displayed. Qed.
Print Assumptions C03_only_analysed_definitions_displayed.

Theorem C03_skipped_definition_not_displayed : forall p o order d x,
  NoDup order -> (forall k, In k order -> exists d, find_def (p_defs p) k = Some d) ->
  In d (p_defs p) -> ~ In (d_key d) order ->
  In x (produced_def d) -> ~ In x (p_parse p) ->
  (forall d', In d' (p_defs p) -> d' <> d -> ~ In x (produced_def d')) ->
  ~ In x (res_shown (run_keys p o order)).
Proof. exact skipped_definition_not_displayed. Qed.
Print Assumptions C03_skipped_definition_not_displayed.

(* non-vacuity: a project with two templates where U looks T up, T's CFG
   generation reports a shadowing warning; both orders display it once
   (the witness of the repaired defect D11), a label-less error passes the file
   filter (D9), a finding located only in an included file does not *)
Definition ex_shadow : report := mkReport Warning 1 1 [0%Z] 100.
Definition ex_unused : report := mkReport Warning 18 18 [0%Z] 101.
Definition ex_missing : report := mkReport Error 1000 1000 [] 102.
Definition ex_included : report := mkReport Warning 5 5 [1%Z] 103.
Definition ex_T : def := mkDef KTemplate 1 0 [ex_shadow] None [] [].
Definition ex_U : def := mkDef KTemplate 2 0 [] None [ex_unused] [1%Z].
Definition ex_L : def := mkDef KTemplate 3 1 [] None [ex_included] [].
Definition ex_p : project := mkProject [ex_missing; ex_included] [ex_T; ex_U; ex_L] [0%Z].
Definition ex_o : opts := mkOpts Warning [] true true.

(* (fourth audit) The three statements about Model.ReportLabels added after the third audit
   (primary_file_ids = the file ids of the primary labels for every add_primary / add_secondary sequence; the file
   filter read on the labels) are no longer obligations: they are inductions over a three-line hand mirror that nothing
   extracts or compares (lemmas of Proofs.ReportLabelsProofs, kept).  What ties `primary_file_ids()` to the labels is the
   comparison made on every report of every run (lib/e2e.py Truth.pfile_problems), and the oracle reads the labels. *)

Example C03_witnesses :
  wf_project ex_p /\
  analysis_order ex_p [(KTemplate, 1%Z); (KTemplate, 2%Z)] /\
  analysis_order ex_p [(KTemplate, 2%Z); (KTemplate, 1%Z)] /\
  res_shown (run_keys ex_p ex_o [(KTemplate, 1%Z); (KTemplate, 2%Z)]) = [ex_missing; ex_shadow; ex_unused] /\
  res_shown (run_keys ex_p ex_o [(KTemplate, 2%Z); (KTemplate, 1%Z)]) = [ex_missing; ex_unused; ex_shadow] /\
  res_exit (run_keys ex_p ex_o [(KTemplate, 2%Z); (KTemplate, 1%Z)]) = 1%Z /\
  res_summary (run_keys ex_p ex_o [(KTemplate, 2%Z); (KTemplate, 1%Z)]) = 3.
Proof.
  split. { unfold wf_project. simpl. repeat constructor; simpl; intuition discriminate. }
  split. { vm_compute. apply Permutation_refl. }
  split. { vm_compute. apply perm_swap. }
  vm_compute. repeat split; reflexivity.
Qed.

(* non-vacuity of the added theorems: 300 label-less errors are displayed,
   exit status 1 (a count >= 256); the produced findings of ex_p are distinct;
   an order that leaves U out satisfies the hypotheses of
   C03_skipped_definition_not_displayed and loses U's kept finding *)
Definition ex_many : project := mkProject (repeat ex_missing 300) [] [0%Z].

Example C03_witnesses_added :
  length (res_shown (run_keys ex_many ex_o [])) = 300 /\
  res_summary (run_keys ex_many ex_o []) = 300 /\
  res_exit (run_keys ex_many ex_o []) = 1%Z /\
  NoDup (produced ex_p) /\
  count_occ report_eq_dec (res_shown (run_keys ex_p ex_o [(KTemplate, 2%Z); (KTemplate, 1%Z)])) ex_shadow = 1 /\
  count_occ report_eq_dec (res_shown (run_keys ex_p ex_o [(KTemplate, 2%Z); (KTemplate, 1%Z)])) ex_included = 0 /\
  (NoDup [(KTemplate, 1%Z)] /\
   (forall k, In k [(KTemplate, 1%Z)] -> exists d, find_def (p_defs ex_p) k = Some d) /\
   In ex_U (p_defs ex_p) /\ ~ In (d_key ex_U) [(KTemplate, 1%Z)] /\
   In ex_unused (produced_def ex_U) /\ keep ex_o (p_user ex_p) ex_unused /\
   res_shown (run_keys ex_p ex_o [(KTemplate, 1%Z)]) = [ex_missing; ex_shadow]).
Proof.
  split. { vm_compute. reflexivity. }
  split. { vm_compute. reflexivity. }
  split. { vm_compute. reflexivity. }
  split. { vm_compute. repeat constructor; simpl; intuition discriminate. }
  split. { vm_compute. reflexivity. }
  split. { vm_compute. reflexivity. }
  split. { repeat constructor. simpl. tauto. }
  split. { intros k [Hk|[]]. subst k. eexists. vm_compute. reflexivity. }
  split. { simpl. auto. }
  split. { simpl. intros [H|[]]. discriminate. }
  split. { simpl. auto. }
  split. { apply keep_b_keep. vm_compute. reflexivity. }
  vm_compute. reflexivity.
Qed.
