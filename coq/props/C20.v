(* C20 - cutting propagation short never makes a claim wrong.
   Soundness of the claims is a property of the annotated graph alone
   (Justify.vjust_cfg), not of how many passes produced it: the check runs the
   verified validator on the implementation's output at every pass budget
   0, 1, 2, ..., fixpoint, and compares Model.Propagate.values_passes k with
   the implementation at the same budgets. *)
From Coq Require Import ZArith List Bool Znumtheory.
Require Import Model.Base Model.Field Model.Ir Model.Propagate Model.Justify.
Require Import Spec.FieldSpec Spec.ValueSem Proofs.ValueProofs Proofs.CutProofs Proofs.CutInvariant Proofs.DegErase Proofs.PropagateTotal.
Import ListNotations.
Local Open Scope Z_scope.

(* whatever the cut point, a validated graph only carries true constants *)
Theorem C20_any_cut_validated_claims_true : forall p c s0 s e v k,
  prime p -> 2 < p -> Z.log2 p < 2 ^ 64 ->
  vjust_cfg p c = true ->
  init_ok (all_stmts (c_blocks c)) p s0 -> reachable (all_stmts (c_blocks c)) p s0 s ->
  occurs_in c e -> evalR p s e v -> expr_val e = Some k -> claim_ok k v.
Proof. exact validated_graph_claims_true. Qed.
Print Assumptions C20_any_cut_validated_claims_true.

(* the cut before the first pass: a graph without any value claim is validated *)
Theorem C20_clean_graph_validated : forall p c, clean_cfg c = true -> vjust_cfg p c = true.
Proof. exact clean_cfg_validated. Qed.
Print Assumptions C20_clean_graph_validated.

(* a zero budget runs no pass at all *)
Theorem C20_budget_zero_is_identity : forall p idom c,
  propagate 0 0 p idom c = Ok (set_blocks c (c_blocks c)).
Proof. exact budget_zero_identity. Qed.
Print Assumptions C20_budget_zero_is_identity.

(* once a pass reports no first write, a larger budget changes nothing: every
   cut point is a prefix of the run to the fixpoint *)
Theorem C20_values_fixpoint_stable : forall k p env bs bs' env',
  pv_blocks p env false bs = Ok (false, bs', env') ->
  values_passes (S k) p env bs = Ok (bs', env').
Proof. exact values_passes_fix. Qed.
Print Assumptions C20_values_fixpoint_stable.

Theorem C20_degrees_fixpoint_stable : forall k idom env bs bs' env',
  pd_blocks idom env false [] bs = (false, bs', env') ->
  degrees_passes (S k) idom env bs = (bs', env').
Proof. exact degrees_passes_fix. Qed.
Print Assumptions C20_degrees_fixpoint_stable.

(* THE UNIVERSAL STATEMENT: for every graph that carries no claim yet and in
   which a local has a single defining assignment (SSA, C14), and for EVERY
   number of passes k, whatever Model.Propagate has attached after k passes is
   accepted by the validator - hence true, by C20_any_cut_validated_claims_true.
   The proof shows that each single statement visit preserves "every claim is
   justified by the environment and every environment binding is the claim of
   the defining assignment", so it also covers every prefix of a pass. *)
Theorem C20_mirror_validated_at_every_budget : forall k p c bs env,
  clean_cfg c = true -> ldefs_unique (all_stmts (c_blocks c)) = true ->
  values_passes k p [] (c_blocks c) = Ok (bs, env) ->
  vjust_cfg p (set_blocks c bs) = true.
Proof. exact mirror_validated_at_every_budget. Qed.
Print Assumptions C20_mirror_validated_at_every_budget.

(* the same for the whole propagation: value passes under budget kv followed
   by degree passes under budget kd - degree propagation never touches a value
   claim (it commutes with erasing all degree knowledge, and the validator only
   reads the erased graph) *)
Theorem C20_propagate_validated_at_every_budget : forall kv kd p idom c c',
  clean_cfg c = true -> ldefs_unique (all_stmts (c_blocks c)) = true ->
  propagate kv kd p idom c = Ok c' -> vjust_cfg p c' = true.
Proof. exact propagate_validated_at_every_budget. Qed.
Print Assumptions C20_propagate_validated_at_every_budget.

Theorem C20_degree_passes_keep_value_claims : forall idom k env bs,
  map serase (all_stmts (fst (degrees_passes k idom env bs))) = map serase (all_stmts bs).
Proof. exact degrees_passes_pres. Qed.
Print Assumptions C20_degree_passes_keep_value_claims.

(* one statement visit (the unit a cut inside a pass can separate) preserves the invariant *)
Theorem C20_single_visit_preserves_invariant : forall p A s B env b s' env',
  uniq (map sigq (A ++ s :: B)) ->
  Inv p (A ++ s :: B) env -> pv_stmt p env s = Ok (b, s', env') ->
  Inv p (A ++ s' :: B) env' /\ map sigq (A ++ s' :: B) = map sigq (A ++ s :: B) /\ env_le env env'.
Proof. exact step_inv. Qed.
Print Assumptions C20_single_visit_preserves_invariant.

Theorem C20_invariant_implies_validated : forall p ss env,
  Inv p ss env -> forallb (vjust_stmt ss p) ss = true.
Proof. exact Inv_validated. Qed.
Print Assumptions C20_invariant_implies_validated.

(* "at whatever point they stop ... the tool still completes normally": on a graph
   without claims and with unique local definitions (what lifting and SSA conversion
   hand over; both conditions are evaluated on every explored definition), for EVERY
   pair of budgets the mirror returns Ok: the assert_eq! of add_variable never fires
   (a repeated visit finds the value it stored) and the field functions neither panic
   nor run out of fuel (their operands are canonical at every moment) *)
Theorem C20_propagate_completes : forall p, prime p -> 2 < p -> Z.log2 p < 2 ^ 64 ->
  forall kv kd idom c, clean_cfg c = true -> ldefs_unique (all_stmts (c_blocks c)) = true ->
  exists c', propagate kv kd p idom c = Ok c'.
Proof. exact propagate_completes. Qed.
Print Assumptions C20_propagate_completes.

(* non-vacuity: a clean two-statement graph  x.1 = 2 + 3; return x.1 * 2  meets both
   hypotheses; cut before the first pass it carries no claim, after one pass the
   literals and the sum are known, at the fixpoint the product is 3 = 10 mod 7; every
   one of these graphs is accepted by the validator *)
Definition ex20_k0 : know := {| kval := None; kdeg := None |}.
Definition ex20_x1 : vname := {| vn_name := [120%N]; vn_suffix := None; vn_version := Some 1%N |}.
Definition ex20_m : meta := {| m_start := 0%N; m_end := 0%N; m_file := None |}.
Definition ex20_graph : cfg :=
  {| c_kind := KFunction; c_params := []; c_decls := [];
     c_blocks := [ {| b_index := 0%N; b_depth := 0%N; b_preds := []; b_succs := [];
       b_stmts := [ SSubst ex20_m ex20_x1 OpVar (EInfix IAdd (ENum 2 ex20_k0) (ENum 3 ex20_k0) ex20_k0) None (Some TLocal);
                    SRet ex20_m (EInfix IMul (EVar ex20_x1 ex20_k0) (ENum 2 ex20_k0) ex20_k0) ] |} ] |}.
Definition ex20_ret_claim (o : outcome cfg) : option (option vred) :=
  match o with
  | Ok c => match c_blocks c with
            | [b] => match b_stmts b with [_; SRet _ e] => Some (expr_val e) | _ => None end
            | _ => None
            end
  | _ => None
  end.
Example C20_example :
  clean_cfg ex20_graph = true /\ ldefs_unique (all_stmts (c_blocks ex20_graph)) = true /\
  ex20_ret_claim (propagate 0 0 7 [None] ex20_graph) = Some None /\
  ex20_ret_claim (propagate 1 0 7 [None] ex20_graph) = Some None /\
  ex20_ret_claim (propagate 9 9 7 [None] ex20_graph) = Some (Some (VField 3)) /\
  forallb (fun k => match propagate k k 7 [None] ex20_graph with Ok c => vjust_cfg 7 c | _ => false end) [0; 1; 2; 3; 4; 9]%nat = true.
Proof. vm_compute. repeat split; reflexivity. Qed.

(* ------------------------------------------------------------------ *)
(* THE UNIVERSAL STATEMENT FOR DEGREE CLAIMS.  For every graph meeting the
   syntactic hypotheses Model.DegWf.deg_wf (no degree claim yet; assignment
   targets are declared non-parameters marked local exactly when the table says
   so; declaration statements agree with the table; the array read by an
   element-wise update is a parameter, a signal/component declared by an earlier
   statement, or a local not assigned from that statement on; a local has one
   defining assignment; a phi occurs only as the whole right-hand side of an
   assignment - all evaluated by the check on every graph the
   implementation hands to propagation), for EVERY table that has the shape of an
   immediate-dominator table (DegJustify.idom_shape: every entry names an earlier
   block, every predecessor is a block of the graph; evaluated by the check as well) and
   for EVERY number of degree passes k,
   the ranges Model.Propagate has attached after k passes are accepted by the
   validator DegJustify.djust_cfg (which judges a phi with the control of its block
   read off the final graph: control dependence, /repo D18) - hence upper bounds of the true polynomial
   degree, by C07 (Proofs.DegGraphProofs.justified_degrees_true).  As for values,
   the proof shows that every single statement visit preserves the invariant, so
   it covers every prefix of a pass. *)
Require Import Model.DegJustify Model.DegWf Proofs.DegInvariant.

Theorem C20_degrees_validated_at_every_budget : forall k idom c bs env,
  deg_wf c = true -> idom_shape c idom = true ->
  degrees_passes k idom (denv_init (c_kind c) (c_params c)) (c_blocks c) = (bs, env) ->
  djust_cfg (set_blocks c bs) idom = true.
Proof. exact degrees_validated_at_every_budget. Qed.
Print Assumptions C20_degrees_validated_at_every_budget.

(* the same for the whole propagation: value passes under budget kv (they leave
   degree claims, targets, types, declared names and the shape of every expression
   untouched, so deg_wf still holds of their output; neither kind of pass changes the
   number of blocks or a predecessor list, so idom_shape is kept), then degree passes
   under budget kd *)
Theorem C20_propagate_degrees_validated_at_every_budget : forall kv kd p idom c c',
  deg_wf c = true -> idom_shape c idom = true -> propagate kv kd p idom c = Ok c' -> djust_cfg c' idom = true.
Proof. exact propagate_degrees_validated_at_every_budget. Qed.
Print Assumptions C20_propagate_degrees_validated_at_every_budget.

(* non-vacuity: function f(a) { var x = a * 2; var y = x + 1; var z[2]; z[0] = y; return y * z[1]; }
   as the SSA graph the implementation builds (a loop-free assignment chain with an
   element-wise update of the never-assigned z.0) meets deg_wf; cut at 0, 1, 2, 9, 20 or
   40 degree passes the graph is accepted by the validator; the range of the returned
   product is still unknown after 9 passes and constant..quadratic at the fixpoint *)
Definition ex20d_v (c : N) (ver : N) : vname := {| vn_name := [c]; vn_suffix := None; vn_version := Some ver |}.
Definition ex20d_a0 : vname := ex20d_v 97 0.
Definition ex20d_x0 : vname := ex20d_v 120 0.
Definition ex20d_y0 : vname := ex20d_v 121 0.
Definition ex20d_z0 : vname := ex20d_v 122 0.
Definition ex20d_z1 : vname := ex20d_v 122 1.
Definition ex20d_graph : cfg :=
  {| c_kind := KFunction; c_params := [ex20d_a0];
     c_decls := [(ex20d_a0, TLocal); (ex20d_x0, TLocal); (ex20d_y0, TLocal); (ex20d_z0, TLocal); (ex20d_z1, TLocal)];
     c_blocks := [ {| b_index := 0%N; b_depth := 0%N; b_preds := []; b_succs := [];
       b_stmts := [ SDecl ex20_m [ex20d_x0] TLocal [];
                    SSubst ex20_m ex20d_x0 OpVar (EInfix IMul (EVar ex20d_a0 ex20_k0) (ENum 2 ex20_k0) ex20_k0) None (Some TLocal);
                    SSubst ex20_m ex20d_y0 OpVar (EInfix IAdd (EVar ex20d_x0 ex20_k0) (ENum 1 ex20_k0) ex20_k0) None (Some TLocal);
                    SSubst ex20_m ex20d_z1 OpVar (EUpdate ex20d_z0 [AIdx (ENum 0 ex20_k0)] (EVar ex20d_y0 ex20_k0) ex20_k0) None (Some TLocal);
                    SRet ex20_m (EInfix IMul (EVar ex20d_y0 ex20_k0) (EAccess ex20d_z1 [AIdx (ENum 1 ex20_k0)] ex20_k0) ex20_k0) ] |} ] |}.
Definition ex20d_ret_deg (o : outcome cfg) : option (option drange) :=
  match o with
  | Ok c => match c_blocks c with
            | [b] => match b_stmts b with [_; _; _; _; SRet _ e] => Some (expr_deg e) | _ => None end
            | _ => None
            end
  | _ => None
  end.
Example C20_degrees_example :
  deg_wf ex20d_graph = true /\
  idom_shape ex20d_graph [None] = true /\
  forallb (fun k => match propagate k k 7 [None] ex20d_graph with Ok c => djust_cfg c [None] | _ => false end) [0; 1; 2; 9; 20; 40]%nat = true /\
  forallb (fun k => match propagate 9 k 7 [None] ex20d_graph with Ok c => djust_cfg c [None] | _ => false end) [0; 1; 2; 9; 20; 40]%nat = true /\
  ex20d_ret_deg (propagate 0 0 7 [None] ex20d_graph) = Some None /\
  ex20d_ret_deg (propagate 9 9 7 [None] ex20d_graph) = Some None /\
  ex20d_ret_deg (propagate 40 40 7 [None] ex20d_graph) = Some (Some (DConst, DQuad)).
Proof. vm_compute. repeat split; reflexivity. Qed.

(* non-vacuity for control dependence: the four-block diamond
     if (a == 1) { x.1 = 1 } else { x.2 = 2 }   x.3 = phi(x.1, x.2);   b <-- x.3
   with a an input signal (the graph of Props.C07.exc_graph without any claim) meets
   deg_wf; cut at 0, 1, 2, 3, 9 or 20 degree passes it is accepted by the validator;
   at the fixpoint the condition a == 1 is known not to be constant, so the phi carries
   constant..NON-QUADRATIC (not a constant upper end: which argument is taken depends
   on the input), and so does the read of x.3 *)
Definition ex20c_x (n : N) : vname := {| vn_name := [120%N]; vn_suffix := None; vn_version := Some n |}.
Definition ex20c_a : vname := {| vn_name := [97%N]; vn_suffix := None; vn_version := None |}.
Definition ex20c_b : vname := {| vn_name := [98%N]; vn_suffix := None; vn_version := None |}.
Definition ex20c_graph : cfg :=
  {| c_kind := KTemplate; c_params := [];
     c_decls := [(ex20c_x 1, TLocal); (ex20c_x 2, TLocal); (ex20c_x 3, TLocal); (ex20c_a, TSigIn); (ex20c_b, TSigOut)];
     c_blocks :=
       [ {| b_index := 0%N; b_depth := 0%N; b_preds := []; b_succs := [1%N; 2%N];
            b_stmts := [ SDecl ex20_m [ex20c_a] TSigIn [];
                         SIf ex20_m (EInfix IEq (EVar ex20c_a ex20_k0) (ENum 1 ex20_k0) ex20_k0) 1%N (Some 2%N) ] |};
         {| b_index := 1%N; b_depth := 0%N; b_preds := [0%N]; b_succs := [3%N];
            b_stmts := [ SSubst ex20_m (ex20c_x 1) OpVar (ENum 1 ex20_k0) None (Some TLocal) ] |};
         {| b_index := 2%N; b_depth := 0%N; b_preds := [0%N]; b_succs := [3%N];
            b_stmts := [ SSubst ex20_m (ex20c_x 2) OpVar (ENum 2 ex20_k0) None (Some TLocal) ] |};
         {| b_index := 3%N; b_depth := 0%N; b_preds := [1%N; 2%N]; b_succs := [];
            b_stmts := [ SSubst ex20_m (ex20c_x 3) OpVar (EPhi [ex20c_x 1; ex20c_x 2] ex20_k0) None (Some TLocal);
                         SSubst ex20_m ex20c_b OpSig (EVar (ex20c_x 3) ex20_k0) None (Some TSigOut) ] |} ] |}.
Definition ex20c_idom : list (option N) := [None; Some 0%N; Some 0%N; Some 0%N].
Definition ex20c_phi_deg (o : outcome cfg) : option (option drange * option drange) :=
  match o with
  | Ok c => match c_blocks c with
            | [_; _; _; b] =>
              match b_stmts b with
              | [SSubst _ _ _ e _ _; SSubst _ _ _ e' _ _] => Some (expr_deg e, expr_deg e')
              | _ => None
              end
            | _ => None
            end
  | _ => None
  end.
Example C20_control_example :
  deg_wf ex20c_graph = true /\
  idom_shape ex20c_graph ex20c_idom = true /\
  forallb (fun k => match propagate 9 k 7 ex20c_idom ex20c_graph with Ok c => djust_cfg c ex20c_idom | _ => false end)
          [0; 1; 2; 3; 9; 20]%nat = true /\
  ex20c_phi_deg (propagate 9 0 7 ex20c_idom ex20c_graph) = Some (None, None) /\
  ex20c_phi_deg (propagate 9 20 7 ex20c_idom ex20c_graph) = Some (Some (DConst, DNonQuad), Some (DConst, DNonQuad)).
Proof. vm_compute. repeat split; reflexivity. Qed.

(* ------------------------------------------------------------------ *)
(* THE DEGREE HALF READ ON CONCRETE EXECUTIONS (third audit).  Whatever the two pass
   budgets, the ranges Model.Propagate has attached to the graph are true of the concrete
   values of every family of runs of Spec.DegRun (one valuation each, numbers, a path of
   blocks that follows the branch conditions) that follow the same path of blocks:
   position by position,  valuation |-> value of e at the end of its run  has the degree
   the range attached to e says.  (Composition of
   C20_propagate_degrees_validated_at_every_budget with C07_concrete_runs_claims_true; what
   is NOT covered - families whose paths differ, signal-dependent trip counts - is listed in
   the header of props/C07.v.) *)
Require Import Model.SsaCheck Spec.PolyDeg Spec.DegSem Spec.DegRun.
Require Import Proofs.DegreeProofs Proofs.DegGraphProofs Proofs.DegRunProofs Proofs.DegSemTotal Proofs.DegCutRuns.

Theorem C20_any_cut_degree_claims_true_of_concrete_runs :
  forall (V : Type) (line : V -> V -> Z -> V) (p : Z)
         (sem2 : infix_op -> Z -> Z -> Z) (sem1 : prefix_op -> Z -> Z) (call_sem : ident -> list Z -> Z)
         (name_code : ident -> Z),
  (forall op, op_den p op (sem2 op)) -> (forall op, prefix_den p op (sem1 op)) ->
  forall (kv kd : nat) (q : Z) (idom : list (option N)) (c c' : cfg),
  deg_wf c = true -> idom_shape c idom = true -> propagate kv kd q idom c = Ok c' ->
  forall (S0 : fstore V) (L0 : vmap) (pi : list nat) (s0 s : V -> cstore),
  finit_ok V line p c' S0 ->
  (forall rho, rel_store V rho (s0 rho) S0) ->
  (forall rho, cexec_path p sem2 sem1 call_sem name_code c' L0 (s0 rho) pi = Some (s rho)) ->
  forall e r (val : V -> cell),
  djust_expr c' e = true -> expr_deg e = Some r ->
  (forall rho, cval p sem2 sem1 call_sem name_code (s rho) e = Some (val rho)) ->
  forall i, SemDeg V line p (snd r) (fun rho => val rho i).
Proof. exact any_cut_degree_claims_true_of_concrete_runs. Qed.
Print Assumptions C20_any_cut_degree_claims_true_of_concrete_runs.

(* its hypotheses are satisfiable on the diamond with a phi under the signal-dependent
   branch `if (a == 1)` (ex20c_graph), cut after 1 degree pass: operators modulo 7, the
   valuations rho |-> a = 7 rho + 1, every run follows 0 -> 1 -> 3 and the phi copies x.1 *)
Definition ex20r_sem2 (op : infix_op) (x y : Z) : Z :=
  match op with
  | IAdd => (x + y) mod 7 | ISub => (x - y) mod 7 | IMul => (x * y) mod 7
  | IDiv => (x * (y ^ 5 mod 7)) mod 7
  | IEq => if x mod 7 =? y mod 7 then 1 else 0
  | _ => 0
  end.
Definition ex20r_sem1 (op : prefix_op) (x : Z) : Z := match op with PNeg => (x * -1) mod 7 | _ => 0 end.
Definition ex20r_cut : cfg := match propagate 9 1 7 ex20c_idom ex20c_graph with Ok c => c | _ => ex20c_graph end.
Definition ex20r_S0 : fstore Z := fun x => if vname_eqb ex20c_a x then Some (fun _ rho => rho * 7 + 1) else None.
Definition ex20r_s0 (rho : Z) : cstore := fun x => if vname_eqb ex20c_a x then Some (fun _ => rho * 7 + 1) else None.
Definition ex20r_s (rho : Z) : cstore :=
  cupd (cupd (ex20r_s0 rho) (ex20c_x 1) (Some (fun _ => 1 mod 7))) (ex20c_x 3) (Some (fun _ => 1 mod 7)).

Example C20_concrete_runs_example :
  (forall op, op_den 7 op (ex20r_sem2 op)) /\ (forall op, prefix_den 7 op (ex20r_sem1 op)) /\
  deg_wf ex20c_graph = true /\ idom_shape ex20c_graph ex20c_idom = true /\
  propagate 9 1 7 ex20c_idom ex20c_graph = Ok ex20r_cut /\
  finit_ok Z zline 7 ex20r_cut ex20r_S0 /\
  (forall rho, rel_store Z rho (ex20r_s0 rho) ex20r_S0) /\
  (forall rho, cexec_path 7 ex20r_sem2 ex20r_sem1 (fun _ _ => 0) (fun _ => 0) ex20r_cut [] (ex20r_s0 rho) [0; 1; 3]%nat
               = Some (ex20r_s rho)).
Proof.
  split; [intros []; cbn; auto; exists (fun y => y ^ 5 mod 7); reflexivity|].
  split; [intros []; cbn; auto|].
  split; [vm_compute; reflexivity|]. split; [vm_compute; reflexivity|]. split; [vm_compute; reflexivity|].
  split.
  { assert (Hd : decl_of ex20r_cut ex20c_a = Some TSigIn) by (vm_compute; reflexivity).
    assert (Hp : is_param ex20r_cut ex20c_a = false) by (vm_compute; reflexivity).
    intros x F Hx. unfold ex20r_S0 in Hx. destruct (vname_eqb ex20c_a x) eqn:E; [|discriminate].
    apply vname_eqb_eq in E. subst x. injection Hx as <-.
    right. left. split; [exact Hp|]. split; [exists TSigIn; split; [exact Hd|discriminate]|].
    intros i rho delta t. cbn [Dn]. unfold Dd, zline. replace (_ - _) with 0 by ring. reflexivity. }
  split.
  { intros rho x. unfold ex20r_s0, ex20r_S0. destruct (vname_eqb ex20c_a x); cbn; [intros i; reflexivity|exact I]. }
  intros rho.
  assert (E : ex20r_cut = ltac:(let t := eval vm_compute in ex20r_cut in exact t)) by (vm_compute; reflexivity).
  rewrite E. cbn. rewrite (Z.add_comm (rho * 7) 1), Z_mod_plus_full. reflexivity.
Qed.
