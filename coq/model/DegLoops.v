(* Decidable hypotheses of the degree theorem for graphs WITH LOOPS (C07, Proofs.DegRunLoops;
   proof round 4).  All of them are about the graph and the version maps C14's validator
   computes (Model.SsaCheck.compute_infos), none about a family of runs:
     targets_versioned c        every local a statement assigns carries a version;
     update_bases_fresh infos c the one read that SsaCheck.read_ok accepts WITHOUT a running version (through its
                                argument fresh_ok: the base of an element-wise update, read at a statement where the
                                validator's map holds no version of the variable - the first update of a
                                never-assigned array) is of a name that no statement assigns.  An update whose base
                                IS the running version (the second update of the same array: `u[0] = a; u[1] = 1;`,
                                base u.1 assigned by the first) is an ordinary read of a current cell and is not
                                restricted.  Evaluated on the validator's entry map of every block pushed through
                                the body, as body_run does;
     no_future_version infos c  the version that is current at the EXIT of block i is never
                                one that a block with a larger index assigns (in a graph
                                renamed along the dominator tree the current version is
                                defined in a dominator, and SsaCheck.shape_ok demands that
                                dominators have smaller indices);
     loops_ok infos c           those three and DegGraph.single_assignment_b.
   Definitions only. *)
From Coq Require Import ZArith NArith List Bool Arith.
Require Import Model.Base Model.Ir Model.SsaCheck Model.Justify Model.DegJustify Model.DegGraph.
Import ListNotations.

Definition targets_versioned (c : cfg) : bool :=
  forallb (fun x => match vn_version x with Some _ => true | None => false end) (local_targets_m c).

Fixpoint ubf_body (c : cfg) (m : vmap) (ss : list stmt) : bool :=
  match ss with
  | [] => true
  | s :: tl =>
    match update_base s with
    | Some w => match vget m (key_of w) with
                | Some _ => true
                | None => negb (existsb (vname_eqb w) (local_targets_m c))
                end
    | None => true
    end && ubf_body c (track m s) tl
  end.

Definition update_bases_fresh (infos : list binfo) (c : cfg) : bool :=
  forallb (fun ib => ubf_body c (bi_in (fst ib)) (snd (leading_phis (b_stmts (snd ib))))) (combine infos (c_blocks c)).

Definition block_targets_m (c : cfg) (b : block) : list vname :=
  flat_map (fun st => match st with
                      | SSubst _ x _ _ _ _ => if stores_local_m c x then [x] else []
                      | _ => []
                      end) (b_stmts b).

Definition no_future_version (infos : list binfo) (c : cfg) : bool :=
  forallb (fun ii =>
             forallb (fun ab => (fst ab <=? fst ii)%nat ||
                                forallb (fun x => negb (opt_eqb N.eqb (vget (bi_out (snd ii)) (key_of x)) (vn_version x)))
                                        (block_targets_m c (snd ab)))
                     (combine (seq 0 (length (c_blocks c))) (c_blocks c)))
          (combine (seq 0 (length infos)) infos).

Definition loops_ok (infos : list binfo) (c : cfg) : bool :=
  single_assignment_b c && targets_versioned c && update_bases_fresh infos c && no_future_version infos c.
