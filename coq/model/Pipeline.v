(* C01 — totality. Executable definitions only (no proofs).

   Part A mirrors, statement for statement, the code C01 owns:
     * the literal actions of parser/src/lang.lalrpop (DECNUMBER, HEXNUMBER,
       SMALL_DECNUMBER, STRING) — after the fix commits 4e93f91 (a hexadecimal
       literal needs a digit) and bdf3e60 (version number out of range is an
       error), with the pre-fix variants kept for the refutation lemmas;
     * split_string of program_structure/src/abstract_syntax_tree/
       statement_builders.rs — after fix c447a1c (cut on a char boundary),
       with the pre-fix variant kept.
   Every Rust panic site is an explicit [Panic site]; both `while` loops run on
   fuel. Strings are byte lists (Z in 0..255); `str::is_char_boundary` and
   `str::split_at` are modelled as the standard library defines them.

   Part B is the composition of the pipeline at the level of outcomes: the
   stages are parameters (their own mirrors live in the models of the other
   properties); [run_pipeline] threads their outcomes the way parse_files /
   analyze_* / main do (an [Err] of a file or definition becomes a report and
   the run continues; a [Panic] or [OutOfFuel] ends it). *)
From Coq Require Import ZArith List Bool.
Require Import Model.Base.
Import ListNotations.
Local Open Scope Z_scope.

(* ------------------------------------------------------------------------ *)
(* Part A.1: literal actions                                                 *)
(* ------------------------------------------------------------------------ *)

Definition site_parse_base10 : Z := 101.   (* DECNUMBER  .expect('failed to parse base10') *)
Definition site_hex_slice : Z := 102.      (* HEXNUMBER  as_bytes()[2..] *)
Definition site_parse_base16 : Z := 103.   (* HEXNUMBER  .expect('failed to parse base16') *)
Definition site_parse_number : Z := 104.   (* SMALL_DECNUMBER .expect('failed to parse number'), before bdf3e60 *)
Definition site_string_slice : Z := 105.   (* STRING     &s[1..s.len()-1] *)
Definition site_split_at : Z := 106.       (* split_string: cur.split_at(end) *)
Definition site_end_underflow : Z := 107.  (* split_string: end -= 1 on usize *)

Definition dec_digit (b : Z) : option Z :=
  if (48 <=? b) && (b <=? 57) then Some (b - 48) else None.

Definition hex_digit (b : Z) : option Z :=
  if (48 <=? b) && (b <=? 57) then Some (b - 48)
  else if (65 <=? b) && (b <=? 70) then Some (b - 55)
  else if (97 <=? b) && (b <=? 102) then Some (b - 87)
  else None.

Definition digit_of (radix : Z) (b : Z) : option Z :=
  if radix =? 16 then hex_digit b else dec_digit b.

(* BigInt::parse_bytes(buf, radix) restricted to sign-less input: None for an
   empty buffer and for any byte that is not a digit of the radix. *)
Fixpoint parse_digits (radix : Z) (acc : Z) (buf : list Z) : option Z :=
  match buf with
  | [] => Some acc
  | b :: r =>
    match digit_of radix b with
    | Some d => parse_digits radix (acc * radix + d) r
    | None => None
    end
  end.

Definition parse_bytes (radix : Z) (buf : list Z) : option Z :=
  match buf with
  | [] => None
  | _ => parse_digits radix 0 buf
  end.

(* the regular expressions of the terminals *)
Definition all_dec (s : list Z) : bool := forallb (fun b => match dec_digit b with Some _ => true | None => false end) s.
Definition all_hex (s : list Z) : bool := forallb (fun b => match hex_digit b with Some _ => true | None => false end) s.
Definition nonempty {A} (s : list A) : bool := match s with [] => false | _ => true end.

(* r'[0-9]+' *)
Definition dec_token (s : list Z) : bool := nonempty s && all_dec s.
(* r'0x[0-9A-Fa-f]+' (since 4e93f91) and r'0x[0-9A-Fa-f]*' (before) *)
Definition hex_token (s : list Z) : bool :=
  match s with
  | a :: b :: d => (a =? 48) && (b =? 120) && nonempty d && all_hex d
  | _ => false
  end.
Definition hex_token_old (s : list Z) : bool :=
  match s with
  | a :: b :: d => (a =? 48) && (b =? 120) && all_hex d
  | _ => false
  end.
(* r#''[^']*''# *)
Definition string_token (s : list Z) : bool :=
  match s with
  | q :: r =>
    (q =? 34) &&
    match rev r with
    | q' :: body => (q' =? 34) && forallb (fun b => negb (b =? 34)) body
    | [] => false
    end
  | [] => false
  end.

(* DECNUMBER: BigInt::parse_bytes(&<>.as_bytes(),10).expect(..) *)
Definition decnumber_action (tok : list Z) : outcome Z :=
  match parse_bytes 10 tok with
  | Some v => Ok v
  | None => Panic site_parse_base10
  end.

(* HEXNUMBER: BigInt::parse_bytes(&(<>.as_bytes()[2..]),16).expect(..) *)
Definition hexnumber_action (tok : list Z) : outcome Z :=
  if (length tok <? 2)%nat then Panic site_hex_slice
  else match parse_bytes 16 (skipn 2 tok) with
       | Some v => Ok v
       | None => Panic site_parse_base16
       end.

Definition usize_max : Z := 2 ^ 64 - 1.

(* usize::from_str: Err for an empty string, a non-digit, or overflow *)
Definition usize_from_str (tok : list Z) : option Z :=
  match parse_bytes 10 tok with
  | Some v => if v <=? usize_max then Some v else None
  | None => None
  end.

(* SMALL_DECNUMBER since bdf3e60:  =>? usize::from_str(<>).map_err(|_| ParseError::User {..}) *)
Definition small_decnumber_action (tok : list Z) : outcome Z :=
  match usize_from_str tok with
  | Some v => Ok v
  | None => Err (EOther 1)
  end.
(* before:  usize::from_str(<>).expect('failed to parse number') *)
Definition small_decnumber_action_old (tok : list Z) : outcome Z :=
  match usize_from_str tok with
  | Some v => Ok v
  | None => Panic site_parse_number
  end.

(* Version: three SMALL_DECNUMBERs *)
Definition version_action (a b c : list Z) : outcome (Z * Z * Z) :=
  x <- small_decnumber_action a ;;
  y <- small_decnumber_action b ;;
  z <- small_decnumber_action c ;;
  Ok (x, y, z).

(* ------------------------------------------------------------------------ *)
(* Part A.2: UTF-8 strings, char boundaries, split_string                    *)
(* ------------------------------------------------------------------------ *)

(* a continuation byte 10xxxxxx *)
Definition is_cont (b : Z) : bool := (128 <=? b) && (b <? 192).

(* number of continuation bytes announced by a leading byte *)
Definition scalar_len (b : Z) : option nat :=
  if (0 <=? b) && (b <? 128) then Some 0%nat
  else if (192 <=? b) && (b <? 224) then Some 1%nat
  else if (224 <=? b) && (b <? 240) then Some 2%nat
  else if (240 <=? b) && (b <? 248) then Some 3%nat
  else None.

(* str::is_char_boundary: index 0 and len are boundaries; otherwise the byte
   at the index must not be a continuation byte ((b as i8) >= -0x40) *)
Definition is_char_boundary (s : list Z) (i : nat) : bool :=
  match i with
  | O => true
  | _ => match nth_error s i with
         | None => (i =? length s)%nat
         | Some b => negb (is_cont b)
         end
  end.

(* str::split_at: panics unless mid is a char boundary (which includes mid <= len) *)
Definition split_at (s : list Z) (mid : nat) : outcome (list Z * list Z) :=
  if is_char_boundary s mid then Ok (firstn mid s, skipn mid s) else Panic site_split_at.

(* STRING: String::from(&s[1..s.len()-1]); a range slice panics when
   start > end, end > len, or an end point is not a char boundary *)
Definition string_action (tok : list Z) : outcome (list Z) :=
  let n := length tok in
  if (n <? 2)%nat then Panic site_string_slice
  else if is_char_boundary tok 1 && is_char_boundary tok (n - 1)
       then Ok (firstn (n - 2) (skipn 1 tok))
       else Panic site_string_slice.

(* while !cur.is_char_boundary(end) { end -= 1; } *)
Fixpoint back_to_boundary (fuel : nat) (s : list Z) (e : nat) : outcome nat :=
  if is_char_boundary s e then Ok e
  else match fuel with
       | O => OutOfFuel
       | S f => match e with
                | O => Panic site_end_underflow
                | S e' => back_to_boundary f s e'
                end
       end.

Definition sub_len : nat := 230.

(* split_string since c447a1c *)
Fixpoint split_string (fuel : nat) (cur : list Z) : outcome (list (list Z)) :=
  match cur with
  | [] => Ok []
  | _ =>
    match fuel with
    | O => OutOfFuel
    | S f =>
      let e0 := Nat.min sub_len (length cur) in
      e <- back_to_boundary (S e0) cur e0 ;;
      cr <- split_at cur e ;;
      rest <- split_string f (snd cr) ;;
      Ok (fst cr :: rest)
    end
  end.

(* split_string before c447a1c: split_at(min(230, len)) directly *)
Fixpoint split_string_old (fuel : nat) (cur : list Z) : outcome (list (list Z)) :=
  match cur with
  | [] => Ok []
  | _ =>
    match fuel with
    | O => OutOfFuel
    | S f =>
      cr <- split_at cur (Nat.min sub_len (length cur)) ;;
      rest <- split_string_old f (snd cr) ;;
      Ok (fst cr :: rest)
    end
  end.

(* D26: 'x' followed by 125 times U+00E9 (0xC3 0xA9) *)
Definition d26_witness : list Z := 120 :: concat (repeat [195; 169] 125).
(* D1 / D2 *)
Definition d1_witness : list Z := [48; 120].
Definition d2_witness : list Z := repeat 57 23.

(* ------------------------------------------------------------------------ *)
(* Part B: composition of the stages                                         *)
(* ------------------------------------------------------------------------ *)

Section Assembly.
  Variables Argv Source Ast Definition_ Cfg Ssa Report : Type.

  (* FileStack / include resolution: the list of sources to parse (C19) *)
  Variable stage_files : Argv -> outcome (list Source).
  (* preprocess (C05) + LALRPOP automaton + actions (Part A) + version check *)
  Variable stage_parse : Source -> outcome Ast.
  (* ProgramArchive/TemplateLibrary + remove_syntactic_sugar (C18) *)
  Variable stage_desugar : list Ast -> outcome (list Definition_ * list Report).
  (* ensure_unique_variables (C10) + build_basic_blocks (C12) *)
  Variable stage_lift : Definition_ -> outcome Cfg.
  (* DominatorTree::new (C15) + into_ssa (C14) *)
  Variable stage_ssa : Cfg -> outcome Ssa.
  (* propagate types / values / degrees (C06 C07 C20; field arithmetic C16) *)
  Variable stage_propagate : Ssa -> outcome Ssa.
  (* the analysis passes (C08 C09 C11 ...) *)
  Variable stage_passes : Ssa -> outcome (list Report).
  (* an error of a file or definition as a report *)
  Variable report_of_error : error -> Report.
  (* writers, filters, summary line and exit code (C03): 0 or 1 *)
  Variable stage_output : list Report -> outcome Z.

  (* an [Err] is caught and reported, the run continues (parse_files pushes the
     report; cache_template/cache_function return Err and analyze_* go on) *)
  Definition recover {A} (m : outcome A) (dflt : error -> A) : outcome A :=
    match m with
    | Err e => Ok (dflt e)
    | x => x
    end.

  Fixpoint map_outcome {A B} (f : A -> outcome B) (l : list A) : outcome (list B) :=
    match l with
    | [] => Ok []
    | a :: r => b <- f a ;; bs <- map_outcome f r ;; Ok (b :: bs)
    end.

  Definition analyse_definition (d : Definition_) : outcome (list Report) :=
    recover (c <- stage_lift d ;; s <- stage_ssa c ;; s' <- stage_propagate s ;; stage_passes s')
            (fun e => [report_of_error e]).

  Definition parse_one (s : Source) : outcome (option Ast * list Report) :=
    recover (a <- stage_parse s ;; Ok (Some a, [])) (fun e => (None, [report_of_error e])).

  Fixpoint somes {A} (l : list (option A)) : list A :=
    match l with
    | [] => []
    | Some a :: r => a :: somes r
    | None :: r => somes r
    end.

  Definition run_pipeline (argv : Argv) : outcome Z :=
    srcs <- recover (stage_files argv) (fun _ => []) ;;
    parsed <- map_outcome parse_one srcs ;;
    dr <- recover (stage_desugar (somes (map fst parsed))) (fun e => ([], [report_of_error e])) ;;
    found <- map_outcome analyse_definition (fst dr) ;;
    stage_output (concat (map snd parsed) ++ snd dr ++ concat found).
End Assembly.
