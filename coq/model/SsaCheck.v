(* Executable validator of SSA form (C14).  Given an SSA graph and an
   (untrusted) immediate-dominator certificate it computes, per block, the map
   key -> version at block entry (the phi targets over the exit map of the
   certified immediate dominator) and at block exit, and checks
     - the graph shape (block i is the i-th block, successors in range, the
       successor and predecessor sets mirror each other, the certificate
       points to an earlier block),
     - phi statements stand only at the head of blocks, at most one per key,
     - every read of a versioned local names the running version,
     - along every edge p -> s and for every key: the exit version of p is the
       entry version of s, or s has a phi for the key whose arguments contain it
       (an edge that carries no version of a phi'd key is allowed); these
       conditions are checked on the computed maps, so the certificate and
       the way the maps were obtained are not trusted,
     - every versioned local has at most one defining statement,
     - versioned names are declared as locals, unversioned ones are not.
   Proofs.SsaProofs shows that a graph that passes has, on EVERY path from the
   entry, every read naming the version most recently assigned on that path.
   Definitions only. *)
From Coq Require Import ZArith NArith List Bool.
Require Import Model.Base Model.Ir.
Import ListNotations.

Definition key := (ident * option ident)%type.
Definition key_of (v : vname) : key := (vn_name v, vn_suffix v).
Definition key_eqb (a b : key) : bool :=
  ident_eqb (fst a) (fst b) && opt_eqb ident_eqb (snd a) (snd b).

Definition vmap := list (key * N).
Fixpoint vget (m : vmap) (k : key) : option N :=
  match m with
  | [] => None
  | (k', n) :: tl => if key_eqb k' k then Some n else vget tl k
  end.
Definition vset (m : vmap) (k : key) (n : N) : vmap := (k, n) :: m.

(* ---- variable occurrences read by an expression (phi arguments excluded) ---- *)
Fixpoint expr_reads (e : expr) {struct e} : list vname :=
  let fix list_reads (es : list expr) : list vname :=
      match es with [] => [] | x :: tl => expr_reads x ++ list_reads tl end in
  let fix acc_reads (acc : list (access expr)) : list vname :=
      match acc with
      | [] => []
      | AIdx x :: tl => expr_reads x ++ acc_reads tl
      | AComp _ :: tl => acc_reads tl
      end in
  match e with
  | ENum _ _ => []
  | EVar v _ => [v]
  | EInfix _ l r _ => expr_reads l ++ expr_reads r
  | EPrefix _ x _ => expr_reads x
  | ESwitch c t f _ => expr_reads c ++ expr_reads t ++ expr_reads f
  | ECall _ args _ => list_reads args
  | EArray vs _ => list_reads vs
  | EAccess v acc _ => v :: acc_reads acc
  | EUpdate v acc rhe _ => v :: expr_reads rhe ++ acc_reads acc
  | EPhi _ _ => []
  end.

Definition stmt_reads (s : stmt) : list vname :=
  match s with
  | SDecl _ _ _ dims => flat_map expr_reads dims
  | SIf _ c _ _ => expr_reads c
  | SRet _ e => expr_reads e
  | SSubst _ _ _ rhe _ _ => expr_reads rhe
  | SCeq _ l r => expr_reads l ++ expr_reads r
  | SLog _ args => flat_map (fun a => match a with LExpr e => expr_reads e | LStr => [] end) args
  | SAssert _ e => expr_reads e
  end.

Definition is_phi_stmt (s : stmt) : bool :=
  match s with SSubst _ _ _ (EPhi _ _) _ _ => true | _ => false end.

(* the element-wise update of an array that was never assigned before reads a
   fresh version that no statement defines (ssa_impl.rs, visit_expression Update) *)
Definition update_base (s : stmt) : option vname :=
  match s with SSubst _ _ _ (EUpdate v _ _ _) _ _ => Some v | _ => None end.

(* a read names the running version; unversioned names are not locals *)
Definition read_ok (m : vmap) (fresh_ok : option vname) (v : vname) : bool :=
  match vn_version v with
  | None => true
  | Some n =>
    match vget m (key_of v) with
    | Some n' => N.eqb n n'
    | None => match fresh_ok with Some w => vname_eqb w v | None => false end
    end
  end.

(* the version a statement assigns *)
Definition stmt_def (s : stmt) : option vname :=
  match s with
  | SSubst _ x _ _ _ _ => match vn_version x with Some _ => Some x | None => None end
  | _ => None
  end.

Definition track (m : vmap) (s : stmt) : vmap :=
  match stmt_def s with
  | Some x => match vn_version x with Some n => vset m (key_of x) n | None => m end
  | None => m
  end.

(* a non-phi statement: all reads agree with the running map *)
Definition body_stmt_ok (m : vmap) (s : stmt) : bool :=
  negb (is_phi_stmt s) && forallb (read_ok m (update_base s)) (stmt_reads s).

Fixpoint body_run (m : vmap) (ss : list stmt) : option vmap :=
  match ss with
  | [] => Some m
  | s :: tl => if body_stmt_ok m s then body_run (track m s) tl else None
  end.

(* split the leading phi statements *)
Fixpoint leading_phis (ss : list stmt) : list stmt * list stmt :=
  match ss with
  | s :: tl => if is_phi_stmt s then let '(p, b) := leading_phis tl in (s :: p, b) else ([], ss)
  | [] => ([], [])
  end.

Definition phi_parts (s : stmt) : option (vname * list vname) :=
  match s with SSubst _ x _ (EPhi args _) _ _ => Some (x, args) | _ => None end.

Definition apply_phis (m : vmap) (phis : list stmt) : vmap := fold_left track phis m.

Fixpoint find_phi (phis : list stmt) (k : key) : option (vname * list vname) :=
  match phis with
  | [] => None
  | s :: tl =>
    match phi_parts s with
    | Some (x, args) => if key_eqb (key_of x) k then Some (x, args) else find_phi tl k
    | None => find_phi tl k
    end
  end.

Fixpoint phi_keys_nodup (phis : list stmt) : bool :=
  match phis with
  | [] => true
  | s :: tl =>
    match phi_parts s with
    | Some (x, _) =>
      match vn_version x with
      | Some _ => match find_phi tl (key_of x) with None => phi_keys_nodup tl | Some _ => false end
      | None => false
      end
    | None => false
    end
  end.

(* ---- per-block maps ---- *)
Record binfo := { bi_in : vmap; bi_out : vmap }.

Definition params_map (ps : list vname) : vmap :=
  fold_left (fun m x => match vn_version x with Some n => vset m (key_of x) n | None => m end) ps [].

(* blocks are processed in index order; the certified idom must be earlier *)
Fixpoint compute_infos (ps : list vname) (idom : list (option N)) (bs : list block) (done : list binfo)
  : option (list binfo) :=
  match bs with
  | [] => Some done
  | b :: tl =>
    let '(phis, body) := leading_phis (b_stmts b) in
    let base :=
        match done with
        | [] => Some (params_map ps)            (* the entry block *)
        | _ => match nth_error idom (length done) with
               | Some (Some d) => match nth_error done (N.to_nat d) with
                                  | Some i => Some (bi_out i)
                                  | None => None
                                  end
               | _ => None
               end
        end in
    match base with
    | None => None
    | Some m0 =>
      if phi_keys_nodup phis then
        let min := apply_phis m0 phis in
        match body_run min body with
        | Some mout => compute_infos ps idom tl (done ++ [{| bi_in := min; bi_out := mout |}])
        | None => None
        end
      else None
    end
  end.

(* ---- verification conditions on the computed maps ----
   compute_infos is only a way of guessing the maps; soundness rests on the
   local conditions checked here. *)
Definition kn_eqb (a b : key * N) : bool := key_eqb (fst a) (fst b) && N.eqb (snd a) (snd b).
Fixpoint vmap_eqb (a b : vmap) : bool :=
  match a, b with
  | [], [] => true
  | x :: ta, y :: tb => kn_eqb x y && vmap_eqb ta tb
  | _, _ => false
  end.

Definition phi_arg_ok (o : option N) (x : vname) (args : list vname) : bool :=
  match o with
  | None => true
  | Some n => existsb (fun a => key_eqb (key_of a) (key_of x) && opt_eqb N.eqb (vn_version a) (Some n)) args
  end.

(* block i: no phi outside the head, at most one phi per key, the exit map is
   the entry map pushed through the body *)
Definition block_ok (info : binfo) (b : block) : bool :=
  let '(phis, body) := leading_phis (b_stmts b) in
  phi_keys_nodup phis &&
  match body_run (bi_in info) body with
  | Some o => vmap_eqb o (bi_out info)
  | None => false
  end.

Definition edge_key_ok (ip is_ : binfo) (bsucc : block) (k : key) : bool :=
  let o := vget (bi_out ip) k in
  match find_phi (fst (leading_phis (b_stmts bsucc))) k with
  | Some (x, args) => phi_arg_ok o x args && opt_eqb N.eqb (vget (bi_in is_) k) (vn_version x)
  | None => opt_eqb N.eqb o (vget (bi_in is_) k)
  end.

Definition phi_key_list (b : block) : list key :=
  flat_map (fun s => match phi_parts s with Some (x, _) => [key_of x] | None => [] end)
           (fst (leading_phis (b_stmts b))).

Definition edge_ok (infos : list binfo) (bs : list block) (p s : nat) : bool :=
  match nth_error infos p, nth_error infos s, nth_error bs s with
  | Some ip, Some is_, Some bsucc =>
    forallb (edge_key_ok ip is_ bsucc) (map fst (bi_out ip) ++ map fst (bi_in is_) ++ phi_key_list bsucc)
  | _, _, _ => false
  end.

Definition infos_ok (infos : list binfo) (c : cfg) : bool :=
  let bs := c_blocks c in
  Nat.eqb (length infos) (length bs) &&
  forallb (fun '(i, b) => block_ok i b) (combine infos bs) &&
  match infos, bs with
  | i0 :: _, b0 :: _ =>
    vmap_eqb (bi_in i0) (params_map (c_params c)) &&
    match fst (leading_phis (b_stmts b0)) with [] => true | _ => false end
  | _, _ => false
  end &&
  forallb (fun b => forallb (fun s => edge_ok infos bs (N.to_nat (b_index b)) (N.to_nat s)) (b_succs b)) bs.

(* ---- shape ---- *)
Fixpoint indices_ok (bs : list block) (i : nat) : bool :=
  match bs with
  | [] => true
  | b :: tl => N.eqb (b_index b) (N.of_nat i) && indices_ok tl (S i)
  end.

Definition mem_n (x : N) (l : list N) : bool := existsb (N.eqb x) l.

Definition shape_ok (c : cfg) (idom : list (option N)) : bool :=
  let bs := c_blocks c in
  let n := length bs in
  indices_ok bs 0 &&
  Nat.eqb (length idom) n &&
  match bs with [] => false | b0 :: _ => match b_preds b0 with [] => true | _ => false end end &&
  forallb (fun b =>
             forallb (fun s => (N.to_nat s <? n)%nat &&
                               match nth_error bs (N.to_nat s) with
                               | Some t => mem_n (b_index b) (b_preds t)
                               | None => false
                               end) (b_succs b) &&
             forallb (fun q => (N.to_nat q <? n)%nat &&
                               match nth_error bs (N.to_nat q) with
                               | Some t => mem_n (b_index b) (b_succs t)
                               | None => false
                               end) (b_preds b)) bs &&
  forallb (fun '(i, d) => match i, d with
                          | O, None => true
                          | S _, Some x => (N.to_nat x <? i)%nat
                          | _, _ => false
                          end)
          (combine (seq 0 n) idom).

(* ---- unique definitions, declarations ---- *)
Definition all_defs (c : cfg) : list vname :=
  flat_map (fun b => flat_map (fun s => match stmt_def s with Some x => [x] | None => [] end) (b_stmts b)) (c_blocks c).

Fixpoint nodup_v (l : list vname) : bool :=
  match l with
  | [] => true
  | x :: tl => negb (existsb (vname_eqb x) tl) && nodup_v tl
  end.

Definition decl_type (c : cfg) (v : vname) : option vtype :=
  match find (fun d => vname_eqb (fst d) v) (c_decls c) with Some d => Some (snd d) | None => None end.

Definition all_occurrences (c : cfg) : list vname :=
  c_params c ++
  flat_map (fun b => flat_map (fun s =>
    stmt_reads s ++
    match s with
    | SSubst _ x _ rhe _ _ => x :: match rhe with EPhi args _ => args | _ => [] end
    | SDecl _ names _ _ => names
    | _ => []
    end) (b_stmts b)) (c_blocks c).

(* versioned <-> declared local *)
Definition occurrence_ok (c : cfg) (v : vname) : bool :=
  match vn_version v, decl_type c v with
  | Some _, Some TLocal => true
  | None, Some TLocal => false
  | None, _ => true        (* signals, components, and names without declaration (function calls have none) *)
  | Some _, _ => false
  end.

Definition ssa_check (c : cfg) (idom : list (option N)) : bool :=
  shape_ok c idom &&
  match compute_infos (c_params c) idom (c_blocks c) [] with
  | Some infos => infos_ok infos c
  | None => false
  end &&
  nodup_v (all_defs c) &&
  forallb (occurrence_ok c) (all_occurrences c).

(* ---- reads of locals carry a version (third audit) ----
   [read_ok] and [occurrence_ok] accept every unversioned read ("unversioned names
   are not locals"; the declaration table lists the locals under their versioned
   names only, so [decl_type] of an unversioned name is never [TLocal]).  This
   separate condition says that the reading is right: no statement reads, without
   a version, a name whose key (name, suffix) is the key of a declared version of a
   local or of a parameter.  Phi arguments are not reads: there the unversioned name
   records a path on which the variable is still unassigned. *)
Definition local_key (c : cfg) (k : key) : bool :=
  existsb (fun d => key_eqb (key_of (fst d)) k && vtype_eqb (snd d) TLocal &&
                    match vn_version (fst d) with Some _ => true | None => false end) (c_decls c)
  || existsb (fun x => key_eqb (key_of x) k) (c_params c).

Definition unversioned_read_ok (c : cfg) (v : vname) : bool :=
  match vn_version v with
  | Some _ => true
  | None => negb (local_key c (key_of v))
  end.

Definition unversioned_reads_ok (c : cfg) : bool :=
  forallb (fun b => forallb (fun s => forallb (unversioned_read_ok c) (stmt_reads s)) (b_stmts b)) (c_blocks c).

