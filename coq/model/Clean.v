(* The state of a graph before the first propagation pass: no value claim on any
   node, no statement-level constant, literals non-negative.  One of the two
   hypotheses of the budget theorems of C20 (the other is Justify.ldefs_unique);
   evaluated by the check on every graph the implementation hands to propagation.
   Definitions only. *)
From Coq Require Import ZArith List Bool.
Require Import Model.Base Model.Ir Model.Justify.
Import ListNotations.
Local Open Scope Z_scope.

(* a graph that carries no value claim at all (the state before the first pass) *)
Fixpoint clean_expr (e : expr) {struct e} : bool :=
  let fix clean_list (es : list expr) : bool :=
      match es with [] => true | x :: tl => clean_expr x && clean_list tl end in
  let fix clean_acc (acc : list (access expr)) : bool :=
      match acc with
      | [] => true
      | AIdx x :: tl => clean_expr x && clean_acc tl
      | AComp _ :: tl => clean_acc tl
      end in
  claim_none (expr_know e) &&
  match e with
  | ENum z _ => 0 <=? z
  | EVar _ _ => true
  | EInfix _ l r _ => clean_expr l && clean_expr r
  | EPrefix _ x _ => clean_expr x
  | ESwitch c t f _ => clean_expr c && clean_expr t && clean_expr f
  | ECall _ args _ => clean_list args
  | EArray vs _ => clean_list vs
  | EAccess _ acc _ => clean_acc acc
  | EUpdate _ acc rhe _ => clean_expr rhe && clean_acc acc
  | EPhi _ _ => true
  end.

Definition clean_stmt (s : stmt) : bool :=
  match s with
  | SDecl _ _ _ dims => forallb clean_expr dims
  | SIf _ c _ _ => clean_expr c
  | SRet _ e => clean_expr e
  | SSubst _ _ _ rhe sval _ => clean_expr rhe && match sval with None => true | Some _ => false end
  | SCeq _ l r => clean_expr l && clean_expr r
  | SLog _ args => forallb (fun a => match a with LStr => true | LExpr e => clean_expr e end) args
  | SAssert _ e => clean_expr e
  end.

Definition clean_cfg (c : cfg) : bool := forallb clean_stmt (all_stmts (c_blocks c)).

