(* FrontStages (C02, third pass) — the stages of the front end between the
   parse_files loop (Model.Includes, C19) and the runner (Model.Runner, C03)
   that Model.Front left as the parameters [others] / [defs], mirrored statement
   for statement or taken from the mirrors of the other properties.
   Definitions only.

   parser/src/lib.rs
     check_compiler_version        [version_supported], [check_compiler_version]; called by parse_file for every
                                   file that parses, with `config::COMPILER_VERSION` (Gen.CompilerVersion,
                                   regenerated from program_analysis/src/config.rs); `Ok(warnings)` is
                                   `reports.extend`ed, `Err(error)` pushed: both end in the report collection
     parse_files, the loop         `if let Some(main_component) = program.main_component { main_components.push(..) }`
                                   for every file that parses, in the order of their file ids ([main_components])
     parse_files, `match &main_components[..]`
                                   [main_items]: `[]` and `[_]` add nothing here (the Merger reports of
                                   duplicate_definitions / ProgramArchive::new: [merger_items], below), `_`
                                   pushes MultipleMainError
     parse_files, the `match &mut result` that follows
                                   `remove_syntactic_sugar(.., reports)`: the reports of Model.Desugar (C18's
                                   mirror, compared with the real desugarer on every ./check C18) are appended
                                   to the same collection ([sugar_items]); the templates / functions it hands
                                   back replace the maps ([survivors]: `new_template = template.clone();
                                   *new_template.get_mut_body() = new_body`)
   parser/src/errors.rs
     CompilerVersionError::into_report, NoCompilerVersionWarning::produce_report,
     MultipleMainError::produce_report, TupleError::into_report, AnonymousComponentError::into_report
                                   [item_report]: category, code, primary label (only the two desugarer errors
                                   have one: `meta.get_file_id()`)
   program_analysis/src/analysis_runner.rs
     generate_cfg                  `ast.into_cfg(..).map_err(into)?.into_ssa().map_err(into)`: [lift_outcome] reads
                                   the Err of Model.LiftFull.try_lift_impl (C13's mirror of into_cfg, compared on
                                   every ./check C13) and, when lifting succeeds, the outcome class of
                                   Model.PipelineMirrors.analyse_body (C01's chain: dominators, SSA; compared on
                                   every ./check C01) for `SSAError::UndefinedVariableError`
     cache_template / cache_function
                                   what they do with the result is Model.Runner.cache; [stage_def] only fills
                                   in [d_err]
   program_structure/src/control_flow_graph/errors.rs  CFGError::into_report
   program_structure/src/static_single_assignment/errors.rs  SSAError::into_report
                                   [item_report] for [SILiftError]: all `Report::error`; the primary label exists
                                   iff the `file_id` the error value carries is `Some`.  For
                                   ParameterNameCollisionError that is `params.file_id()` ([PM.d_pfile]).  The two
                                   other error values carry the file id of the meta of the offending name; the
                                   mirrors LiftFull / Ssa return the error WITHOUT that payload, so it is the
                                   parameter [err_file] here (compared with the real reports on every run).

   parser/src/lib.rs
     parse_files, the loop         `definitions.insert(file_id, program.definitions)` for every file whose parse_file
                                   answered Ok: [all_definitions] (the map read in the order of the file ids, which
                                   is how ProgramArchive::new, duplicate_definitions and TemplateLibrary::new read
                                   it: `file_ids.sort_unstable()` / `sort_unstable_by_key`)
     duplicate_definitions         (no main / several mains) and
   program_structure/src/program_library/program_archive.rs  ProgramArchive::new (one main)
                                   `for file_id in file_ids { merger.add_definitions(file_id, ..) }`, the Err
                                   reports appended to the collection: [merger_items] in every mode
   program_structure/src/program_library/program_merger.rs  Merger::add_definitions
                                   [merger_from]: one name space (`contains_function(name) ||
                                   contains_template(name)`), a definition whose name was entered before gets
                                   `Report::error(.., SameSymbolDeclaredTwice)` with two primary labels, the file
                                   of the duplicate and then the file of `first_definition(name)` ([SIDuplicate],
                                   [item_report])
   program_structure/src/program_library/template_library.rs  TemplateLibrary::new
                                   [keep_first_from]: `if functions.contains_key(&name) ||
                                   templates.contains_key(&name) { continue; }` — the first definition of a name
                                   in file-id order / source order is the one kept; the two maps are
                                   [program_of] (a ProgramArchive exists only when the Merger reported nothing,
                                   and then holds the same definitions)

   Not mirrored (parameters): the parser itself ([pragma], [has_main], [defs_of] and the line tables [lib] are what
   it yields for the files that were read), the anonymous-main check ([rest'] of [tied_project]; [rest] of the
   general [stage_project]), what lifting, SSA and the passes produce besides the error ([after]).  The models of
   the other properties are referred to by qualified name and are not modified. *)
From Coq Require Import ZArith NArith List Bool String.
Require Import Model.Base Gen.Category Model.Runner.
Require Gen.CompilerVersion.
Require Model.Includes Model.Front Model.Ast Model.Desugar Model.Ir Model.LiftFull Model.PipelineMirrors.
Import ListNotations.

Module PM := PipelineMirrors.

(* ast::Version = (usize, usize, usize) *)
Definition version := (nat * nat * nat)%type.

(*  (required_version.0 == compiler_version.0 && required_version.1 < compiler_version.1)
    || (required_version.0 == compiler_version.0
        && required_version.1 == compiler_version.1
        && required_version.2 <= compiler_version.2)  *)
Definition version_supported (required cv : version) : bool :=
  let '(r0, r1, r2) := required in
  let '(c0, c1, c2) := cv in
  ((r0 =? c0)%nat && (r1 <? c1)%nat) || ((r0 =? c0)%nat && (r1 =? c1)%nat && (r2 <=? c2)%nat).

(* ReportCode: `id()` and `name()` in the caller's numbering *)
Record code := Code { c_id : Z; c_name : Z }.
Record codes := Codes {
  c_version_error : code;       (* ReportCode::CompilerVersionError *)
  c_no_version : code;          (* ReportCode::NoCompilerVersionWarning *)
  c_multiple_main : code;       (* ReportCode::MultipleMainInComponent *)
  c_tuple : code;               (* ReportCode::TupleError *)
  c_anonymous : code;           (* ReportCode::AnonymousComponentError *)
  c_param_collision : code;     (* ReportCode::ParameterNameCollision *)
  c_undefined : code;           (* ReportCode::UninitializedSymbolInExpression *)
  c_same_symbol : code          (* ReportCode::SameSymbolDeclaredTwice *)
}.

(* the error values of generate_cfg *)
Inductive lift_error :=
| LEParamCollision             (* CFGError::ParameterNameCollisionError *)
| LEInvalidName                (* CFGError::InvalidVariableNameError (from IRError) *)
| LEUndefined.                 (* SSAError::UndefinedVariableError *)

(* the error structs of errors.rs / the error values, before `into_report` *)
Inductive stage_item (path : Type) :=
| SIVersionError (p : path) (required : version)   (* CompilerVersionError { path, required_version, version } *)
| SINoVersion (p : path)                           (* NoCompilerVersionWarning { path, version } *)
| SIMultipleMain                                   (* MultipleMainError *)
| SISugar (r : Desugar.report)                     (* TupleError / AnonymousComponentError raised by the desugarer *)
| SILiftError (d : PM.definition) (e : lift_error) (file : option N)
| SIDuplicate (d first : PM.definition).           (* the report of Merger::add_definitions for [d]; [first] is the entered
                                                      definition of that name *)
Arguments SIVersionError {path}.
Arguments SINoVersion {path}.
Arguments SIMultipleMain {path}.
Arguments SISugar {path}.
Arguments SILiftError {path}.
Arguments SIDuplicate {path}.

(* TemplateData / FunctionData -> the two name maps of the runner *)
Definition runner_kind (k : Ir.defkind) : kind :=
  match k with Ir.KFunction => KFunction | Ir.KTemplate | Ir.KCustom => KTemplate end.

(* `template.get_file_id()`: the definitions of the parser always have one (Parameters::from gives
   `Some(file_id)`); -1 stands for a definition record without *)
Definition def_file (d : PM.definition) : Z :=
  match PM.d_pfile d with Some f => Z.of_N f | None => (-1)%Z end.

Definition error_code (e : Base.error) : option Z :=
  match e with Base.EOther z => Some z | _ => None end.

Section Stages.
  Context {path : Type}.
  (* what `open_file` + the parser yield for a path: Model.Includes' [content], and of a file that parses its
     `compiler_version` and whether it has a `main_component` *)
  Variable content : path -> Includes.file_content path.
  Variable pragma : path -> option version.
  Variable has_main : path -> bool.
  (* config::COMPILER_VERSION *)
  Variable cv : version.
  Variable pf_id pf_name : Z.               (* ReportCode::ParseFail, as in Model.Front *)
  Variable cs : codes.
  (* message, label ranges, notes of a report: opaque for the runner *)
  Variable spay : stage_item path -> Z.
  (* hash orders and configuration of C01's chain (Model.PipelineMirrors) *)
  Variable ord : nat -> list nat -> list nat.
  Variable horder : list nat -> list nat.
  Variable prime : Z.
  Variable kv kd : nat.
  (* the file id inside an InvalidVariableNameError / UndefinedVariableError value *)
  Variable err_file : PM.definition -> option N.
  (* the name of a definition as the key of the runner's maps *)
  Variable name_id : string -> Z.
  (* what lifting / SSA / the passes produce for a definition besides what is mirrored here *)
  Variable after : PM.definition -> def.

  (* ---- errors.rs ---- *)
  Definition item_report (it : stage_item path) : report :=
    match it with
    | SIVersionError _ _ => mkReport Error (c_id (c_version_error cs)) (c_name (c_version_error cs)) [] (spay it)
    | SINoVersion _ => mkReport Warning (c_id (c_no_version cs)) (c_name (c_no_version cs)) [] (spay it)
    | SIMultipleMain => mkReport Error (c_id (c_multiple_main cs)) (c_name (c_multiple_main cs)) [] (spay it)
    | SISugar r =>
        let c := match Desugar.r_code r with
                 | Desugar.RCTupleError => c_tuple cs
                 | Desugar.RCAnonymousComponentError => c_anonymous cs
                 end in
        mkReport Error (c_id c) (c_name c) [Z.of_N (Desugar.r_file r)] (spay it)
    | SILiftError _ e file =>
        let '(i, n) := match e with
                       | LEParamCollision => (c_id (c_param_collision cs), c_name (c_param_collision cs))
                       | LEInvalidName => (pf_id, pf_name)
                       | LEUndefined => (c_id (c_undefined cs), c_name (c_undefined cs))
                       end in
        mkReport Error i n (match file with Some f => [Z.of_N f] | None => [] end) (spay it)
    (* program_merger.rs: `Report::error(.., ReportCode::SameSymbolDeclaredTwice)`,
       `report.add_primary(meta.file_location(), file_id, ..)` then
       `report.add_primary(first_location, first_id, ..)` *)
    | SIDuplicate d first =>
        mkReport Error (c_id (c_same_symbol cs)) (c_name (c_same_symbol cs)) [def_file d; def_file first] (spay it)
    end.

  (* ---- parser/src/lib.rs: check_compiler_version ---- *)
  Definition check_compiler_version (p : path) (required : option version) : list (stage_item path) :=
    match required with
    | Some r => if version_supported r cv then [] else [SIVersionError p r]
    | None => [SINoVersion p]
    end.

  Definition parses (p : path) : bool :=
    match content p with Includes.Parsed _ => true | _ => false end.

  (* the reports parse_file makes of the pragmas of the files that parse; [files] is the FileLibrary
     (Includes.ps_files: every file that could be read, in the order of the file ids) *)
  Definition version_items (files : list (path * bool)) : list (stage_item path) :=
    flat_map (fun f => if parses (fst f) then check_compiler_version (fst f) (pragma (fst f)) else []) files.

  (* main_components: the file ids of the files that parse and have a main component *)
  Fixpoint main_components_from (i : nat) (files : list (path * bool)) : list nat :=
    match files with
    | [] => []
    | f :: rest =>
        (if parses (fst f) && has_main (fst f) then [i] else []) ++ main_components_from (S i) rest
    end.
  Definition main_components (files : list (path * bool)) : list nat := main_components_from 0 files.

  Definition main_items (files : list (path * bool)) : list (stage_item path) :=
    match main_components files with
    | [] => []
    | [_] => []
    | _ :: _ :: _ => [SIMultipleMain]
    end.

  (* ---- the desugaring stage ---- *)
  Definition sugar_items (d : Desugar.desugared) : list (stage_item path) :=
    map SISugar (Desugar.d_reports d).

  Definition find_definition (n : string) (defs : list PM.definition) : option PM.definition :=
    find (fun d => String.eqb (PM.d_name d) n) defs.

  Definition with_body (d : PM.definition) (b : Ast.statement) : PM.definition :=
    PM.Def (PM.d_name d) (PM.d_kind d) (PM.d_params d) (PM.d_pfile d) (PM.d_ploc d) b.

  (* ---- parse_files: `definitions.insert(file_id, program.definitions)` ----
     the map read in the order of the file ids: the definitions of every file of the FileLibrary that parses, in
     source order; [defs_of] is what the parser yields for a file that parses *)
  Definition all_definitions (defs_of : path -> list PM.definition) (files : list (path * bool)) : list PM.definition :=
    flat_map (fun f => if parses (fst f) then defs_of (fst f) else []) files.

  (* ---- program_merger.rs: Merger::add_definitions over the files (ProgramArchive::new / duplicate_definitions) ----
     [seen]: template_info and function_info together (one name space);
       `if self.contains_function(name) || self.contains_template(name) { (Some(name), meta) }`   -> the report
       `else { .. self.get_mut_template_info().insert(name.clone(), new_data); (None, meta) }`    -> entered *)
  Fixpoint merger_from (seen all : list PM.definition) : list (stage_item path) :=
    match all with
    | [] => []
    | d :: rest =>
        match find_definition (PM.d_name d) seen with
        | Some first => SIDuplicate d first :: merger_from seen rest
        | None => merger_from (d :: seen) rest
        end
    end.
  Definition merger_items (all : list PM.definition) : list (stage_item path) := merger_from [] all.

  (* the entries of the new map: the old TemplateData / FunctionData with the new body *)
  Definition survivors (defs : list PM.definition) (kept : list (string * Ast.statement)) : list PM.definition :=
    flat_map (fun nb => match find_definition (fst nb) defs with
                        | Some d => [with_body d (snd nb)]
                        | None => []
                        end) kept.

  (* ---- template_library.rs: TemplateLibrary::new ----
     [seen]: the maps `functions` and `templates` together;
       `if functions.contains_key(&name) || templates.contains_key(&name) { continue; }` *)
  Fixpoint keep_first_from (seen all : list PM.definition) : list PM.definition :=
    match all with
    | [] => []
    | d :: rest =>
        match find_definition (PM.d_name d) seen with
        | Some _ => keep_first_from seen rest
        | None => d :: keep_first_from (d :: seen) rest
        end
    end.
  Definition keep_first (all : list PM.definition) : list PM.definition := keep_first_from [] all.

  (* Definition::Function goes into `functions`, Definition::Template (custom gates included) into `templates` *)
  Definition is_function (d : PM.definition) : bool :=
    match PM.d_kind d with Ir.KFunction => true | Ir.KTemplate | Ir.KCustom => false end.

  (* the library handed on: [lib] the line tables of the FileLibrary *)
  Definition program_of (lib : list (list N)) (all : list PM.definition) : PM.program :=
    PM.Program lib (filter (fun d => negb (is_function d)) (keep_first all)) (filter is_function (keep_first all)).

  (* the definitions handed to the runner *)
  Definition handed_on (pr : PM.program) (d : Desugar.desugared) : list PM.definition :=
    survivors (PM.pr_functions pr) (Desugar.d_functions d) ++ survivors (PM.pr_templates pr) (Desugar.d_templates d).

  (* ---- generate_cfg ---- *)
  Definition lift_outcome (d : PM.definition) : option lift_error :=
    match LiftFull.try_lift_impl (PM.d_kind d) (PM.d_params d) (PM.d_pfile d) (PM.d_ploc d) (PM.d_body d) with
    | Base.Err e =>
        match error_code e, error_code LiftFull.err_param_collision, error_code LiftFull.err_invalid_name with
        | Some z, Some zc, Some zn =>
            if (z =? zc)%Z then Some LEParamCollision else if (z =? zn)%Z then Some LEInvalidName else None
        | _, _, _ => None
        end
    | Base.Ok _ =>
        match PM.analyse_body ord horder prime kv kd d (PM.d_body d) with
        | PM.DRReport st => if (st =? PM.stage_ssa)%Z then Some LEUndefined else None
        | _ => None
        end
    | _ => None
    end.

  Definition lift_error_file (d : PM.definition) (e : lift_error) : option N :=
    match e with
    | LEParamCollision => PM.d_pfile d         (* file_id: *params.file_id() *)
    | LEInvalidName | LEUndefined => err_file d
    end.

  Definition stage_def (d : PM.definition) : def :=
    let a := after d in
    mkDef (runner_kind (PM.d_kind d)) (name_id (PM.d_name d)) (def_file d)
          (d_lift a)
          (match lift_outcome d with
           | Some e => Some (item_report (SILiftError d e (lift_error_file d e)))
           | None => d_err a
           end)
          (d_pass a) (d_lookups a).

  (* ---- the project handed to the runner ---- *)
  Definition stage_items (files : list (path * bool)) : list (stage_item path) :=
    version_items files ++ main_items files.

  Definition stage_others (s : Includes.parse_state (path:=path)) (d : Desugar.desugared) (rest : list report)
      : list report :=
    map item_report (stage_items (Includes.ps_files s)) ++ rest ++ map item_report (sugar_items d).

  Definition stage_defs (pr : PM.program) (d : Desugar.desugared) : list def :=
    map stage_def (handed_on pr d).

  Definition stage_project (payload : Includes.report (path:=path) -> Z)
      (s : Includes.parse_state (path:=path)) (pr : PM.program) (d : Desugar.desugared) (rest : list report)
      : project :=
    Front.front_project pf_id pf_name payload s (stage_others s d rest) (stage_defs pr d).

  (* ---- the project with the program TIED to the files that were read ----
     the library is what TemplateLibrary::new (ProgramArchive::new when it answers Ok) makes of the definitions of
     the files that parse, and the reports of Merger::add_definitions are in the collection; [rest']: the reports no
     mirror covers (the anonymous-main check) *)
  Definition tied_project (payload : Includes.report (path:=path) -> Z)
      (s : Includes.parse_state (path:=path)) (lib : list (list N)) (defs_of : path -> list PM.definition)
      (d : Desugar.desugared) (rest' : list report) : project :=
    stage_project payload s (program_of lib (all_definitions defs_of (Includes.ps_files s))) d
                  (map item_report (merger_items (all_definitions defs_of (Includes.ps_files s))) ++ rest').

  (* the parser's `Parameters::from(.., file_id, ..)`: every definition of the i-th file of the FileLibrary carries
     the file id i (a hypothesis of the theorems about the tied project, decidable, evaluated per run) *)
  Fixpoint defs_file_ok_from (defs_of : path -> list PM.definition) (i : nat) (files : list (path * bool)) : bool :=
    match files with
    | [] => true
    | f :: rest =>
        (if parses (fst f)
         then forallb (fun dd => match PM.d_pfile dd with Some g => N.eqb g (N.of_nat i) | None => false end)
                      (defs_of (fst f))
         else true)
        && defs_file_ok_from defs_of (S i) rest
    end.
End Stages.

(* the inputs of `remove_syntactic_sugar` *)
Definition sugar_input (pr : PM.program) : Desugar.dres Desugar.desugared :=
  Desugar.remove_syntactic_sugar (PM.pr_lib pr) (PM.named_bodies (PM.pr_templates pr))
                                 (PM.named_bodies (PM.pr_functions pr)).

(* every meta of the body lies in the file of the definition (what the parser's `FillMeta::fill(file_id, ..)`
   establishes): a hypothesis of the theorems, decidable, evaluated on every definition of every explored
   project *)
Definition meta_in_file (f : N) (m : Ast.meta) : bool :=
  match Ast.m_file m with Some g => N.eqb g f | None => false end.

(* ------------------------------------------------------------------------ *)
(* the instance run against the implementation                               *)
(* ------------------------------------------------------------------------ *)
Record stage_view := StageView {
  sv_reports : list (String.string * Z * Z * list Z);                          (* the stage reports *)
  sv_defs : list (kind * string * option (String.string * Z * Z * list Z));    (* handed on: kind, name, d_err *)
  sv_metas_ok : bool;                                                          (* the hypothesis above, all definitions *)
  sv_defs_file_ok : bool;                                                      (* [defs_file_ok_from] *)
  sv_all_defs : nat;                                                           (* length of [all_definitions] *)
  sv_kept : nat                                                                (* length of [keep_first] of it *)
}.

Definition no_def : def := mkDef KTemplate 0 0 [] None [] [].

Definition stage_run (cs : codes) (pf_id pf_name : Z) (ord : nat -> list nat -> list nat) (horder : list nat -> list nat)
    (prime : Z) (kv kd : nat)
    (d : Includes.fs_data) (pragma : Includes.spath -> option version) (has_main : Includes.spath -> bool)
    (argv libs : list Includes.spath) (lib : list (list N)) (defs_of : Includes.spath -> list PM.definition)
    (metas : Ast.statement -> list Ast.meta)
    : outcome (option stage_view) :=
  Base.bind (Includes.run_project false d argv libs)
    (fun s =>
       let all := all_definitions (Includes.d_content d) defs_of (Includes.ps_files s) in
       let pr := program_of lib all in
       match sugar_input pr with
       | Desugar.DOk sd =>
           let reports :=
             map (item_report pf_id pf_name cs (fun _ => 0%Z))
                 (stage_items (Includes.d_content d) pragma has_main CompilerVersion.compiler_version
                              (Includes.ps_files s)
                  ++ merger_items all
                  ++ sugar_items sd) in
           let defs :=
             map (fun dd =>
                    let sdef := stage_def (path:=Includes.spath) pf_id pf_name cs (fun _ => 0%Z) ord horder prime kv kd PM.d_pfile
                                          (fun _ => 0%Z) (fun _ => no_def) dd in
                    (runner_kind (PM.d_kind dd), PM.d_name dd, option_map Front.report_view (d_err sdef)))
                 (handed_on pr sd) in
           let ok :=
             forallb (fun dd => match PM.d_pfile dd with
                                | Some f => forallb (meta_in_file f) (metas (PM.d_body dd))
                                | None => false
                                end) all in
           let fok := defs_file_ok_from (Includes.d_content d) defs_of 0 (Includes.ps_files s) in
           Base.Ok (Some (StageView (map Front.report_view reports) defs ok fok (length all) (length (keep_first all))))
       | _ => Base.Ok None
       end).
