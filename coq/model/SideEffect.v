(* Mirror of `run_side_effect_analysis`
   (/repo/program_analysis/src/side_effect_analysis.rs:228-381): the sink set
   and the findings about locals and parameters (unused variable CS0006, unused
   parameter CS0007, variable / parameter without side effect CS0008) and about
   signals (unused signal CS0006, unconstrained signal CA01; mirrored because
   `reported_vars` couples the two loops, but no theorem speaks about them).
   Definitions only. *)
From Coq Require Import ZArith NArith List Bool.
Require Import Model.Base Model.Ir Model.VarUse Model.Taint.
Import ListNotations.

Fixpoint mapM {A B} (f : A -> outcome B) (l : list A) : outcome (list B) :=
  match l with
  | [] => Ok []
  | x :: r => y <- f x ;; ys <- mapM f r ;; Ok (y :: ys)
  end.

(* 2. variables_read: union of the blocks' variables_read *)
Definition variables_read (g : cfg) : list vname :=
  flat_map (block_reads (c_decls g)) (c_blocks g).

Definition signal_decls (g : cfg) : decls := filter (fun kt => is_signal (snd kt)) (c_decls g).
Definition exported_signals (g : cfg) : list vname :=
  map fst (filter (fun kt => match snd kt with TSigIn | TSigOut => true | _ => false end) (c_decls g)).

(* names tainted by an input or output signal *)
Definition exported_sinks (g : cfg) (tm : edges) : outcome (list vname) :=
  l <- mapM (multi_step_taint tm) (exported_signals g) ;; Ok (concat l).

(* statements whose variables_read are sinks *)
Definition is_sink_stmt (s : stmt) : bool :=
  match s with
  | SDecl _ _ _ _ | SRet _ _ | SAssert _ _ | SIf _ _ _ _ => true
  | _ => false
  end.

Definition stmt_sinks (g : cfg) : list vname :=
  flat_map (fun b => flat_map (fun s => if is_sink_stmt s then stmt_reads (c_decls g) s else []) (b_stmts b))
    (c_blocks g).

(* A name tainted by an input or output signal that occurs in a constraint is
   a sink even when it is the only name of that constraint (repair of
   C09-single-name-constraint; before the repair this clause was missing). *)
Definition constraint_stmt_sinks (g : cfg) (es : list vname) : list vname :=
  flat_map (fun b => flat_map (fun s =>
      if is_constraint_stmt s then filter (fun n => vmem n es) (stmt_used (c_decls g) s) else [])
    (b_stmts b)) (c_blocks g).

Definition sinks_with (repaired : bool) (g : cfg) (tm cm : edges) : outcome (list vname) :=
  es <- exported_sinks g tm ;;
  parts <- mapM (fun source =>
             r <- multi_step_constraint cm source ;;
             Ok (match r with [] => [] | _ => source :: r end)) es ;;
  Ok (concat parts ++ exported_signals g ++ stmt_sinks g
      ++ (if repaired then constraint_stmt_sinks g es else [])).
Definition sinks := sinks_with true.

Inductive fkind := FUnusedVar | FUnusedParam | FVarNoSideEffect | FParamNoSideEffect
                 | FUnusedSignal | FUnconstrainedSignal.

Record finding := mkF { f_kind : fkind; f_var : vname; f_meta : meta }.

Definition underscore : ident := [95%N].
(* `source.to_string() == "_"`: Display prints the original name, then the accesses *)
Definition displays_underscore (name : vname) (has_access : bool) : bool :=
  ident_eqb (vn_name name) underscore && negb has_access.

Definition is_param (g : cfg) (v : vname) : bool := vmem v (c_params g).

(* first loop: definitions *)
Definition definition_finding (g : cfg) (tm : edges) (read snk : list vname) (d : duse) : outcome (option finding) :=
  if displays_underscore (d_name d) (d_acc d) then Ok None
  else if negb (vmem (d_name d) read) then
    Ok (Some (mkF (if is_param g (d_name d) then FUnusedParam else FUnusedVar) (d_name d) (d_meta d)))
  else
    t <- taints_any tm (d_name d) snk ;;
    if t then Ok None
    else Ok (Some (mkF (if is_param g (d_name d) then FParamNoSideEffect else FVarNoSideEffect) (d_name d) (d_meta d))).

Fixpoint somes {A} (l : list (option A)) : list A :=
  match l with
  | [] => []
  | Some x :: r => x :: somes r
  | None :: r => somes r
  end.

(* location of a signal declaration: the meta of its Declaration statement *)
Definition decl_meta (g : cfg) (v : vname) : meta :=
  match find (fun s => match s with SDecl _ names _ _ => vmem v names | _ => false end)
             (flat_map b_stmts (c_blocks g)) with
  | Some (SDecl m _ _ _) => m
  | _ => meta0
  end.

Definition is_template (g : cfg) : bool := match c_kind g with KTemplate => true | _ => false end.

(* second loop: signals; `reported` holds the *displayed* (original) names *)
Definition signal_finding (g : cfg) (tm cm : edges) (read : list vname) (reported : list ident)
    (kt : vname * vtype) : outcome (option finding) :=
  let source := fst kt in
  if displays_underscore source false then Ok None
  else if existsb (ident_eqb (vn_name source)) reported then Ok None
  else if negb (vmem source read) then Ok (Some (mkF FUnusedSignal source (decl_meta g source)))
  else if is_template g then
    t <- taints_any tm source (constrained_variables cm) ;;
    if t then Ok None else Ok (Some (mkF FUnconstrainedSignal source (decl_meta g source)))
  else Ok None.

Record result := mkR {
  r_taint : tstate; r_cons : edges; r_sinks : list vname; r_findings : list finding }.

Definition run_side_effect_analysis_with (repaired : bool) (g : cfg) (br : branches) : outcome result :=
  let ta := run_taint_analysis g br in
  let cm := run_constraint_analysis g in
  let read := variables_read g in
  snk <- sinks_with repaired g (t_edges ta) cm ;;
  fs1 <- mapM (definition_finding g (t_edges ta) read snk) (t_defs ta) ;;
  let fs1 := somes fs1 in
  let reported := map (fun f => vn_name (f_var f)) fs1 in
  fs2 <- mapM (signal_finding g (t_edges ta) cm read reported) (signal_decls g) ;;
  Ok (mkR ta cm snk (fs1 ++ somes fs2)).

(* the current code *)
Definition run_side_effect_analysis := run_side_effect_analysis_with true.
(* the code before the repair of C09-single-name-constraint (kept for the `_refuted` lemma) *)
Definition run_side_effect_analysis_old := run_side_effect_analysis_with false.

(* the claims the property speaks about *)
Definition is_variable_claim (f : finding) : bool :=
  match f_kind f with
  | FUnusedVar | FUnusedParam | FVarNoSideEffect | FParamNoSideEffect => true
  | _ => false
  end.

(* Well-formedness observed on every dumped cfg (a hypothesis of C09_noninterference): an
   assignment whose target has the type of an input or output signal targets a declared
   input/output signal by its exact name (signals carry no SSA version). *)
Definition exported_type_b (t : option vtype) : bool :=
  match t with Some TSigIn | Some TSigOut => true | _ => false end.
Definition exported_targets_declared (g : cfg) : bool :=
  forallb (fun b => forallb (fun s =>
      match s with
      | SSubst _ x _ _ _ (Some _) =>
        implb (exported_type_b (type_of (c_decls g) x)) (vmem x (exported_signals g))
      | _ => true
      end) (b_stmts b)) (c_blocks g).

(* ... and a `<==` reads the name it assigns: `sig <== e` records the assigned signal as read
   (statement_impl.rs), `c.port <== e` reads the component through its update expression.
   (Until the third audit this clause said "`<==` only assigns signals", which is false for ports
   of sub-components; what the proof of C09_noninterference_never_read uses is this fact.) *)
Definition csig_on_signals (g : cfg) : bool :=
  forallb (fun b => forallb (fun s =>
      match s with
      | SSubst _ x OpCSig _ _ (Some _) => vmem x (stmt_reads (c_decls g) s)
      | _ => true
      end) (b_stmts b)) (c_blocks g).
Definition ssa_wf_b (g : cfg) : bool := exported_targets_declared g && csig_on_signals g.

(* ---------- observation helpers for the engine ---------- *)

Definition universe (g : cfg) : list vname :=
  canon (c_params g ++ map fst (c_decls g)
         ++ flat_map (fun b => flat_map (fun s =>
              (match s with SDecl _ names _ _ => names | _ => [] end)
              ++ stmt_reads (c_decls g) s ++ stmt_writes (c_decls g) s) (b_stmts b)) (c_blocks g)).

Definition table (f : vname -> outcome (list vname)) (keep_empty : bool) (u : list vname)
  : outcome (list (vname * list vname)) :=
  l <- mapM (fun x => r <- f x ;; Ok (x, canon r)) u ;;
  Ok (filter (fun e => keep_empty || match snd e with [] => false | _ => true end) l).
