(* Executable mirror of the expression-level part of
   program_structure/src/abstract_syntax_tree/ast_shortcuts.rs
   (assign_with_op_shortcut, plusplus, subsub) together with the grammar
   actions of ParseSubstitution in parser/src/lang.lalrpop that call them
   (C13).  Definitions only.

   What is kept of an expression is what the shortcuts look at or build: number
   literals, variables with their access list, infix operations.  Names are an
   abstract type N (the shortcuts only move and clone them); `Meta` (location)
   is dropped: every node built by one shortcut gets a clone of the same meta. *)
From stdpp Require Import list.

(* the ast::ExpressionInfixOpcode values that have a compound assignment *)
Inductive binop := Mul | Div | Add | Sub | Pow | IntDiv | Mod | ShiftL | ShiftR | BitAnd | BitOr | BitXor.

(* ast::Expression: Number / Variable { name, access } / InfixOp { lhe, infix_op, rhe };
   an element of an access list is ast::Access: ArrayAccess(index expression) - any
   expression - or ComponentAccess(name) - [EField name], which occurs in access lists
   only (fourth audit: `c8.y[1] -= e` parses and lifts; the access list used to hold
   index expressions only) *)
Inductive ex (N : Type) :=
| ENum (n : nat)
| EVar (x : N) (access : list (ex N))
| EInfix (op : binop) (lhe rhe : ex N)
| EField (f : N).
Arguments ENum {N} n.
Arguments EVar {N} x access.
Arguments EInfix {N} op lhe rhe.
Arguments EField {N} f.

(* what ParseSubstitution reads (surface forms) and what it builds (only
   CAssign = ast::Statement::Substitution { var, access, op: AssignVar, rhe }) *)
Inductive cstmt (N : Type) :=
| CAssign (x : N) (access : list (ex N)) (rhe : ex N)                   (* x[..] = rhe *)
| COpAssign (op : binop) (x : N) (access : list (ex N)) (rhe : ex N)    (* x[..] op= rhe *)
| CInc (x : N) (access : list (ex N))                                   (* x[..]++ *)
| CDec (x : N) (access : list (ex N)).                                  (* x[..]-- *)
Arguments CAssign {N} x access rhe.
Arguments COpAssign {N} op x access rhe.
Arguments CInc {N} x access.
Arguments CDec {N} x access.

Section shortcuts.
  Context {N : Type}.

  (* expression_builders.rs / statement_builders.rs *)
  Definition build_variable (name : N) (access : list (ex N)) : ex N := EVar name access.
  Definition build_infix (lhe : ex N) (infix_op : binop) (rhe : ex N) : ex N := EInfix infix_op lhe rhe.
  Definition build_number (value : nat) : ex N := ENum value.
  Definition build_substitution (var : N) (access : list (ex N)) (rhe : ex N) : cstmt N := CAssign var access rhe.

  (* pub fn assign_with_op_shortcut(op, meta, variable, rhe) -> Statement {
       let (var, access) = variable;
       let variable = build_variable(meta.clone(), var.clone(), access.clone());
       let infix = build_infix(meta.clone(), variable, op, rhe);
       build_substitution(meta, var, access, AssignOp::AssignVar, infix) } *)
  Definition assign_with_op_shortcut (op : binop) (variable : N * list (ex N)) (rhe : ex N) : cstmt N :=
    let '(var, access) := variable in
    let variable := build_variable var access in
    let infix := build_infix variable op rhe in
    build_substitution var access infix.

  (* pub fn plusplus(meta, variable) -> Statement {
       let one = build_number(meta.clone(), BigInt::from(1));
       assign_with_op_shortcut(ExpressionInfixOpcode::Add, meta, variable, one) } *)
  Definition plusplus (variable : N * list (ex N)) : cstmt N :=
    let one := build_number 1 in
    assign_with_op_shortcut Add variable one.

  Definition subsub (variable : N * list (ex N)) : cstmt N :=
    let one := build_number 1 in
    assign_with_op_shortcut Sub variable one.

  (* the actions of ParseSubstitution for `variable = rhe`, `variable op= rhe`,
     `variable ++`, `variable --` (lang.lalrpop 259-299) *)
  Definition parse_substitution (s : cstmt N) : cstmt N :=
    match s with
    | CAssign x access rhe => build_substitution x access rhe
    | COpAssign op x access rhe => assign_with_op_shortcut op (x, access) rhe
    | CInc x access => plusplus (x, access)
    | CDec x access => subsub (x, access)
    end.
End shortcuts.
