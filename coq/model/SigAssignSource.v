(* C08: the decidable form of the hypothesis of
   C08_liftfull_distinct_sources_distinct_subkeys, on the syntax tree handed to
   lifting, so that the extracted driver of the liftfull engine can evaluate it on
   every explored definition (second audit: the hypothesis used to be stated only).

   [source_signal_assignments body]: the `<--` / `-->` statements of the body
   (Substitution with AssignSignal), in source order (the same list as
   Proofs.LiftFullC08.source_signal_assignments).  [source_metas_distinct_b]: no two of
   them carry the same meta.  Definitions only. *)
From Coq Require Import ZArith NArith List Bool.
Require Import Model.Base Model.Ir Model.SignalAssign.
Require Model.Ast Model.LiftFull.
Import ListNotations.

Definition source_signal_assignments (body : Model.Ast.statement) : list Model.Ast.statement :=
  filter LiftFull.is_signal_assignment (LiftFull.lifted_stmts body).

Definition source_assignment_metas (body : Model.Ast.statement) : list meta :=
  map (fun s => LiftFull.lift_meta (Model.Ast.stmt_meta s)) (source_signal_assignments body).

Definition source_metas_distinct_b (body : Model.Ast.statement) : bool :=
  pairwise_distinct meta_eqb (source_assignment_metas body).

(* the conclusion of that theorem, on the graph the lifting mirror returns (None: no graph) *)
Definition lifted_subkeys_distinct_b (kind : defkind) (params : list String.string) (pfile : option N)
    (ploc : LiftFull.floc) (body : Model.Ast.statement) : option bool :=
  match LiftFull.lift_to_ir kind params pfile ploc body with
  | Ok c => Some (subkeys_distinct_b c)
  | _ => None
  end.
