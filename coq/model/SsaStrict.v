(* C14 (fourth audit): four decidable conditions on an SSA graph, evaluated next to
   SsaCheck.ssa_check and SsaCheck.unversioned_reads_ok by the driver command `ssacheck`
   on every real graph.  ssa_check alone accepts graphs that violate the text of C14:
     phi_args_ok infos c        ssa_check only asks that the ARRIVING version is among the arguments
                                of a phi.  Here: every argument has the key of the target, is the
                                version (or, unversioned, the absence of a version) at the exit of
                                SOME predecessor, no argument stands twice, and a predecessor that
                                carries no version is represented by the unversioned name;
     fresh_bases_ok infos c     the one read that read_ok accepts without a running version (the base
                                of an element-wise update of a never-assigned array) names a version
                                that NO statement of the graph defines (as Model.DegLoops.update_bases_fresh
                                of C07, over all_defs);
     locals_versioned_ok c      a key is a local's as soon as ANY source says so - a Local entry of the
                                table (versioned or not), a Declaration statement of type Local, an
                                assignment tagged Local, a parameter; every read and every assignment
                                target with such a key carries a version, a Declaration of type Local lists
                                versioned names only, parameters are versioned (SsaCheck.local_key counts
                                versioned table entries only: vacuous for a local left out of the table);
     decl_table_ok c            the declaration table IS the entries the Declaration statements list plus
                                Local entries for versions of parameters (version 0 or a version that a
                                statement defines).
   Meaning: Proofs.SsaStrictProofs.  Definitions only. *)
From Coq Require Import ZArith NArith List Bool Arith.
Require Import Model.Base Model.Ir Model.SsaCheck Model.SsaDecls.
Import ListNotations.

Definition versioned_b (v : vname) : bool := match vn_version v with Some _ => true | None => false end.

(* ---- phi arguments ---- *)
Definition arrives (infos : list binfo) (preds : list N) (k : key) (o : option N) : bool :=
  existsb (fun p => match nth_error infos (N.to_nat p) with
                    | Some ip => opt_eqb N.eqb (vget (bi_out ip) k) o
                    | None => false
                    end) preds.

Definition phi_stmt_args_ok (infos : list binfo) (b : block) (s : stmt) : bool :=
  match phi_parts s with
  | Some (x, args) =>
    nodup_v args &&
    forallb (fun a => key_eqb (key_of a) (key_of x) && arrives infos (b_preds b) (key_of x) (vn_version a)) args &&
    forallb (fun p => match nth_error infos (N.to_nat p) with
                      | Some ip => match vget (bi_out ip) (key_of x) with
                                   | Some _ => true       (* edge_ok asks for it among the arguments *)
                                   | None => existsb (fun a => key_eqb (key_of a) (key_of x) && negb (versioned_b a)) args
                                   end
                      | None => false
                      end) (b_preds b)
  | None => true
  end.

Definition phi_args_ok (infos : list binfo) (c : cfg) : bool :=
  forallb (fun b => forallb (phi_stmt_args_ok infos b) (fst (leading_phis (b_stmts b)))) (c_blocks c).

(* ---- fresh bases of element-wise updates ---- *)
Fixpoint fresh_bases_body (defs : list vname) (m : vmap) (ss : list stmt) : bool :=
  match ss with
  | [] => true
  | s :: tl =>
    match update_base s with
    | Some w => match vn_version w, vget m (key_of w) with
                | Some _, None => negb (existsb (vname_eqb w) defs)
                | _, _ => true
                end
    | None => true
    end && fresh_bases_body defs (track m s) tl
  end.

Definition fresh_bases_ok (infos : list binfo) (c : cfg) : bool :=
  forallb (fun ib => fresh_bases_body (all_defs c) (bi_in (fst ib)) (snd (leading_phis (b_stmts (snd ib)))))
          (combine infos (c_blocks c)).

(* ---- locals are versioned ---- *)
Definition stmt_says_local (k : key) (s : stmt) : bool :=
  match s with
  | SDecl _ names TLocal _ => existsb (fun x => key_eqb (key_of x) k) names
  | SSubst _ x _ _ _ (Some TLocal) => key_eqb (key_of x) k
  | _ => false
  end.

Definition lkey (c : cfg) (k : key) : bool :=
  existsb (fun d => key_eqb (key_of (fst d)) k && vtype_eqb (snd d) TLocal) (c_decls c)
  || existsb (fun x => key_eqb (key_of x) k) (c_params c)
  || existsb (fun b => existsb (stmt_says_local k) (b_stmts b)) (c_blocks c).

Definition name_versioned_ok (c : cfg) (v : vname) : bool := versioned_b v || negb (lkey c (key_of v)).

Definition stmt_versioned_ok (c : cfg) (s : stmt) : bool :=
  forallb (name_versioned_ok c) (stmt_reads s) &&
  match s with
  | SSubst _ x _ _ _ _ => name_versioned_ok c x
  | SDecl _ names TLocal _ => forallb versioned_b names
  | _ => true
  end.

Definition locals_versioned_ok (c : cfg) : bool :=
  forallb versioned_b (c_params c) &&
  forallb (fun b => forallb (stmt_versioned_ok c) (b_stmts b)) (c_blocks c).

(* ---- the declaration table ---- *)
Definition entry_eqb (a b : vname * vtype) : bool := vname_eqb (fst a) (fst b) && vtype_eqb (snd a) (snd b).

Definition stmt_entries (c : cfg) : list (vname * vtype) := c_decls (with_stmt_decls c).

Definition param_entry_ok (c : cfg) (d : vname * vtype) : bool :=
  vtype_eqb (snd d) TLocal &&
  existsb (fun p => key_eqb (key_of p) (key_of (fst d))) (c_params c) &&
  match vn_version (fst d) with
  | Some n => N.eqb n 0 || existsb (vname_eqb (fst d)) (all_defs c)
  | None => false
  end.

Definition decl_table_ok (c : cfg) : bool :=
  forallb (fun e => existsb (entry_eqb e) (c_decls c)) (stmt_entries c ++ map (fun p => (p, TLocal)) (c_params c)) &&
  forallb (fun d => existsb (entry_eqb d) (stmt_entries c) || param_entry_ok c d) (c_decls c).

(* ---- all four, with the maps the validator computes ---- *)
Inductive strict_answer := StrictOk | NoMaps | BadPhiArgs | BadFreshBase | LocalUnversioned | BadTable.

Definition ssa_strict (c : cfg) (idom : list (option N)) : strict_answer :=
  match compute_infos (c_params c) idom (c_blocks c) [] with
  | None => NoMaps
  | Some infos =>
    if negb (phi_args_ok infos c) then BadPhiArgs
    else if negb (fresh_bases_ok infos c) then BadFreshBase
    else if negb (locals_versioned_ok c) then LocalUnversioned
    else if negb (decl_table_ok c) then BadTable
    else StrictOk
  end.
