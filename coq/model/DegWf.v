(* Well-formedness of a graph handed to degree propagation: the hypotheses of the
   universal budget theorem for degree claims (Proofs.DegInvariant), all
   syntactic and evaluated by the check on every graph the implementation hands to
   propagation.
     - no degree claim yet ([clean_deg]);
     - a parameter is never the target of an assignment nor named by a declaration
       statement;
     - a declaration statement gives its names the type the declaration table
       gives them; an assignment marked local assigns a declared local;
     - the array read by an element-wise update is not assigned by that statement
       or a later one (in the linear order of the blocks).
   Definitions only. *)
From Coq Require Import ZArith NArith List Bool.
Require Import Model.Base Model.Ir Model.Propagate Model.Justify Model.DegJustify.
Import ListNotations.

Definition deg_none (k : know) : bool := match kdeg k with None => true | Some _ => false end.

Fixpoint clean_deg_expr (e : expr) {struct e} : bool :=
  let fix cl_list (es : list expr) : bool :=
      match es with [] => true | x :: tl => clean_deg_expr x && cl_list tl end in
  let fix cl_acc (acc : list (access expr)) : bool :=
      match acc with
      | [] => true
      | AIdx x :: tl => clean_deg_expr x && cl_acc tl
      | AComp _ :: tl => cl_acc tl
      end in
  deg_none (expr_know e) &&
  match e with
  | ENum _ _ | EVar _ _ | EPhi _ _ => true
  | EInfix _ l r _ => clean_deg_expr l && clean_deg_expr r
  | EPrefix _ x _ => clean_deg_expr x
  | ESwitch c t f _ => clean_deg_expr c && clean_deg_expr t && clean_deg_expr f
  | ECall _ args _ => cl_list args
  | EArray vs _ => cl_list vs
  | EAccess _ acc _ => cl_acc acc
  | EUpdate _ acc rhe _ => clean_deg_expr rhe && cl_acc acc
  end.

Definition stmt_exprs (s : stmt) : list expr :=
  match s with
  | SDecl _ _ _ dims => dims
  | SIf _ c _ _ => [c]
  | SRet _ e => [e]
  | SSubst _ _ _ rhe _ _ => [rhe]
  | SCeq _ l r => [l; r]
  | SLog _ args => flat_map (fun a => match a with LExpr e => [e] | LStr => [] end) args
  | SAssert _ e => [e]
  end.

Definition clean_deg_stmt (s : stmt) : bool := forallb clean_deg_expr (stmt_exprs s).

(* the arrays read by element-wise updates anywhere in an expression *)
Fixpoint update_bases (e : expr) {struct e} : list vname :=
  let fix ub_list (es : list expr) : list vname :=
      match es with [] => [] | x :: tl => update_bases x ++ ub_list tl end in
  let fix ub_acc (acc : list (access expr)) : list vname :=
      match acc with
      | [] => []
      | AIdx x :: tl => update_bases x ++ ub_acc tl
      | AComp _ :: tl => ub_acc tl
      end in
  match e with
  | ENum _ _ | EVar _ _ | EPhi _ _ => []
  | EInfix _ l r _ => update_bases l ++ update_bases r
  | EPrefix _ x _ => update_bases x
  | ESwitch c t f _ => update_bases c ++ update_bases t ++ update_bases f
  | ECall _ args _ => ub_list args
  | EArray vs _ => ub_list vs
  | EAccess _ acc _ => ub_acc acc
  | EUpdate v acc rhe _ => v :: update_bases rhe ++ ub_acc acc
  end.

Definition stmt_update_bases (s : stmt) : list vname := flat_map update_bases (stmt_exprs s).

(* one statement against the statements from it on *)
Definition stmt_wf (c : cfg) (s : stmt) (from : list stmt) : bool :=
  match s with
  | SDecl _ names t _ =>
    forallb (fun n => negb (is_param c n) && match decl_of c n with Some t' => vtype_eqb t t' | None => false end) names
  | SSubst _ v _ _ _ stype =>
    negb (stype_is_local stype) ||
    (negb (is_param c v) && match decl_of c v with Some TLocal => true | _ => false end)
  | _ => true
  end &&
  forallb (fun v => negb (existsb (defines v) from)) (stmt_update_bases s).

Fixpoint stmts_wf (c : cfg) (ss : list stmt) : bool :=
  match ss with
  | [] => true
  | s :: tl => stmt_wf c s (s :: tl) && stmts_wf c tl
  end.

Definition deg_wf (c : cfg) : bool :=
  let ss := all_stmts (c_blocks c) in
  forallb clean_deg_stmt ss && stmts_wf c ss && ldefs_unique ss.
