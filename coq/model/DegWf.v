(* Well-formedness of a graph handed to degree propagation: the hypotheses of the
   universal budget theorem for degree claims (Proofs.DegInvariant), all
   syntactic and evaluated by the check on every graph the implementation hands to
   propagation.
     - no degree claim yet ([clean_deg_stmt]);
     - the target of an assignment is not a parameter, it is declared, and the
       assignment is marked local exactly when the declaration table says local;
     - a declaration statement names no parameter and gives its names the type the
       declaration table gives them;
     - the array read by an element-wise update is a parameter, or a signal /
       component named by a declaration statement EARLIER in the linear order of
       the blocks, or a local (or undeclared) name that is not assigned by that
       statement or a later one;
     - a local has a single defining assignment ([ldefs_unique]);
     - a phi occurs only as the whole right-hand side of an assignment
       ([phi_top_stmt]: SSA conversion only inserts statements `x = phi(..)`; the
       validator accepts no claim on a phi below the top of a statement).
   Only the static signature of a statement ([ssig]: target, local mark, declared
   names, update bases) enters the second to the fifth.
   Definitions only. *)
From Coq Require Import ZArith NArith List Bool.
Require Import Model.Base Model.Ir Model.Propagate Model.Justify Model.DegJustify.
Import ListNotations.

Definition deg_none (k : know) : bool := match kdeg k with None => true | Some _ => false end.

Fixpoint clean_deg_expr (e : expr) {struct e} : bool :=
  let fix cl_list (es : list expr) : bool :=
      match es with [] => true | x :: tl => clean_deg_expr x && cl_list tl end in
  let fix cl_acc (acc : list (access expr)) : bool :=
      match acc with
      | [] => true
      | AIdx x :: tl => clean_deg_expr x && cl_acc tl
      | AComp _ :: tl => cl_acc tl
      end in
  deg_none (expr_know e) &&
  match e with
  | ENum _ _ | EVar _ _ | EPhi _ _ => true
  | EInfix _ l r _ => clean_deg_expr l && clean_deg_expr r
  | EPrefix _ x _ => clean_deg_expr x
  | ESwitch c t f _ => clean_deg_expr c && clean_deg_expr t && clean_deg_expr f
  | ECall _ args _ => cl_list args
  | EArray vs _ => cl_list vs
  | EAccess _ acc _ => cl_acc acc
  | EUpdate _ acc rhe _ => clean_deg_expr rhe && cl_acc acc
  end.

Definition stmt_exprs (s : stmt) : list expr :=
  match s with
  | SDecl _ _ _ dims => dims
  | SIf _ c _ _ => [c]
  | SRet _ e => [e]
  | SSubst _ _ _ rhe _ _ => [rhe]
  | SCeq _ l r => [l; r]
  | SLog _ args => flat_map (fun a => match a with LExpr e => [e] | LStr => [] end) args
  | SAssert _ e => [e]
  end.

Definition clean_deg_stmt (s : stmt) : bool := forallb clean_deg_expr (stmt_exprs s).

(* no phi anywhere in the expression *)
Fixpoint phi_free (e : expr) {struct e} : bool :=
  let fix pf_list (es : list expr) : bool :=
      match es with [] => true | x :: tl => phi_free x && pf_list tl end in
  let fix pf_acc (acc : list (access expr)) : bool :=
      match acc with
      | [] => true
      | AIdx x :: tl => phi_free x && pf_acc tl
      | AComp _ :: tl => pf_acc tl
      end in
  match e with
  | ENum _ _ | EVar _ _ => true
  | EPhi _ _ => false
  | EInfix _ l r _ => phi_free l && phi_free r
  | EPrefix _ x _ => phi_free x
  | ESwitch c t f _ => phi_free c && phi_free t && phi_free f
  | ECall _ args _ => pf_list args
  | EArray vs _ => pf_list vs
  | EAccess _ acc _ => pf_acc acc
  | EUpdate _ acc rhe _ => phi_free rhe && pf_acc acc
  end.

(* a phi only as the whole right-hand side of an assignment *)
Definition phi_top_stmt (s : stmt) : bool :=
  match s with
  | SSubst _ _ _ (EPhi _ _) _ _ => true
  | _ => forallb phi_free (stmt_exprs s)
  end.

(* the arrays read by element-wise updates anywhere in an expression *)
Fixpoint update_bases (e : expr) {struct e} : list vname :=
  match e with
  | ENum _ _ | EVar _ _ | EPhi _ _ => []
  | EInfix _ l r _ => update_bases l ++ update_bases r
  | EPrefix _ x _ => update_bases x
  | ESwitch c t f _ => update_bases c ++ update_bases t ++ update_bases f
  | ECall _ args _ => flat_map update_bases args
  | EArray vs _ => flat_map update_bases vs
  | EAccess _ acc _ => flat_map (fun a => match a with AIdx x => update_bases x | AComp _ => [] end) acc
  | EUpdate v acc rhe _ =>
    v :: update_bases rhe ++ flat_map (fun a => match a with AIdx x => update_bases x | AComp _ => [] end) acc
  end.

Definition stmt_update_bases (s : stmt) : list vname := flat_map update_bases (stmt_exprs s).

(* the static signature of a statement: what degree propagation never changes *)
Record ssg := { sg_tgt : option vname; sg_ldef : bool; sg_decl : option (list vname * vtype); sg_ub : list vname }.

Definition sdecl (s : stmt) : option (list vname * vtype) :=
  match s with SDecl _ names t _ => Some (names, t) | _ => None end.

Definition ssig (s : stmt) : ssg :=
  {| sg_tgt := tgt s; sg_ldef := is_ldef s; sg_decl := sdecl s; sg_ub := stmt_update_bases s |}.

Definition sg_defines (v : vname) (x : ssg) : bool :=
  match sg_tgt x with Some w => vname_eqb w v | None => false end.

(* a declaration statement of a signal or component type that names v *)
Definition sg_declares (v : vname) (x : ssg) : bool :=
  match sg_decl x with
  | Some (names, t) => is_sig_or_comp t && existsb (vname_eqb v) names
  | None => false
  end.

(* one statement on its own *)
Definition sg_wf_head (c : cfg) (x : ssg) : bool :=
  match sg_tgt x with
  | Some v =>
    negb (is_param c v) &&
    match decl_of c v with
    | Some t => Bool.eqb (sg_ldef x) (negb (is_sig_or_comp t))
    | None => false
    end
  | None => true
  end &&
  match sg_decl x with
  | Some (names, t) =>
    forallb (fun n => negb (is_param c n) &&
                      match decl_of c n with Some t' => vtype_eqb t t' | None => false end) names
  | None => true
  end.

(* an update base of a statement, against the statements before it and from it on *)
Definition ub_ok (c : cfg) (before from : list ssg) (v : vname) : bool :=
  is_param c v ||
  match decl_of c v with
  | Some t => if is_sig_or_comp t then existsb (sg_declares v) before
              else negb (existsb (sg_defines v) from)
  | None => negb (existsb (sg_defines v) from)
  end.

(* [before]: the statements already passed (most recent first) *)
Fixpoint sgs_wf (c : cfg) (before l : list ssg) : bool :=
  match l with
  | [] => true
  | x :: tl =>
    sg_wf_head c x && forallb (ub_ok c before (x :: tl)) (sg_ub x) && sgs_wf c (x :: before) tl
  end.

Definition deg_wf (c : cfg) : bool :=
  let ss := all_stmts (c_blocks c) in
  forallb clean_deg_stmt ss && sgs_wf c [] (map ssig ss) && ldefs_unique ss && forallb phi_top_stmt ss.
