(* A WEAKER validator of degree claims (C07, third audit "false alarms"): where
   Model.DegJustify.deg_claim_is demands that a claimed range EQUAL the range the tables
   give for the claimed ranges of the operands, [deg_claim_le] only demands that its UPPER
   END be at least the upper end the tables give (an upper end NonQuadratic is always
   accepted: it claims nothing).  A sound implementation that is more conservative than
   the tables (NonQuadratic more often, a wider upper end) is accepted by this validator
   and rejected by the strict one; every graph the strict one accepts is accepted here
   (Proofs.DegGraphLe.djust_cfg_implies_le), and the soundness theorem holds for this one
   (Proofs.DegGraphLe.justified_le_degrees_true).  The lower ends of ranges carry no
   obligation here (no theorem speaks about them).  The range a read of a variable refers
   to is still the claim of its (single) defining assignment (DegJustify.var_range).
   Definitions only. *)
From Coq Require Import ZArith NArith List Bool.
Require Import Model.Base Model.Ir Model.Propagate Model.Justify Model.DegJustify Gen.DegreeTable.
Import ListNotations.

Definition deg_rank_m (d : degree) : nat :=
  match d with DConst => 0 | DLin => 1 | DQuad => 2 | DNonQuad => 3 end.
Definition deg_le_m (a b : degree) : bool := Nat.leb (deg_rank_m a) (deg_rank_m b).

Definition deg_claim_le (k : know) (o : option drange) : bool :=
  match kdeg k with
  | None => true
  | Some r =>
    match snd r with
    | DNonQuad => true
    | _ => match o with Some t => deg_le_m (snd t) (snd r) | None => false end
    end
  end.

Fixpoint djust_expr_le (c : cfg) (e : expr) {struct e} : bool :=
  let fix dj_list (es : list expr) : bool :=
      match es with [] => true | x :: tl => djust_expr_le c x && dj_list tl end in
  let fix dj_acc (acc : list (access expr)) : bool :=
      match acc with
      | [] => true
      | AIdx x :: tl => djust_expr_le c x && dj_acc tl
      | AComp _ :: tl => dj_acc tl
      end in
  match e with
  | ENum _ k => deg_claim_le k (Some (DConst, DConst))
  | EVar v k => deg_claim_le k (var_range c v)
  | EInfix op l r k =>
    djust_expr_le c l && djust_expr_le c r && deg_claim_le k (opt_range_infix op (expr_deg l) (expr_deg r))
  | EPrefix op x k =>
    djust_expr_le c x && deg_claim_le k (opt_range_prefix op (expr_deg x))
  | ESwitch cd t f k =>
    djust_expr_le c cd && djust_expr_le c t && djust_expr_le c f &&
    deg_claim_le k (match expr_deg cd with
                    | Some rc => if range_is_constant rc then iter_opt [expr_deg t; expr_deg f] else None
                    | None => None
                    end)
  | ECall _ args k =>
    dj_list args && deg_claim_le k (if all_constant args then Some (DConst, DConst) else None)
  | EPhi args k => match kdeg k with None => true | Some _ => false end
  | EArray vs k => dj_list vs && deg_claim_le k (iter_opt (map expr_deg vs))
  | EAccess v acc k => dj_acc acc && deg_claim_le k (opt_index_adjust acc (var_range c v))
  | EUpdate v acc rhe k =>
    dj_acc acc && djust_expr_le c rhe &&
    deg_claim_le k (opt_index_adjust acc (update_base_range c v (expr_deg rhe)))
  end.

Definition djust_stmt_le (c : cfg) (m : mctl) (s : stmt) : bool :=
  match s with
  | SDecl _ _ _ dims => forallb (djust_expr_le c) dims
  | SIf _ cd _ _ => djust_expr_le c cd
  | SRet _ e => djust_expr_le c e
  | SSubst _ _ _ (EPhi args k) _ _ => deg_claim_le k (phi_adjust m (iter_opt (map (var_range c) args)))
  | SSubst _ _ _ rhe _ _ => djust_expr_le c rhe
  | SCeq _ l r => djust_expr_le c l && djust_expr_le c r
  | SLog _ args => forallb (fun a => match a with LStr => true | LExpr e => djust_expr_le c e end) args
  | SAssert _ e => djust_expr_le c e
  end.

Definition djust_block_le (c : cfg) (idom : list (option N)) (b : block) : bool :=
  forallb (djust_stmt_le c (block_ctl (c_blocks c) idom b)) (b_stmts b).

Definition djust_cfg_le (c : cfg) (idom : list (option N)) : bool :=
  idom_shape c idom && forallb (djust_block_le c idom) (c_blocks c).
