(* C14 (proof round 4): declarations as the Declaration STATEMENTS list them.
   The construction mirror Model.Ssa.into_ssa leaves the table c_decls of its output
   empty ("declarations are compared through the statements"); the real
   update_declarations (ssa_impl.rs) builds the table of the SSA graph from the
   parameters and from the re-issued Declaration statements.  Here:
     with_stmt_decls c          c with the table rebuilt from its Declaration statements
     versions_stmt_declared c   every versioned name that occurs in c (parameters, reads,
                                assignment targets, phi arguments, declared names) is listed
                                by a Declaration statement of c or is a version of a parameter
                                (parameters have no Declaration statement)
   and two decidable conditions on the graph BEFORE the conversion, which say that the
   table of the graph and its Declaration statements agree (IR lifting adds an entry to
   the table exactly when it appends a Declaration statement, and one per parameter):
     decl_stmts_declared c      a Declaration statement of a local names a local of the table
     locals_have_decl_stmt c    a local of the table is a parameter or has a Declaration statement
   Definitions only. *)
From Coq Require Import ZArith NArith List Bool.
Require Import Model.Base Model.Ir Model.SsaCheck Model.Ssa.
Import ListNotations.

Definition stmt_decl_entries (s : stmt) : list (vname * vtype) :=
  match s with SDecl _ names t _ => map (fun x => (x, t)) names | _ => [] end.

Definition with_stmt_decls (c : cfg) : cfg :=
  {| c_kind := c_kind c; c_params := c_params c;
     c_decls := flat_map (fun b => flat_map stmt_decl_entries (b_stmts b)) (c_blocks c);
     c_blocks := c_blocks c |}.

(* ---- after the conversion ---- *)
Definition stmt_decl_names (c : cfg) : list vname :=
  flat_map (fun b => flat_map (fun s => match s with SDecl _ names _ _ => names | _ => [] end) (b_stmts b)) (c_blocks c).

Definition version_declared (c : cfg) (v : vname) : bool :=
  match vn_version v with
  | None => true
  | Some _ => existsb (vname_eqb v) (stmt_decl_names c) ||
              existsb (fun p => key_eqb (key_of p) (key_of v)) (c_params c)
  end.

Definition versions_stmt_declared (c : cfg) : bool := forallb (version_declared c) (all_occurrences c).

(* ---- before the conversion ---- *)
Definition decl_stmt_local (decls : list (vname * vtype)) (s : stmt) : bool :=
  match s with SDecl _ (name :: _) TLocal _ => is_local_in decls name | _ => true end.

Definition decl_stmts_declared (c : cfg) : bool :=
  forallb (fun b => forallb (decl_stmt_local (c_decls c)) (b_stmts b)) (c_blocks c).

Definition declares_key (k : key) (s : stmt) : bool :=
  match s with SDecl _ (name :: _) TLocal _ => key_eqb (key_of name) k | _ => false end.

Definition local_has_decl_stmt (c : cfg) (d : vname * vtype) : bool :=
  match snd d with
  | TLocal => existsb (fun p => key_eqb (key_of p) (key_of (fst d))) (c_params c) ||
              existsb (fun b => existsb (declares_key (key_of (fst d))) (b_stmts b)) (c_blocks c)
  | _ => true
  end.

Definition locals_have_decl_stmt (c : cfg) : bool := forallb (local_has_decl_stmt c) (c_decls c).
