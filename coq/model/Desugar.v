(* Executable mirror of parser/src/syntax_sugar_remover.rs and
   parser/src/syntax_sugar_traits.rs (after the fix: commits 0c0464a, 9b5ad0d,
   ee9b00f, fda6c08, a4c60a2), of the builders of statement_builders.rs it calls
   (build_log_call / split_string, build_declaration) and of
   template_data.rs::fill_inputs_and_outputs.  Statement for statement; every
   `unwrap`, `unreachable!`, `get_file_id` and slicing site is an explicit
   [DPanic site]; the one `while` loop (split_string) runs on fuel.
   Definitions only -- the lemmas are in Proofs.DesugarProofs.

   Deviations from the letter of the Rust code, all semantics preserving:
   * recursion on `new_signals.get(i)` (a re-ordered copy of `signals`) and on
     `rhe.make_anonymous_parallel()` is made structural: the recursive results
     of all `signals` are tabulated with [map] and the selected ones are bound
     in the order of the Rust loop (results are pure values, so binding only the
     selected ones reports exactly the errors the Rust code reports);
   * `new_signals`/`new_operators` travel as one list of (position, operator);
   * the file library is the list, per file id, of line-start offsets, and
     [get_line] is codespan's binary search: number of starts <= offset. *)
From Coq Require Import ZArith NArith List Bool String Ascii DecimalString.
Require Import Model.Ast.
Import ListNotations.
Local Open Scope string_scope.
Local Open Scope list_scope.

(* ---- outcomes ---------------------------------------------------------- *)

Inductive report_code := RCTupleError | RCAnonymousComponentError.

(* message texts of the reports, see [msg_text] *)
Inductive dmsg :=
| MAnonLhs | MAnonCond | MAnonLog | MAnonAssert | MAnonReturn | MAnonCeq | MAnonDims
| MAnonAccess | MAnonArith | MAnonSwitch | MAnonCallArg | MAnonCallArgA
| MAnonNoTemplate (id : string) | MAnonInputMissing (name : string) | MAnonArity
| MAnonInputsAnon | MAnonParallel | MAnonParallelParam
| MTupleDest | MTupleLen | MTupleRhsOnly | MTupleNeedTuple | MTupleNeedLhs | MTupleCond
| MTupleAssert | MTupleReturn | MTupleCeq | MTupleDims | MTupleLhsNot | MTupleAccess
| MTupleArith | MTupleSwitch | MTupleCallArg | MTupleParallel
| MFunTuple | MFunAnon | MFunMultiSub.

Inductive dlabel := LProblem | LUnknownTemplate (id : string) | LTupleHere | LAnonHere.

Record report := Report {
  r_code : report_code; r_msg : dmsg;
  r_start : N; r_end : N; r_file : N; r_label : dlabel }.

Inductive dres (A : Type) :=
| DOk (a : A)
| DErr (r : report)
| DPanic (site : Z)
| DOutOfFuel.
Arguments DOk {A} a.
Arguments DErr {A} r.
Arguments DPanic {A} site.
Arguments DOutOfFuel {A}.

Definition dbind {A B} (m : dres A) (f : A -> dres B) : dres B :=
  match m with
  | DOk a => f a
  | DErr r => DErr r
  | DPanic s => DPanic s
  | DOutOfFuel => DOutOfFuel
  end.

Notation "' p <- m ;; f" := (dbind m (fun p => f))
  (at level 61, p pattern, m at next level, right associativity).
Notation "x <- m ;; f" := (dbind m (fun x => f))
  (at level 61, m at next level, right associativity).

(* panic sites *)
Definition site_get_file_id : Z := 1801.        (* Meta::get_file_id on None (name generation) *)
Definition site_get_line : Z := 1802.           (* file_library.get_line(..).unwrap() *)
Definition site_report_file_id : Z := 1803.     (* Meta::get_file_id in into_report *)
Definition site_signals_get : Z := 1804.        (* signals.get(pos).unwrap() *)
Definition site_new_signals_get : Z := 1805.    (* new_signals.get(i).unwrap() / new_operators.get(i).unwrap() *)
Definition site_separate_decl : Z := 1806.      (* unreachable!() in separate_declarations_in_comp_var_subs *)
Definition site_body_not_block : Z := 1807.     (* unreachable!() in remove_syntactic_sugar *)
Definition site_rte_anon : Z := 1808.           (* unreachable!() in remove_tuple_from_expression *)
Definition site_rhe_remove : Z := 1809.         (* rhe_values.remove(0) *)

(* ---- file library, generated names, reports ----------------------------- *)

Notation file_library := (list (list N)).

Definition get_line (lib : file_library) (start : N) (fid : N) : option N :=
  match nth_error lib (N.to_nat fid) with
  | Some starts => Some (N.of_nat (List.length (filter (fun s => (s <=? start)%N) starts)))
  | None => None
  end.

Definition dec (n : N) : string := NilEmpty.string_of_uint (N.to_uint n).

(* `<prefix>_<line>_<start>` *)
Definition gen_name (lib : file_library) (prefix : string) (m : meta) : dres string :=
  match m_file m with
  | None => DPanic site_get_file_id
  | Some f =>
      match get_line lib (m_start m) f with
      | None => DPanic site_get_line
      | Some l => DOk (prefix ++ "_" ++ dec l ++ "_" ++ dec (m_start m))%string
      end
  end.

Definition mk_report (code : report_code) (m : meta) (msg : dmsg) (label : dlabel) : dres report :=
  match m_file m with
  | Some f => DOk (Report code msg (m_start m) (m_end m) f label)
  | None => DPanic site_report_file_id
  end.

(* `Err(XError::boxed_report(meta, msg))` *)
Definition fail {A} (code : report_code) (m : meta) (msg : dmsg) : dres A :=
  r <- mk_report code m msg LProblem ;; DErr r.

Definition is_nil {A} (l : list A) : bool := match l with [] => true | _ => false end.

(* ---- syntax_sugar_traits.rs: ContainsExpression -------------------------- *)

Section Contains.
  Variable matcher : expression -> bool.

  Definition access_fold (f : expression -> bool) (acc : list access) : bool :=
    fold_left (fun res a => match a with ArrayAccess i => f i || res | ComponentAccess _ => res end)
              acc false.

  Fixpoint contains_expr (e : expression) : bool :=
    if matcher e then true else
    match e with
    | InfixOp _ l _ r =>
        let res := contains_expr l || false in
        contains_expr r || res
    | PrefixOp _ _ r => contains_expr r
    | InlineSwitchOp _ c t f =>
        let res := contains_expr c || false in
        let res := contains_expr t || res in
        contains_expr f || res
    | Call _ _ args => fold_left (fun res a => contains_expr a || res) args false
    | ArrayInLine _ values => fold_left (fun res a => contains_expr a || res) values false
    | AnonymousComponent _ _ _ params signals _ =>
        let res := fold_left (fun res a => contains_expr a || res) params false in
        fold_left (fun res a => contains_expr a || res) signals res
    | Variable_ _ _ acc => access_fold contains_expr acc
    | Number _ _ => false
    | Tuple _ values => fold_left (fun res a => contains_expr a || res) values false
    | ParallelOp _ r => contains_expr r
    end.

  (* the metas the callback is invoked on, in order *)
  Definition access_metas (f : expression -> list meta) (acc : list access) : list meta :=
    flat_map (fun a => match a with ArrayAccess i => f i | ComponentAccess _ => [] end) acc.

  Fixpoint matching_metas (e : expression) : list meta :=
    if matcher e then [expr_meta e] else
    match e with
    | InfixOp _ l _ r => matching_metas l ++ matching_metas r
    | PrefixOp _ _ r => matching_metas r
    | InlineSwitchOp _ c t f => matching_metas c ++ matching_metas t ++ matching_metas f
    | Call _ _ args => flat_map matching_metas args
    | ArrayInLine _ values => flat_map matching_metas values
    | AnonymousComponent _ _ _ params signals _ =>
        flat_map matching_metas params ++ flat_map matching_metas signals
    | Variable_ _ _ acc => access_metas matching_metas acc
    | Number _ _ => []
    | Tuple _ values => flat_map matching_metas values
    | ParallelOp _ r => matching_metas r
    end.

  Definition log_arg_contains (a : log_argument) : bool :=
    match a with LogExp e => contains_expr e | LogStr _ => false end.

  Fixpoint contains_expr_stmt (s : statement) : bool :=
    match s with
    | IfThenElse _ cond i e =>
        let res := contains_expr cond || false in
        let res := contains_expr_stmt i || res in
        match e with Some e => contains_expr_stmt e || res | None => res end
    | While _ cond b =>
        let res := contains_expr cond || false in
        contains_expr_stmt b || res
    | Return _ v => contains_expr v
    | InitializationBlock _ _ inits => fold_left (fun res a => contains_expr_stmt a || res) inits false
    | Block _ stmts => fold_left (fun res a => contains_expr_stmt a || res) stmts false
    | Declaration _ _ _ dims _ => fold_left (fun res a => contains_expr a || res) dims false
    | Substitution _ _ acc _ rhe =>
        let res := access_fold contains_expr acc in
        contains_expr rhe || res
    | MultiSubstitution _ l _ r =>
        let res := contains_expr l || false in
        contains_expr r || res
    | ConstraintEquality _ l r =>
        let res := contains_expr l || false in
        contains_expr r || res
    | LogCall _ args => fold_left (fun res a => log_arg_contains a || res) args false
    | Assert _ arg => contains_expr arg
    end.

  Fixpoint matching_metas_stmt (s : statement) : list meta :=
    match s with
    | IfThenElse _ cond i e =>
        matching_metas cond ++ matching_metas_stmt i ++
        match e with Some e => matching_metas_stmt e | None => [] end
    | While _ cond b => matching_metas cond ++ matching_metas_stmt b
    | Return _ v => matching_metas v
    | InitializationBlock _ _ inits => flat_map matching_metas_stmt inits
    | Block _ stmts => flat_map matching_metas_stmt stmts
    | Declaration _ _ _ dims _ => flat_map matching_metas dims
    | Substitution _ _ acc _ rhe => access_metas matching_metas acc ++ matching_metas rhe
    | MultiSubstitution _ l _ r => matching_metas l ++ matching_metas r
    | ConstraintEquality _ l r => matching_metas l ++ matching_metas r
    | LogCall _ args =>
        flat_map (fun a => match a with LogExp e => matching_metas e | LogStr _ => [] end) args
    | Assert _ arg => matching_metas arg
    end.
End Contains.

Definition contains_anon (e : expression) : bool := contains_expr is_anonymous_component e.
Definition contains_tuple (e : expression) : bool := contains_expr is_tuple e.

(* ---- statement_builders.rs ---------------------------------------------- *)

Definition sub_len : nat := 230.

(* str::is_char_boundary: position 0 and the end are boundaries; inside the
   string the byte there must not be a UTF-8 continuation byte *)
Definition starts_char (s : string) : bool :=
  match s with
  | EmptyString => true
  | String c _ => let b := N_of_ascii c in ((b <? 128) || (192 <=? b))%N
  end.

Fixpoint take_bytes (n : nat) (s : string) : string :=
  match n, s with
  | S n', String c s' => String c (take_bytes n' s')
  | _, _ => EmptyString
  end.
Fixpoint drop_bytes (n : nat) (s : string) : string :=
  match n, s with
  | S n', String _ s' => drop_bytes n' s'
  | _, _ => s
  end.

Definition is_char_boundary (s : string) (idx : nat) : bool :=
  match idx with
  | O => true
  | _ => (idx <=? String.length s)%nat && starts_char (drop_bytes idx s)
  end.

(* `while !cur.is_char_boundary(end) { end -= 1; }` (fix c447a1c); position 0 is
   a boundary, so the subtraction never underflows *)
Fixpoint back_off (cur : string) (end_ : nat) : nat :=
  if is_char_boundary cur end_ then end_
  else match end_ with O => O | S e => back_off cur e end.

(* the outer `while !cur.is_empty()` loop, on fuel: a chunk is empty only when a
   string starts with 230 continuation bytes, which no Rust `String` does *)
Fixpoint split_string (fuel : nat) (cur : string) : dres (list log_argument) :=
  match cur with
  | EmptyString => DOk []
  | _ =>
      match fuel with
      | O => DOutOfFuel
      | S fuel' =>
          let k := back_off cur (Nat.min sub_len (String.length cur)) in
          let chunk := take_bytes k cur in
          let rest := drop_bytes k cur in
          v <- split_string fuel' rest ;; DOk (LogStr chunk :: v)
      end
  end.

Fixpoint build_log_args (args : list log_argument) : dres (list log_argument) :=
  match args with
  | [] => DOk []
  | LogExp e :: rest => v <- build_log_args rest ;; DOk (LogExp e :: v)
  | LogStr s :: rest =>
      c <- split_string (S (String.length s)) s ;;
      v <- build_log_args rest ;; DOk (c ++ v)
  end.

Definition build_log_call (m : meta) (args : list log_argument) : dres statement :=
  v <- build_log_args args ;; DOk (LogCall m v).

(* build_declaration always sets is_constant *)
Definition build_declaration (m : meta) (xtype : variable_type) (name : string)
  (dims : list expression) : statement :=
  Declaration m xtype name dims true.

(* ---- template_data.rs: declaration order of inputs and outputs ----------- *)

Record template_info := TemplateInfo {
  ti_inputs : list (string * nat);
  ti_outputs : list (string * nat) }.

Fixpoint fill_io (s : statement) (io : list (string * nat) * list (string * nat))
  : list (string * nat) * list (string * nat) :=
  match s with
  | IfThenElse _ _ i e =>
      let io := fill_io i io in
      match e with Some e => fill_io e io | None => io end
  | Block _ stmts => fold_left (fun io s => fill_io s io) stmts io
  | While _ _ b => fill_io b io
  | InitializationBlock _ _ inits => fold_left (fun io s => fill_io s io) inits io
  | Declaration _ (VSignal st _) name dims _ =>
      match st with
      | SInput => (fst io ++ [(name, List.length dims)], snd io)
      | SOutput => (fst io, snd io ++ [(name, List.length dims)])
      | SIntermediate => io
      end
  | _ => io
  end.

Definition template_info_of (body : statement) : template_info :=
  let io := fill_io body ([], []) in TemplateInfo (fst io) (snd io).

Notation tenv := (list (string * template_info)).

Fixpoint lookup_template (id : string) (env : tenv) : option template_info :=
  match env with
  | [] => None
  | (n, t) :: rest => if String.eqb n id then Some t else lookup_template id rest
  end.

(* ---- pass 1: anonymous components ---------------------------------------- *)

(* `matches!(declaration, Statement::Declaration { dimensions, .. } if dimensions.iter().any(|d|
   matches!(d, Expression::Variable { name, .. } if *name == id_var_while)))` *)
Definition dim_is_counter (k : string) (e : expression) : bool :=
  match e with Variable_ _ n _ => String.eqb n k | _ => false end.
Definition decl_uses_counter (k : string) (s : statement) : bool :=
  match s with Declaration _ _ _ dims _ => existsb (dim_is_counter k) dims | _ => false end.

Notation rae_result := (dres (list statement * list statement * expression)).

Fixpoint position (name : string) (names : list string) : option nat :=
  match names with
  | [] => None
  | n :: rest => if String.eqb n name then Some O
                 else match position name rest with Some k => Some (S k) | None => None end
  end.

Section Pass1.
  Variable env : tenv.
  Variable lib : file_library.

  Definition acc_prefix (va : option expression) : list access :=
    match va with None => [] | Some v => [ArrayAccess v] end.

  (* named inputs: for every declared input its position among the names *)
  Fixpoint select_named (m : meta) (inputs : list (string * nat)) (names : list string)
    (operators : list assign_op) (nsignals : nat) (sel : list (nat * assign_op))
    : dres (list (nat * assign_op)) :=
    match inputs with
    | [] => DOk sel
    | inp :: rest =>
        match position (fst inp) names with
        | None => fail RCAnonymousComponentError m (MAnonInputMissing (fst inp))
        | Some pos =>
            if (pos <? nsignals)%nat then
              match nth_error operators pos with
              | Some o => select_named m rest names operators nsignals (sel ++ [(pos, o)])
              | None => DPanic site_signals_get
              end
            else DPanic site_signals_get
        end
    end.

  Fixpoint assign_inputs (va : option expression) (m : meta) (id_anon_temp : string)
    (results : list rae_result) (sel : list (nat * assign_op)) (inputs : list (string * nat))
    (i : nat) (seq_substs declarations : list statement)
    : dres (list statement * list statement) :=
    match inputs with
    | [] => DOk (seq_substs, declarations)
    | inp :: rest =>
        let acc := acc_prefix va ++ [ComponentAccess (fst inp)] in
        match nth_error sel i with
        | None => DPanic site_new_signals_get
        | Some (pos, o) =>
            match nth_error results pos with
            | None => DPanic site_new_signals_get
            | Some r =>
                '(stmts, new_declarations, new_expr) <- r ;;
                if contains_anon new_expr then
                  fail RCAnonymousComponentError (expr_meta new_expr) MAnonInputsAnon
                else
                  let subs := Substitution m id_anon_temp acc o new_expr in
                  assign_inputs va m id_anon_temp results sel rest (S i)
                    (seq_substs ++ stmts ++ [subs]) (declarations ++ new_declarations)
            end
        end
    end.

  Definition anon_component (va : option expression) (m : meta) (id : string)
    (is_parallel : bool) (params signals : list expression)
    (names : option (list (assign_op * string))) (results : list rae_result) : rae_result :=
    match lookup_template id env with
    | None =>
        r <- mk_report RCAnonymousComponentError m (MAnonNoTemplate id) (LUnknownTemplate id) ;;
        DErr r
    | Some template =>
        id_anon_temp <- gen_name lib id m ;;
        let declarations :=
          match va with
          | None => [build_declaration m VComponent id_anon_temp []]
          | Some v => [build_declaration m VAnonymousComponent id_anon_temp [v]]
          end in
        let call := Call m id params in
        if contains_anon call then fail RCAnonymousComponentError m MAnonCallArgA else
        let exp_with_call := if is_parallel then ParallelOp m call else call in
        let sub := Substitution m id_anon_temp (acc_prefix va) AssignVar exp_with_call in
        let seq_substs := [sub] in
        let inputs := ti_inputs template in
        sel <- match names with
               | Some nm =>
                   select_named m inputs (map snd nm) (map fst nm) (List.length signals) []
               | None =>
                   DOk (map (fun k => (k, AssignConstraintSignal)) (seq 0 (List.length signals)))
               end ;;
        if negb (List.length inputs =? List.length sel)%nat
           || negb (List.length inputs =? List.length signals)%nat
        then fail RCAnonymousComponentError m MAnonArity else
        '(seq_substs, declarations) <-
           assign_inputs va m id_anon_temp results sel inputs 0 seq_substs declarations ;;
        let outputs := ti_outputs template in
        let out_exp o := Variable_ m id_anon_temp (acc_prefix va ++ [ComponentAccess (fst o)]) in
        match outputs with
        | [o] => DOk ([Block m seq_substs], declarations, out_exp o)
        | _ => DOk ([Block m seq_substs], declarations, Tuple m (map out_exp outputs))
        end
    end.

  Fixpoint collect_tuple (results : list rae_result) (new_stmts declarations : list statement)
    (new_values : list expression) : dres (list statement * list statement * list expression) :=
    match results with
    | [] => DOk (new_stmts, declarations, new_values)
    | r :: rest =>
        '(stm, declaration, val2) <- r ;;
        collect_tuple rest (new_stmts ++ stm) (declarations ++ declaration) (new_values ++ [val2])
    end.

  (* first element satisfying [p], as the Rust `for` loops with early return *)
  Definition first_such {A} (p : A -> bool) (l : list A) : option A := find p l.

  Fixpoint remove_anonymous_from_expression (va : option expression) (expr : expression)
    {struct expr} : rae_result :=
    let ok := DOk ([], [], expr) in
    match expr with
    | ArrayInLine _ values =>
        match first_such contains_anon values with
        | Some value => fail RCAnonymousComponentError (expr_meta value) MAnonDims
        | None => ok
        end
    | Number _ _ => ok
    | Variable_ m _ _ =>
        if contains_anon expr then fail RCAnonymousComponentError m MAnonAccess else ok
    | InfixOp m l _ r =>
        if contains_anon l || contains_anon r
        then fail RCAnonymousComponentError m MAnonArith else ok
    | PrefixOp m _ r =>
        if contains_anon r then fail RCAnonymousComponentError m MAnonArith else ok
    | InlineSwitchOp m c t f =>
        if contains_anon c || contains_anon t || contains_anon f
        then fail RCAnonymousComponentError m MAnonSwitch else ok
    | Call m _ args =>
        match first_such contains_anon args with
        | Some _ => fail RCAnonymousComponentError m MAnonCallArg
        | None => ok
        end
    | AnonymousComponent m id is_parallel params signals names =>
        anon_component va m id is_parallel params signals names
          (map (remove_anonymous_from_expression va) signals)
    | Tuple m values =>
        '(new_stmts, declarations, new_values) <-
           collect_tuple (map (remove_anonymous_from_expression va) values) [] [] [] ;;
        DOk (new_stmts, declarations, Tuple m new_values)
    | ParallelOp m rhe =>
        if negb (is_call rhe) && negb (is_anonymous_component rhe) && contains_anon rhe
        then fail RCAnonymousComponentError m MAnonParallel
        else if is_call rhe && contains_anon rhe
        then fail RCAnonymousComponentError m MAnonParallelParam
        else
          match rhe with
          | AnonymousComponent m2 id _ params signals names =>
              (* rhe.make_anonymous_parallel() *)
              anon_component va m2 id true params signals names
                (map (remove_anonymous_from_expression va) signals)
          | _ => ok
          end
    end.

  (* the `for stmt in stmts { ...? }` loops of the Block / InitializationBlock arms *)
  Definition ras_list (f : statement -> dres (statement * list statement)) :=
    fix go (l : list statement) (new_stmts declarations : list statement)
      : dres (list statement * list statement) :=
      match l with
      | [] => DOk (new_stmts, declarations)
      | s :: rest =>
          '(stmt_ok, declaration) <- f s ;;
          go rest (new_stmts ++ [stmt_ok]) (declarations ++ declaration)
      end.

  Definition access_first_such (p : expression -> bool) (acc : list access) : option expression :=
    match find (fun a => match a with ArrayAccess i => p i | ComponentAccess _ => false end) acc with
    | Some (ArrayAccess i) => Some i
    | _ => None
    end.

  Fixpoint remove_anonymous_from_statement (va : option expression) (stmt : statement)
    {struct stmt} : dres (statement * list statement) :=
    match stmt with
    | MultiSubstitution m lhe o rhe =>
        if contains_anon lhe then fail RCAnonymousComponentError (expr_meta lhe) MAnonLhs else
        '(stmts, declarations, new_rhe) <- remove_anonymous_from_expression va rhe ;;
        let subs := MultiSubstitution m lhe o new_rhe in
        if is_nil stmts then DOk (subs, declarations)
        else DOk (Block m (stmts ++ [subs]), declarations)
    | IfThenElse m cond if_case else_case =>
        if contains_anon cond then fail RCAnonymousComponentError m MAnonCond else
        '(new_if_case, declarations) <- remove_anonymous_from_statement va if_case ;;
        match else_case with
        | Some else_case =>
            '(new_else_case, new_declarations) <- remove_anonymous_from_statement va else_case ;;
            DOk (IfThenElse m cond new_if_case (Some new_else_case), declarations ++ new_declarations)
        | None => DOk (IfThenElse m cond new_if_case None, declarations)
        end
    | While m cond body =>
        if contains_anon cond then fail RCAnonymousComponentError (expr_meta cond) MAnonCond else
        id_var_while <- gen_name lib "anon_var" m ;;
        let var_access := Variable_ m id_var_while [] in
        '(new_stmt, new_declarations) <- remove_anonymous_from_statement (Some var_access) body ;;
        (* fix f58b98e: the counter is declared only when a component array of this loop's own
           body is dimensioned by it; the declarations of nested loops travel up unchanged *)
        if existsb (decl_uses_counter id_var_while) new_declarations then
          let declarations :=
            [build_declaration m VVar id_var_while [];
             Substitution m id_var_while [] AssignVar (Number m 0)] ++ new_declarations in
          let next_access := InfixOp m var_access IAdd (Number m 1) in
          let subs_access := Substitution m id_var_while [] AssignVar next_access in
          DOk (While m cond (Block m [new_stmt; subs_access]), declarations)
        else DOk (While m cond new_stmt, new_declarations)
    | LogCall m args =>
        if existsb (log_arg_contains is_anonymous_component) args
        then fail RCAnonymousComponentError m MAnonLog
        else s <- build_log_call m args ;; DOk (s, [])
    | Assert m arg =>
        if contains_anon arg then fail RCAnonymousComponentError m MAnonAssert
        else DOk (Assert m arg, [])
    | Return m arg =>
        if contains_anon arg then fail RCAnonymousComponentError m MAnonReturn
        else DOk (Return m arg, [])
    | ConstraintEquality m lhe rhe =>
        if contains_anon lhe || contains_anon rhe then fail RCAnonymousComponentError m MAnonCeq
        else DOk (ConstraintEquality m lhe rhe, [])
    | Declaration m xtype name dims _ =>
        match first_such contains_anon dims with
        | Some exp => fail RCAnonymousComponentError (expr_meta exp) MAnonDims
        | None => DOk (build_declaration m xtype name dims, [])
        end
    | InitializationBlock m xtype inits =>
        '(new_inits, declarations) <- ras_list (remove_anonymous_from_statement va) inits [] [] ;;
        DOk (InitializationBlock m xtype new_inits, declarations)
    | Block m stmts =>
        '(new_stmts, declarations) <- ras_list (remove_anonymous_from_statement va) stmts [] [] ;;
        DOk (Block m new_stmts, declarations)
    | Substitution m var acc o rhe =>
        match access_first_such contains_anon acc with
        | Some index => fail RCAnonymousComponentError (expr_meta index) MAnonAccess
        | None =>
            '(stmts, declarations, new_rhe) <- remove_anonymous_from_expression va rhe ;;
            let subs := Substitution m var acc o new_rhe in
            if is_nil stmts then DOk (subs, declarations)
            else DOk (Block m (stmts ++ [subs]), declarations)
        end
    end.
End Pass1.

Fixpoint separate_declarations (declarations : list statement)
  (components_dec variables_dec substitutions : list statement)
  : dres (list statement * list statement * list statement) :=
  match declarations with
  | [] => DOk (components_dec, variables_dec, substitutions)
  | dec :: rest =>
      match dec with
      | Declaration _ xtype _ _ _ =>
          if variable_type_is_component xtype
          then separate_declarations rest (components_dec ++ [dec]) variables_dec substitutions
          else if variable_type_is_var xtype
          then separate_declarations rest components_dec (variables_dec ++ [dec]) substitutions
          else DPanic site_separate_decl
      | Substitution _ _ _ _ _ =>
          separate_declarations rest components_dec variables_dec (substitutions ++ [dec])
      | _ => DPanic site_separate_decl
      end
  end.

(* ---- pass 2: tuples -------------------------------------------------------- *)

Fixpoint sep_log (e : expression) : list log_argument :=
  match e with
  | Tuple _ values => [LogStr "("] ++ flat_map sep_log values ++ [LogStr ")"]
  | _ => [LogExp e]
  end.
Definition separate_tuple_for_log_call (values : list expression) : list log_argument :=
  flat_map sep_log values.

Fixpoint unfold_values (results : list (dres expression)) (unfolded : list expression)
  : dres (list expression) :=
  match results with
  | [] => DOk unfolded
  | r :: rest =>
      new_value <- r ;;
      match new_value with
      | Tuple _ inner => unfold_values rest (unfolded ++ inner)
      | _ => unfold_values rest (unfolded ++ [new_value])
      end
  end.

Fixpoint remove_tuple_from_expression (expr : expression) : dres expression :=
  match expr with
  | ArrayInLine m values =>
      if existsb contains_tuple values then fail RCTupleError m MTupleDims else DOk expr
  | Number _ _ => DOk expr
  | Variable_ m _ _ =>
      if contains_tuple expr then fail RCTupleError m MTupleAccess else DOk expr
  | InfixOp m l _ r =>
      if contains_tuple l || contains_tuple r then fail RCTupleError m MTupleArith else DOk expr
  | PrefixOp m _ r =>
      if contains_tuple r then fail RCTupleError m MTupleArith else DOk expr
  | InlineSwitchOp m c t f =>
      if contains_tuple c || contains_tuple t || contains_tuple f
      then fail RCTupleError m MTupleSwitch else DOk expr
  | Call m _ args =>
      if existsb contains_tuple args then fail RCTupleError m MTupleCallArg else DOk expr
  | AnonymousComponent _ _ _ _ _ _ => DPanic site_rte_anon
  | Tuple m values =>
      unfolded <- unfold_values (map remove_tuple_from_expression values) [] ;;
      DOk (Tuple m unfolded)
  | ParallelOp m rhe =>
      if contains_tuple rhe then fail RCTupleError m MTupleParallel else DOk expr
  end.

Fixpoint tuple_substs (m : meta) (o : assign_op) (lhe_values rhe_values : list expression)
  (substs : list statement) : dres (list statement) :=
  match lhe_values with
  | [] => DOk substs
  | Variable_ vm name acc :: lrest =>
      match rhe_values with
      | [] => DPanic site_rhe_remove
      | rhe :: rrest =>
          tuple_substs m o lrest rrest
            (if String.eqb name "_" then substs else substs ++ [Substitution vm name acc o rhe])
      end
  | _ :: _ => fail RCTupleError m MTupleDest
  end.

Fixpoint check_log_args (args : list log_argument) : dres unit :=
  match args with
  | [] => DOk tt
  | LogExp value :: rest => _ <- remove_tuple_from_expression value ;; check_log_args rest
  | LogStr _ :: rest => check_log_args rest
  end.

Fixpoint log_new_args (args : list log_argument) (new_args : list log_argument)
  : dres (list log_argument) :=
  match args with
  | [] => DOk new_args
  | LogStr s :: rest => log_new_args rest (new_args ++ [LogStr s])
  | LogExp exp :: rest =>
      let sep_args := separate_tuple_for_log_call [exp] in
      _ <- check_log_args sep_args ;;
      log_new_args rest (new_args ++ sep_args)
  end.

Definition rts_list (f : statement -> dres statement) :=
  fix go (l : list statement) (new_stmts : list statement) : dres (list statement) :=
    match l with
    | [] => DOk new_stmts
    | s :: rest =>
        new_stmt <- f s ;;
        go rest (new_stmts ++ [new_stmt])
    end.

Fixpoint remove_tuples_from_statement (stmt : statement) : dres statement :=
  match stmt with
  | MultiSubstitution m lhe o rhe =>
      new_lhe <- remove_tuple_from_expression lhe ;;
      new_rhe <- remove_tuple_from_expression rhe ;;
      match new_lhe, new_rhe with
      | Tuple _ lhe_values, Tuple _ rhe_values =>
          if (List.length lhe_values =? List.length rhe_values)%nat then
            substs <- tuple_substs m o lhe_values rhe_values [] ;;
            DOk (Block m substs)
          else if negb (is_nil lhe_values) then fail RCTupleError m MTupleLen
          else fail RCTupleError m MTupleRhsOnly
      | l, r =>
          if is_tuple l || is_variable l then fail RCTupleError (expr_meta r) MTupleNeedTuple
          else fail RCTupleError (expr_meta l) MTupleNeedLhs
      end
  | IfThenElse m cond if_case else_case =>
      if contains_tuple cond then fail RCTupleError m MTupleCond else
      new_if_case <- remove_tuples_from_statement if_case ;;
      match else_case with
      | Some else_case =>
          new_else_case <- remove_tuples_from_statement else_case ;;
          DOk (IfThenElse m cond new_if_case (Some new_else_case))
      | None => DOk (IfThenElse m cond new_if_case None)
      end
  | While m cond body =>
      if contains_tuple cond then fail RCTupleError m MTupleCond else
      new_stmt <- remove_tuples_from_statement body ;;
      DOk (While m cond new_stmt)
  | LogCall m args =>
      new_args <- log_new_args args [] ;;
      build_log_call m new_args
  | Assert m arg =>
      if contains_tuple arg then fail RCTupleError m MTupleAssert else DOk (Assert m arg)
  | Return m value =>
      if contains_tuple value then fail RCTupleError m MTupleReturn else DOk (Return m value)
  | ConstraintEquality m lhe rhe =>
      if contains_tuple lhe || contains_tuple rhe then fail RCTupleError m MTupleCeq
      else DOk (ConstraintEquality m lhe rhe)
  | Declaration m xtype name dims _ =>
      if existsb contains_tuple dims then fail RCTupleError m MTupleDims
      else DOk (build_declaration m xtype name dims)
  | InitializationBlock m xtype inits =>
      new_inits <- rts_list remove_tuples_from_statement inits [] ;;
      DOk (InitializationBlock m xtype new_inits)
  | Block m stmts =>
      new_stmts <- rts_list remove_tuples_from_statement stmts [] ;;
      DOk (Block m new_stmts)
  | Substitution m var acc o rhe =>
      new_rhe <- remove_tuple_from_expression rhe ;;
      if is_tuple new_rhe then fail RCTupleError m MTupleLhsNot else
      match access_first_such contains_tuple acc with
      | Some index => fail RCTupleError (expr_meta index) MTupleAccess
      | None =>
          if negb (String.eqb var "_") then DOk (Substitution m var acc o new_rhe)
          else DOk (Block m [])
      end
  end.

(* ---- remove_syntactic_sugar ---------------------------------------------- *)

Definition desugar_template (env : tenv) (lib : file_library) (body : statement) : dres statement :=
  '(new_body, declarations) <- remove_anonymous_from_statement env lib None body ;;
  match new_body with
  | Block m stmts =>
      '(component_decs, variable_decs, substitutions) <-
         separate_declarations declarations [] [] [] ;;
      (* fix a4c60a2: the counter initialisations precede the component arrays *)
      let init_block :=
        [InitializationBlock m VVar variable_decs] ++ substitutions ++
        [InitializationBlock m VComponent component_decs] ++ stmts in
      remove_tuples_from_statement (Block m init_block)
  | _ => DPanic site_body_not_block
  end.

(* Fix 0c0464a: the first multi-assignment of a function body *)
Definition find_list (f : statement -> option meta) :=
  fix go (l : list statement) : option meta :=
    match l with
    | [] => None
    | s :: rest => match f s with Some m => Some m | None => go rest end
    end.

Fixpoint find_multi_substitution (stmt : statement) : option meta :=
  match stmt with
  | MultiSubstitution m _ _ _ => Some m
  | IfThenElse _ _ i e =>
      match find_multi_substitution i with
      | Some m => Some m
      | None => match e with Some e => find_multi_substitution e | None => None end
      end
  | While _ _ b => find_multi_substitution b
  | InitializationBlock _ _ stmts => find_list find_multi_substitution stmts
  | Block _ stmts => find_list find_multi_substitution stmts
  | _ => None
  end.

Fixpoint reports_at (msg : dmsg) (label : dlabel) (metas : list meta) : dres (list report) :=
  match metas with
  | [] => DOk []
  | m :: rest =>
      r <- mk_report RCTupleError m msg label ;;
      rs <- reports_at msg label rest ;; DOk (r :: rs)
  end.

(* None: the function is kept; Some reports: it is dropped with these reports *)
Definition check_function (body : statement) : dres (option (list report)) :=
  if contains_expr_stmt is_tuple body then
    rs <- reports_at MFunTuple LTupleHere (matching_metas_stmt is_tuple body) ;; DOk (Some rs)
  else if contains_expr_stmt is_anonymous_component body then
    rs <- reports_at MFunAnon LAnonHere (matching_metas_stmt is_anonymous_component body) ;;
    DOk (Some rs)
  else
    match find_multi_substitution body with
    | Some m => r <- mk_report RCTupleError m MFunMultiSub LProblem ;; DOk (Some [r])
    | None => DOk None
    end.

Record desugared := Desugared {
  d_templates : list (string * statement);
  d_functions : list (string * statement);
  d_reports : list report }.

Fixpoint desugar_templates (env : tenv) (lib : file_library) (ts : list (string * statement))
  (acc : list (string * statement)) (reports : list report)
  : dres (list (string * statement) * list report) :=
  match ts with
  | [] => DOk (acc, reports)
  | (name, body) :: rest =>
      match desugar_template env lib body with
      | DOk new_body => desugar_templates env lib rest (acc ++ [(name, new_body)]) reports
      | DErr r => desugar_templates env lib rest acc (reports ++ [r])
      | DPanic s => DPanic s
      | DOutOfFuel => DOutOfFuel
      end
  end.

Fixpoint desugar_functions (fs : list (string * statement)) (acc : list (string * statement))
  (reports : list report) : dres (list (string * statement) * list report) :=
  match fs with
  | [] => DOk (acc, reports)
  | (name, body) :: rest =>
      c <- check_function body ;;
      match c with
      | None => desugar_functions rest (acc ++ [(name, body)]) reports
      | Some rs => desugar_functions rest acc (reports ++ rs)
      end
  end.

Definition env_of (templates : list (string * statement)) : tenv :=
  map (fun t => (fst t, template_info_of (snd t))) templates.

(* The two maps are given as association lists without duplicate keys, in the
   iteration order of the HashMaps (results are compared as sets of
   definitions and multisets of reports, see design.d/C18.md). *)
Definition remove_syntactic_sugar (lib : file_library)
  (templates functions : list (string * statement)) : dres desugared :=
  '(ts, reports) <- desugar_templates (env_of templates) lib templates [] [] ;;
  '(fs, reports) <- desugar_functions functions [] reports ;;
  DOk (Desugared ts fs reports).

(* ---- message texts (compared with the implementation's) ------------------- *)

Definition msg_text (m : dmsg) : string :=
  match m with
  | MAnonLhs => "An anonymous component cannot occur as the left-hand side of an assignment"
  | MAnonCond => "Anonymous components cannot be used inside conditions."
  | MAnonLog => "An anonymous component cannot be used inside a log statement."
  | MAnonAssert => "An anonymous component cannot be used inside an assert statement."
  | MAnonReturn => "An anonymous component cannot be used as a return value."
  | MAnonCeq => "Anonymous components cannot be used together with the constraint equality operator `===`."
  | MAnonDims => "An anonymous component cannot be used to define the dimensions of an array."
  | MAnonAccess => "An anonymous component cannot be used to access an array."
  | MAnonArith => "Anonymous components cannot be used in arithmetic or boolean expressions."
  | MAnonSwitch => "An anonymous component cannot be used inside an inline switch expression."
  | MAnonCallArg => "An anonymous component cannot be used as an argument to a template call."
  | MAnonCallArgA => "An anonymous component cannot be used as a argument to a template call."
  | MAnonNoTemplate id => ("The template `" ++ id ++ "` does not exist.")%string
  | MAnonInputMissing n =>
      ("The input signal `" ++ n ++ "` is not assigned by the anonymous component call.")%string
  | MAnonArity => "The number of input arguments must be equal to the number of input signals of the template."
  | MAnonInputsAnon => "The inputs to an anonymous component cannot contain anonymous components."
  | MAnonParallel => "Invalid use of the parallel operator together with an anonymous component."
  | MAnonParallelParam => "An anonymous component cannot be used as a parameter in a template call."
  | MTupleDest => "The elements of the destination tuple must be either signals or variables."
  | MTupleLen => "The two tuples do not have the same length."
  | MTupleRhsOnly => "This expression must be the right-hand side of an assignment."
  | MTupleNeedTuple => "This expression must be a tuple or an anonymous component."
  | MTupleNeedLhs => "This expression must be a tuple, a component, a signal or a variable."
  | MTupleCond => "Tuples cannot be used in conditions."
  | MTupleAssert => "Tuples cannot be used in assert statements."
  | MTupleReturn => "Tuple cannot be used in return values."
  | MTupleCeq => "Tuples cannot be used together with the constraint equality operator `===`."
  | MTupleDims => "A tuple cannot be used to define the dimensions of an array."
  | MTupleLhsNot => "Left-hand side of the statement is not a tuple."
  | MTupleAccess => "A tuple cannot be used to access an array."
  | MTupleArith => "Tuples cannot be used in arithmetic or boolean expressions."
  | MTupleSwitch => "Tuples cannot be used inside an inline switch expression."
  | MTupleCallArg => "Tuples cannot be used as an argument to a function call."
  | MTupleParallel => "Tuples cannot be used in parallel operators."
  | MFunTuple => "Tuples are not allowed in functions."
  | MFunAnon => "Anonymous components are not allowed in functions."
  | MFunMultiSub => "The left-hand side of an assignment in a function must be a variable."
  end.

Definition label_text (l : dlabel) : string :=
  match l with
  | LProblem => "The problem occurs here."
  | LUnknownTemplate id => ("Unknown template `" ++ id ++ "` instantiated here.")%string
  | LTupleHere => "Tuple instantiated here."
  | LAnonHere => "Anonymous component instantiated here."
  end.
